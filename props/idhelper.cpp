// idhelper <file> <create|open> <tag> <clock> <threads:0|1, 2 = digit-grouping global locale, 3 = no file descriptor left after the open> <history: letters of FBSATRPX>
// idhelper <file> <forkcold|forkwarm> <tag> <clock> <same_file:0|1> <historyA,historyB[,historyC]>
//   worker pool: this process (library loaded) forks one worker per history WITHOUT exec, one after the other; "forkwarm":
//   the parent has itself created a file (ids) before forking, "forkcold": it has not called the library at all.
// A separate process with a fresh id generator: opens/creates the file, creates one entity per history letter and prints
// every id it caused to exist, one per line.  The process owns every clock the generator could be seeded from:
// time(), gettimeofday() and clock_gettime() all answer <clock>.
#include <nix.hpp>
#include <hdf5.h>
#include <cstdio>
#include <locale>
#include <cstring>
#include <cstdlib>
#include <thread>
#include <sys/time.h>
#include <time.h>
#include <unistd.h>
#include <sys/wait.h>
#include <sys/resource.h>
#include "vf.hpp"

static long g_clock = 0;
extern "C" int gettimeofday(struct timeval *tv, void *) { if (tv) { tv->tv_sec = g_clock; tv->tv_usec = 0; } return 0; }
extern "C" int clock_gettime(clockid_t, struct timespec *ts) { if (ts) { ts->tv_sec = g_clock; ts->tv_nsec = 0; } return 0; }

using namespace nix;

static void one(File &f, char c, const std::string &tag, int k) {
    std::string n = tag + "_" + std::to_string(k);
    auto blk = [&]() { if (!f.hasBlock(tag + "_blk")) { Block b = f.createBlock(tag + "_blk", "t"); printf("%s\n", b.id().c_str()); } return f.getBlock(tag + "_blk"); };
    auto sec = [&]() { if (!f.hasSection(tag + "_sec")) { Section s = f.createSection(tag + "_sec", "t"); printf("%s\n", s.id().c_str()); } return f.getSection(tag + "_sec"); };
    switch (c) {
    case 'B': printf("%s\n", f.createBlock(n, "t").id().c_str()); break;
    case 'S': printf("%s\n", f.createSection(n, "t").id().c_str()); break;
    case 'A': printf("%s\n", blk().createDataArray(n, "t", DataType::Double, NDSize({1})).id().c_str()); break;
    case 'T': printf("%s\n", blk().createTag(n, "t", {1.0}).id().c_str()); break;
    case 'R': printf("%s\n", blk().createSource(n, "t").id().c_str()); break;
    case 'P': printf("%s\n", sec().createProperty(n, Variant(1.0)).id().c_str()); break;
    case 'X': { Block b = blk(); DataArray a = b.createDataArray(n + "_d", "t", DataType::Double, NDSize({1})); Tag t = b.createTag(n + "_t", "t", {1.0});
                printf("%s\n%s\n%s\n", a.id().c_str(), t.id().c_str(), t.createFeature(a, LinkType::Untagged).id().c_str()); break; }
    case 'G': printf("%s\n", blk().createGroup(n, "t").id().c_str()); break;
    default: fprintf(stderr, "unknown letter %c\n", c); exit(3);
    }
}

int main(int argc, char **argv) {
    if (argc < 7) { fprintf(stderr, "usage\n"); return 2; }
    H5Eset_auto2(H5E_DEFAULT, nullptr, nullptr);
    g_clock = atol(argv[4]);
    vf::set_clock(g_clock);
    bool threads = atoi(argv[5]) == 1;
    if (atoi(argv[5]) == 2) {
        // the application has installed a global locale that groups digits (en_US style): ids are text, not numbers
        struct Grouping : std::numpunct<char> { char do_thousands_sep() const override { return ','; } std::string do_grouping() const override { return "\3"; } char do_decimal_point() const override { return '.'; } };
        std::locale::global(std::locale(std::locale::classic(), new Grouping));
    }
    std::string tag = argv[3], hist = argv[6];
    if (strncmp(argv[2], "fork", 4) == 0) {
        bool warm = strcmp(argv[2], "forkwarm") == 0, same = atoi(argv[5]) != 0;
        std::vector<std::string> hs; { std::string h; for (char c : hist + ",") { if (c == ',') { hs.push_back(h); h.clear(); } else h += c; } }
        std::string base = argv[1];
        try {
            if (warm) { File f = File::open(base + ".parent", FileMode::Overwrite); printf("%s\n", f.id().c_str()); printf("%s\n", f.createBlock("warm", "t").id().c_str()); f.close(); }
            for (size_t w = 0; w < hs.size(); w++) {
                fflush(stdout);
                pid_t pid = fork();
                if (pid == 0) {
                    int rc = 0;
                    try {
                        std::string fn = same ? base : base + "." + std::to_string(w);
                        bool create = same ? w == 0 : true;
                        File f = File::open(fn, create ? FileMode::Overwrite : FileMode::ReadWrite);
                        if (create) printf("%s\n", f.id().c_str());
                        int k = 0;
                        for (char c : hs[w]) one(f, c, tag + std::to_string(w), k++);
                        f.close();
                    } catch (const std::exception &e) { fprintf(stderr, "idhelper worker: %s\n", e.what()); rc = 4; }
                    fflush(stdout);
                    _exit(rc);
                }
                int st = 0; waitpid(pid, &st, 0);
                if (!WIFEXITED(st) || WEXITSTATUS(st) != 0) return 5;
            }
        } catch (const std::exception &e) { fprintf(stderr, "idhelper: %s\n", e.what()); return 4; }
        return 0;
    }
    try {
        bool create = strcmp(argv[2], "create") == 0;
        File f = File::open(argv[1], create ? FileMode::Overwrite : FileMode::ReadWrite);
        if (create) printf("%s\n", f.id().c_str());
        const bool starved = atoi(argv[5]) == 3;
        if (starved) {
            // the process runs out of file descriptors after the file is open: nothing that needs a NEW descriptor (an entropy
            // device, say) can be opened from here on.  A creation may then fail with an exception; ids that ARE handed out count.
            struct rlimit rl; getrlimit(RLIMIT_NOFILE, &rl); rl.rlim_cur = 0; setrlimit(RLIMIT_NOFILE, &rl);
        }
        int k = 0;
        for (char c : hist) {
            if (c == 'F') continue;
            if (threads) { std::thread th([&] { one(f, c, tag, k); }); th.join(); }   // strictly sequential: one thread at a time
            else if (starved) { try { one(f, c, tag, k); } catch (const std::exception &e) { fprintf(stderr, "idhelper (starved): creation refused: %s\n", e.what()); } }
            else one(f, c, tag, k);
            k++;
        }
        f.close();
    } catch (const std::exception &e) { fprintf(stderr, "idhelper: %s\n", e.what()); return 4; }
    return 0;
}
