// C06 — MultiTag retrieval returns exactly region i for position index i.
//
// Exhaustive grid (E2).  One case = one array configuration (the same list as C05: rank 1..3, extent <= 5, cell
// value = linear index, every combination of descriptor kinds).  Inside a case the rows (position, extent) are the
// product of the per-axis candidates of dagrid.hpp (FULL / REDUCED / MINI as in C05); they are laid out, in a fixed
// permuted order so that neighbouring rows differ on every axis, into positions / extents tables of N in {8,3,2,1}
// rows: 1-D arrays of length N (and N x 1) for 1-D data, N x D for D-dimensional data, and N x (D-1) / N x (D+1)
// for the unspecified-dimension and ignored-entry rules; extents absent or present.  For every table:
//   * every position index i in 0..N+1 through util::taggedData(tag, i, array | ref index, match),
//     MultiTag::taggedData(i, ref index | name), util::getOffsetAndCount(tag, array, i, ...) in both modes and with
//     the documented defaults, compared with the reference region of row i (i >= N must raise);
//   * index lists [], [i], [i,j], [j,i], [i,i], [2,0,1], all, [i,N]: the list retrieval must equal the list of the
//     single retrievals in the requested order (and raise when one of them raises); [] stands for "all positions"
//     (see EMPTY_LIST_MEANS_ALL);
//   * features: Tagged (cut like the reference, on a second array with other extents), Untagged (whole array),
//     Indexed with first extent N+2 and N-1 (slice i along axis 0; raises when the feature has fewer slices).
// File layout: one scratch file per positions-array layout, one block per table size N holding its own copy of the
// arrays, the multi-tag and its positions / extents / indexed-feature arrays (keeps every HDF5 group small, see main).
// Signatures: dagrid.hpp (make_sig) for single retrievals; check_list below for index lists.
#include "dagrid.hpp"

#pragma GCC diagnostic ignored "-Wdeprecated-declarations"
using namespace nix;
using namespace dag;

static const std::string P = "C06";
static const RangeMatch MODES[] = {RangeMatch::Inclusive, RangeMatch::Exclusive};
static const size_t NS[] = {8, 3, 2, 1};
// sizes of consecutive tables when the sizes rotate (large tables are cheaper per row, so they take most rows)
static const size_t PATTERN[] = {8, 3, 8, 2, 8, 3, 8, 1};
// Decision: an EMPTY index list is the library's spelling of "all positions" (taggedData / featureData replace an empty
// list by 0..N-1; the convention is relied upon in the source, see the comments in getOffsetAndCount(MultiTag...) and
// featureData(MultiTag...)).  It is therefore not "a list of indices" in the sense of the statement; what is asserted
// for it is that it equals the list of ALL single retrievals in ascending order (and raises when one of them raises).
// Set to false for the strict reading (empty list -> empty result).
static const bool EMPTY_LIST_MEANS_ALL = true;

struct Row { std::vector<double> p, e; };

struct Shared {
    Block block;
    Built ref, ft, fu;
};

struct MT { // one multi-tag with its own positions / extents arrays and indexed features
    size_t N, cols; // cols == 0: 1-D positions array of length N
    DataArray pos, ext;
    MultiTag tag;
    bool ext_linked;
    bool cal_on;
    bool calibrated;   // positions / extents arrays carry the polynomial {0, 2} and store HALF the intended numbers (2 * (p / 2) == p exactly)
    Built fiN, fiN1;
    bool has_fiN1;
    Feature feat_t, feat_u, feat_iN, feat_iN1;
    size_t idx_t, idx_u, idx_iN, idx_iN1;
};

static MT make_mt(Shared &S, size_t N, size_t cols, const std::string &suffix) {
    MT m; m.N = N; m.cols = cols; m.ext_linked = false;
    NDSize shape = cols == 0 ? NDSize({static_cast<ndsize_t>(N)}) : NDSize({static_cast<ndsize_t>(N), static_cast<ndsize_t>(cols)});
    m.pos = S.block.createDataArray("pos" + suffix, "t", DataType::Double, shape);
    m.ext = S.block.createDataArray("ext" + suffix, "t", DataType::Double, shape);
    // every second multi-tag reads its positions and extents through a calibration: what counts is what the arrays READ AS
    m.calibrated = (N + cols) % 2 == 1;
    m.cal_on = m.calibrated;
    if (m.calibrated) { m.pos.polynomCoefficients(std::vector<double>{0.0, 2.0}); m.ext.polynomCoefficients(std::vector<double>{0.0, 2.0}); }
    m.tag = S.block.createMultiTag("mt" + suffix, "t", m.pos);
    m.tag.addReference(S.ref.array);
    // the first indexed feature has MORE slices than there are positions: an index >= N must still raise
    std::vector<AxisSpec> a = {{SET, 0, N + 2}, {SAMPLED, 0, 2}};
    m.fiN = build_array(S.block, "fiN" + suffix, a, 7000.0, P);
    m.has_fiN1 = N > 1;
    if (m.has_fiN1) { a[0].n = N - 1; m.fiN1 = build_array(S.block, "fiM" + suffix, a, 8000.0, P); }
    m.feat_t = m.tag.createFeature(S.ft.array, LinkType::Tagged);
    m.feat_u = m.tag.createFeature(S.fu.array, LinkType::Untagged);
    m.feat_iN = m.tag.createFeature(m.fiN.array, LinkType::Indexed);
    if (m.has_fiN1) m.feat_iN1 = m.tag.createFeature(m.fiN1.array, LinkType::Indexed);
    m.idx_t = m.idx_u = m.idx_iN = m.idx_iN1 = 99;
    for (size_t i = 0; i < m.tag.featureCount(); i++) {
        std::string dn = m.tag.getFeature(i).data().name();
        if (dn == "ft") m.idx_t = i; else if (dn == "fu") m.idx_u = i; else if (dn == "fiN" + suffix) m.idx_iN = i; else if (dn == "fiM" + suffix) m.idx_iN1 = i;
    }
    return m;
}

static Goc call_goc(const MultiTag &tag, const DataArray &da, size_t i, const RangeMatch *m) {
    Goc g; NDSize off, cnt;
    g.exc = vf::guarded([&] { if (m) util::getOffsetAndCount(tag, da, i, off, cnt, *m); else util::getOffsetAndCount(tag, da, i, off, cnt); }, &g.what);
    if (g.exc.empty()) { ndsize_to(off, g.off); ndsize_to(cnt, g.cnt); }
    return g;
}

static Expect beyond_positions() {
    Expect x; x.throws = true; x.why = "position index beyond the number of positions"; x.culprit = -1; x.empty_axis = -1; x.block_defined = false; x.block_complete = true;
    return x;
}

static bool same_view(const Got &a, const Got &b) { return a.exc.empty() && b.exc.empty() && a.shape == b.shape && a.data == b.data; }

static std::string list_str(const std::vector<ndsize_t> &v) { return vf::jvec(v); }

// list retrieval == list of the single retrievals in the requested order
static void check_list(const std::string &family, const std::string &site, const std::string &list_class, const std::string &mode,
                       const std::vector<ndsize_t> &req, size_t N, const std::vector<Got> &singles /* by position index, this mode */,
                       const std::vector<Got> &got, const std::string &exc, const std::string &what, const std::string &table) {
    auto sig = [&](const std::string &dev) {
        return P + "|" + family + "|index list " + list_class + "|" +
               (req.empty() && EMPTY_LIST_MEANS_ALL ? "an empty index list stands for all positions: equals the list of all single retrievals in ascending order"
                                                    : "list retrieval equals the list of the single retrievals in the requested order") + "|" + dev;
    };
    std::string inst = site + " indices=" + list_str(req) + " " + mode + " " + table;
    vf::count("list_retrievals");
    vf::distinct("list_outcomes", family + "|" + list_class + "|" + mode + "|" + (exc.empty() ? "views:" + std::to_string(got.size()) : "raises"));
    std::vector<ndsize_t> eff = req;
    if (req.empty()) {
        if (EMPTY_LIST_MEANS_ALL) {
            for (size_t i = 0; i < N; i++) eff.push_back(i);
        } else {
            // strict reading: the list of zero single retrievals is the empty list
            if (exc.empty() && got.empty()) return;
            vf::violation(sig(exc.empty() ? "returned views for an empty list" : "raised for an empty list"),
                          inst + ": got " + (exc.empty() ? std::to_string(got.size()) + " views" : exc + " (" + what + ")") + ", expected an empty list");
            return;
        }
    }
    bool must_raise = false;
    for (ndsize_t r : eff) if (r >= N || !singles[static_cast<size_t>(r)].exc.empty()) must_raise = true;
    if (must_raise) {
        if (exc.empty()) vf::violation(sig("returned views although one of the single retrievals raises"), inst + ": got " + std::to_string(got.size()) + " views");
        return;
    }
    if (!exc.empty()) { vf::violation(sig("raised although every single retrieval returns data"), inst + ": got " + exc + " (" + what + ")"); return; }
    if (got.size() != eff.size()) {
        vf::violation(sig(got.size() < eff.size() ? "fewer views than requested indices" : "more views than requested indices"),
                      inst + ": got " + std::to_string(got.size()) + " views, expected " + std::to_string(eff.size()));
        return;
    }
    for (size_t k = 0; k < eff.size(); k++) {
        const Got &want = singles[static_cast<size_t>(eff[k])];
        if (!got[k].read_problem.empty()) { vf::violation(sig("view cannot be read"), inst + ": view " + std::to_string(k) + " " + got[k].read_problem); return; }
        if (!same_view(got[k], want)) {
            bool elsewhere = false;
            for (ndsize_t r : eff) if (same_view(got[k], singles[static_cast<size_t>(r)])) elsewhere = true;
            vf::violation(sig(elsewhere ? "views are not in the requested order" : "a view differs from the single retrieval of its index"),
                          inst + ": view " + std::to_string(k) + " is " + got_str(got[k]) + ", single retrieval of index " + std::to_string(eff[k]) + " gives " + got_str(want));
            return;
        }
    }
}

// all checks for one table of rows stored in multi-tag m
static void run_table(Shared &S, MT &m, const std::vector<Row> &rows, bool has_ext, long k) {
    const size_t N = m.N, r = S.ref.axes.size();
    const size_t width = m.cols == 0 ? 1 : m.cols;
    const DataArray &da = S.ref.array;
    // store the table
    std::vector<double> flatp(N * width), flate(N * width, 0.0);
    for (size_t i = 0; i < N; i++) for (size_t c = 0; c < width; c++) { flatp[i * width + c] = rows[i].p[c]; if (has_ext) flate[i * width + c] = rows[i].e[c]; }
    {
        // tables with a value that cannot be halved exactly (the smallest denormals) are stored plainly: the calibration is switched off for them
        bool exact = m.calibrated;
        for (double v : flatp) if ((v / 2) * 2 != v) exact = false;
        for (double v : flate) if ((v / 2) * 2 != v) exact = false;
        if (exact != m.cal_on) {
            if (exact) { m.pos.polynomCoefficients(std::vector<double>{0.0, 2.0}); m.ext.polynomCoefficients(std::vector<double>{0.0, 2.0}); }
            else { m.pos.polynomCoefficients(boost::none); m.ext.polynomCoefficients(boost::none); }
            m.cal_on = exact;
        }
        if (exact) { for (double &v : flatp) v /= 2; for (double &v : flate) v /= 2; vf::count("tables_read_through_a_calibration"); }
    }
    NDSize shape = m.cols == 0 ? NDSize({static_cast<ndsize_t>(N)}) : NDSize({static_cast<ndsize_t>(N), static_cast<ndsize_t>(width)});
    m.pos.setData(DataType::Double, flatp.data(), shape, NDSize(shape.size(), 0));
    if (has_ext) {
        m.ext.setData(DataType::Double, flate.data(), shape, NDSize(shape.size(), 0));
        if (!m.ext_linked) { m.tag.extents(m.ext); m.ext_linked = true; }
    } else if (m.ext_linked) { m.tag.extents(boost::none); m.ext_linked = false; }
    vf::count("tables"); vf::count("tables_N" + std::to_string(N)); vf::count("rows", static_cast<long>(N));
    std::string table = "(table of " + std::to_string(N) + " rows x " + (m.cols == 0 ? std::string("1-D") : std::to_string(m.cols) + " columns") + ", extents " + (has_ext ? "present" : "absent") + ")";

    std::vector<std::vector<Got>> single(2, std::vector<Got>(N)), single_t(2, std::vector<Got>(N));
    std::vector<Got> single_u(N), single_iN(N), single_iN1(N);
    const std::string ecl = entries_class(width, r);

    for (size_t i = 0; i < N + 2; i++) {
        const bool inside = i < N;
        InputInfo in; in.arr = &S.ref;
        if (inside) { in.pos = rows[i].p; in.ext = rows[i].e; in.has_ext = has_ext; in.entries_class = ecl; }
        else { in.plain = true; in.plain_class = "position index beyond the number of positions"; in.plain_assertion = "an index beyond the number of positions raises an out-of-bounds error"; }
        in.family = "taggedData(MultiTag)";
        InputInfo inf = in; inf.arr = &S.ft; inf.family = "featureData(MultiTag), tagged feature";
        InputInfo ing = in; ing.family = "util::getOffsetAndCount(MultiTag)";
        const std::string at = " index " + std::to_string(i) + " " + table;
        Expect x[2], xf[2];
        Goc goc[2];
        for (int mi = 0; mi < 2; mi++) {
            RangeMatch mm = MODES[mi];
            in.mode = inf.mode = ing.mode = mode_name(mm);
            in.match = inf.match = ing.match = mm;
            x[mi] = inside ? ref_block(S.ref, rows[i].p, has_ext ? rows[i].e : std::vector<double>(), mm) : beyond_positions();
            xf[mi] = inside ? ref_block(S.ft, rows[i].p, has_ext ? rows[i].e : std::vector<double>(), mm) : beyond_positions();
            goc[mi] = call_goc(m.tag, da, i, &mm);
            vf::count("getOffsetAndCount_calls");
            check_goc(P, "util::getOffsetAndCount(MultiTag,array,index,match)" + at, ing, x[mi], goc[mi]);
            Got g = observe([&] { return util::taggedData(m.tag, i, da, mm); });
            vf::count("retrievals");
            if (inside) {
                for (size_t d = 0; d < r; d++)
                    vf::distinct("outcomes", axis_input_class(in, static_cast<int>(d)) + "|" + in.mode + "|" + (g.exc.empty() ? "data" : "raises"));
                vf::distinct("blocks", (x[mi].throws ? std::string("raise:") + x[mi].why : "block " + vs(x[mi].cnt)) + "|" + ecl + "|N=" + std::to_string(N));
                vf::count(x[mi].throws ? "expected_raise" : "expected_data");
                single[mi][i] = g;
            } else vf::count("index_beyond_positions");
            check_retrieval(P, "util::taggedData(MultiTag,index,array,match)" + at, in, x[mi], g, [&] { return goc[mi]; });
            Got f = observe([&] { return util::featureData(m.tag, i, m.feat_t, mm); });
            vf::count("retrievals"); vf::count("feature_retrievals");
            vf::distinct("feature_outcomes", std::string("tagged|") + in.mode + "|" + (f.exc.empty() ? "data" : "raises"));
            if (inside) single_t[mi][i] = f;
            check_retrieval(P, "util::featureData(MultiTag,index,tagged feature,match)" + at, inf, xf[mi], f, [&] { return call_goc(m.tag, S.ft.array, i, &mm); });
        }
        // secondary entry points, one of each group per (table, index) in rotation
        {
            const int INC = 0, EXC = 1;
            int e = static_cast<int>((k + static_cast<long>(i)) % 6);
            Got g; int mi = EXC; std::string site; bool is_goc = false;
            switch (e) {
            case 0: site = "MultiTag::taggedData(index,ref index)"; in.mode = "default(Exclusive)"; g = observe([&] { return m.tag.taggedData(i, 0); }); break;
            case 1: site = "MultiTag::taggedData(index,name)"; in.mode = "default(Exclusive)"; g = observe([&] { return m.tag.taggedData(i, "ref"); }); break;
            case 2: site = "util::taggedData(MultiTag,index,ref index,match)"; in.mode = "Inclusive"; mi = INC; g = observe([&] { return util::taggedData(m.tag, i, 0, RangeMatch::Inclusive); }); break;
            case 3: site = "util::taggedData(MultiTag,index,ref index,match)"; in.mode = "Exclusive"; g = observe([&] { return util::taggedData(m.tag, i, 0, RangeMatch::Exclusive); }); break;
            case 4: site = "util::taggedData(MultiTag,index,array)"; in.mode = "default(Exclusive)"; g = observe([&] { return util::taggedData(m.tag, i, da); }); break;
            default: {
                is_goc = true; ing.mode = "default(Inclusive)"; ing.match = RangeMatch::Inclusive;
                Goc gd = call_goc(m.tag, da, i, nullptr);
                vf::count("getOffsetAndCount_calls");
                check_goc(P, "util::getOffsetAndCount(MultiTag,array,index)" + at, ing, x[INC], gd);
            }
            }
            if (!is_goc) { vf::count("retrievals"); in.match = MODES[mi]; check_retrieval(P, site + at, in, x[mi], g, [&] { return goc[mi]; }); }
            // the deprecated spellings of the single-index reference retrieval (util:: forms default to Inclusive)
            e = static_cast<int>((k + static_cast<long>(i) + 1) % 4);
            mi = EXC;
            switch (e) {
            case 0: site = "MultiTag::retrieveData(index,ref index) [deprecated]"; in.mode = "default(Exclusive)"; g = observe([&] { return m.tag.retrieveData(i, 0); }); break;
            case 1: site = "util::retrieveData(MultiTag,index,ref index) [deprecated]"; in.mode = "default(Inclusive)"; mi = INC; g = observe([&] { return util::retrieveData(m.tag, i, 0); }); break;
            case 2: site = "util::retrieveData(MultiTag,index,array,match) [deprecated]"; in.mode = "Exclusive"; g = observe([&] { return util::retrieveData(m.tag, i, da, RangeMatch::Exclusive); }); break;
            default: site = "util::retrieveData(MultiTag,index,ref index,match) [deprecated]"; in.mode = "Inclusive"; mi = INC; g = observe([&] { return util::retrieveData(m.tag, i, 0, RangeMatch::Inclusive); }); break;
            }
            vf::count("retrievals"); in.match = MODES[mi]; check_retrieval(P, site + at, in, x[mi], g, [&] { return goc[mi]; });
            e = static_cast<int>((k + static_cast<long>(i) + 2) % 5);
            mi = EXC;
            switch (e) {
            case 0: site = "MultiTag::featureData(index,feature index) tagged"; inf.mode = "default(Exclusive)"; g = observe([&] { return m.tag.featureData(i, m.idx_t); }); break;
            case 1: site = "MultiTag::featureData(index,data name) tagged"; inf.mode = "default(Exclusive)"; g = observe([&] { return m.tag.featureData(i, "ft"); }); break;
            case 2: site = "util::featureData(MultiTag,index,feature index,match) tagged"; inf.mode = "Inclusive"; mi = INC; g = observe([&] { return util::featureData(m.tag, i, m.idx_t, RangeMatch::Inclusive); }); break;
            case 3: site = "util::featureData(MultiTag,index,feature index) tagged"; inf.mode = "default(Exclusive)"; g = observe([&] { return util::featureData(m.tag, i, m.idx_t); }); break;
            default: site = "util::featureData(MultiTag,index,feature) tagged"; inf.mode = "default(Exclusive)"; g = observe([&] { return util::featureData(m.tag, i, m.feat_t); }); break;
            }
            vf::count("retrievals"); vf::count("feature_retrievals");
            inf.match = MODES[mi];
            check_retrieval(P, site + at, inf, xf[mi], g, [&] { return call_goc(m.tag, S.ft.array, i, &MODES[mi]); });
        }
        // untagged and indexed features
        for (int which = 0; which < 3; which++) {
            if (which == 2 && !m.has_fiN1) continue;
            const Built &fa = which == 0 ? S.fu : which == 1 ? m.fiN : m.fiN1;
            const Feature &feat = which == 0 ? m.feat_u : which == 1 ? m.feat_iN : m.feat_iN1;
            size_t fidx = which == 0 ? m.idx_u : which == 1 ? m.idx_iN : m.idx_iN1;
            std::string lt = which == 0 ? "untagged" : which == 1 ? "indexed(N+2 slices)" : "indexed(N-1 slices)";
            Expect w = !inside ? beyond_positions() : which == 0 ? whole_array(fa) : slice_of(fa, i);
            InputInfo iw; iw.arr = &fa; iw.plain = true; iw.family = "featureData(MultiTag), " + std::string(which == 0 ? "untagged" : "indexed") + " feature";
            iw.plain_class = lt + " feature; " + (!inside ? "position index beyond the number of positions" : w.throws ? "position index beyond the slices of the feature" : "position index inside");
            iw.plain_assertion = !inside ? "an index beyond the number of positions raises an out-of-bounds error"
                                 : which == 0 ? "untagged feature is returned whole" : "indexed feature returns slice i along the first dimension (raises when it has fewer slices)";
            int e = static_cast<int>((k + static_cast<long>(i) + which) % 6);
            Got g; std::string site;
            // the primary entry point always (mode alternates), one secondary in rotation
            RangeMatch pm = MODES[(k + static_cast<long>(i)) % 2];
            iw.mode = mode_name(pm);
            g = observe([&] { return util::featureData(m.tag, i, feat, pm); });
            vf::count("retrievals"); vf::count("feature_retrievals");
            vf::distinct("feature_outcomes", lt + "|" + iw.mode + "|" + (g.exc.empty() ? "data" : "raises"));
            check_retrieval(P, "util::featureData(MultiTag,index,feature,match)" + at, iw, w, g);
            if (inside) { if (which == 0) single_u[i] = g; else if (which == 1) single_iN[i] = g; else single_iN1[i] = g; }
            if (which != static_cast<int>((k + static_cast<long>(i)) % 3)) continue;
            switch (e) {
            case 0: site = "MultiTag::featureData(index,feature index)"; iw.mode = "default(Exclusive)"; g = observe([&] { return m.tag.featureData(i, fidx); }); break;
            case 1: site = "MultiTag::featureData(index,data name)"; iw.mode = "default(Exclusive)"; g = observe([&] { return m.tag.featureData(i, fa.array.name()); }); break;
            case 2: site = "util::featureData(MultiTag,index,feature index,match)"; iw.mode = "Inclusive"; g = observe([&] { return util::featureData(m.tag, i, fidx, RangeMatch::Inclusive); }); break;
            case 3: site = "util::featureData(MultiTag,index,feature index,match)"; iw.mode = "Exclusive"; g = observe([&] { return util::featureData(m.tag, i, fidx, RangeMatch::Exclusive); }); break;
            case 4: site = "util::featureData(MultiTag,index,feature)"; iw.mode = "default(Exclusive)"; g = observe([&] { return util::featureData(m.tag, i, feat); }); break;
            default: site = "MultiTag::featureData(index,feature id)"; iw.mode = "default(Exclusive)"; g = observe([&] { return m.tag.featureData(i, feat.id()); }); break;
            }
            vf::count("retrievals"); vf::count("feature_retrievals");
            check_retrieval(P, site + at, iw, w, g);
        }
    }

    // ---- index lists
    const ndsize_t i0 = static_cast<ndsize_t>(k % static_cast<long>(N)), j0 = static_cast<ndsize_t>((i0 + 1 + (k / static_cast<long>(N)) % (N > 1 ? N - 1 : 1)) % N);
    struct L { std::string cls; std::vector<ndsize_t> v; };
    std::vector<L> lists;
    lists.push_back({"[] (empty)", {}});
    lists.push_back({"[i]", {i0}});
    if (N > 1) {
        lists.push_back({"[i,j]", {std::min(i0, j0), std::max(i0, j0)}});
        lists.push_back({"[j,i] (descending)", {std::max(i0, j0), std::min(i0, j0)}});
    }
    lists.push_back({"[i,i] (repeated)", {i0, i0}});
    if (N > 2) lists.push_back({"[2,0,1] (permuted)", {2, 0, 1}});
    { L a; a.cls = "all"; for (size_t i = 0; i < N; i++) a.v.push_back(i); lists.push_back(a); }
    lists.push_back({"[i,N] (contains an index beyond the positions)", {i0, static_cast<ndsize_t>(N)}});
    for (size_t li = 0; li < lists.size(); li++) {
        for (int mi = 0; mi < 2; mi++) {
            if (N == 8 && mi != static_cast<int>((k + static_cast<long>(li)) % 2)) continue; // large tables: the modes alternate from list to list
            RangeMatch mm = MODES[mi];
            std::string exc, what;
            std::vector<ndsize_t> req = lists[li].v; // the library takes the list by non-const reference
            std::vector<Got> got = observe_list([&] { return util::taggedData(m.tag, req, da, mm); }, exc, what);
            check_list("taggedData(MultiTag, index list)", "util::taggedData(MultiTag,indices,array,match)", lists[li].cls, mode_name(mm), lists[li].v, N, single[mi], got, exc, what, table);
            if (req != lists[li].v) vf::count("caller_index_list_modified_by_the_call"); // not part of the statement: counted only
        }
        // one secondary list entry point per list in rotation (default mode = Exclusive, or explicit)
        {
            int e = static_cast<int>((k + static_cast<long>(li)) % 4);
            std::string exc, what, site, mode = "default(Exclusive)"; int mi = 1;
            std::vector<ndsize_t> req = lists[li].v;
            std::vector<Got> got;
            switch (e) {
            case 0: site = "MultiTag::taggedData(indices,ref index)"; got = observe_list([&] { return m.tag.taggedData(req, 0); }, exc, what); break;
            case 1: site = "MultiTag::taggedData(indices,name)"; got = observe_list([&] { return m.tag.taggedData(req, "ref"); }, exc, what); break;
            case 2: site = "util::taggedData(MultiTag,indices,ref index,match)"; mode = "Inclusive"; mi = 0; got = observe_list([&] { return util::taggedData(m.tag, req, 0, RangeMatch::Inclusive); }, exc, what); break;
            default: site = "util::taggedData(MultiTag,indices,array)"; got = observe_list([&] { return util::taggedData(m.tag, req, da); }, exc, what); break;
            }
            check_list("taggedData(MultiTag, index list)", site, lists[li].cls, mode, lists[li].v, N, single[mi], got, exc, what, table);
            // ... and one deprecated spelling of the list retrieval
            e = static_cast<int>((k + static_cast<long>(li) + 1) % 4);
            req = lists[li].v; got.clear(); exc.clear(); what.clear(); mode = "default(Exclusive)"; mi = 1;
            switch (e) {
            case 0: site = "MultiTag::retrieveData(indices,ref index) [deprecated]"; got = observe_list([&] { return m.tag.retrieveData(req, 0); }, exc, what); break;
            case 1: site = "MultiTag::retrieveData(indices,name) [deprecated]"; got = observe_list([&] { return m.tag.retrieveData(req, "ref"); }, exc, what); break;
            case 2: site = "util::retrieveData(MultiTag,indices,ref index) [deprecated]"; mode = "default(Inclusive)"; mi = 0; got = observe_list([&] { return util::retrieveData(m.tag, req, 0); }, exc, what); break;
            default: site = "util::retrieveData(MultiTag,indices,array,match) [deprecated]"; mode = "Exclusive"; got = observe_list([&] { return util::retrieveData(m.tag, req, da, RangeMatch::Exclusive); }, exc, what); break;
            }
            check_list("taggedData(MultiTag, index list)", site, lists[li].cls, mode, lists[li].v, N, single[mi], got, exc, what, table);
        }
        // feature lists: tagged in the mode of the rotation, untagged / indexed (mode irrelevant, singles taken in alternating modes)
        {
            int mi = static_cast<int>((k + static_cast<long>(li)) % 2);
            RangeMatch mm = MODES[mi];
            std::string exc, what;
            std::vector<Got> got = observe_list([&] { return util::featureData(m.tag, lists[li].v, m.feat_t, mm); }, exc, what);
            check_list("featureData(MultiTag, index list), tagged feature", "util::featureData(MultiTag,indices,feature,match)", lists[li].cls, mode_name(mm), lists[li].v, N, single_t[mi], got, exc, what, table);
            if ((k + static_cast<long>(li)) % 2 == 1) continue; // untagged / indexed lists for every other list
            int which = static_cast<int>(((k + static_cast<long>(li)) / 2) % 3);
            if (which == 2 && !m.has_fiN1) which = 1;
            const Feature &feat = which == 0 ? m.feat_u : which == 1 ? m.feat_iN : m.feat_iN1;
            size_t fidx = which == 0 ? m.idx_u : which == 1 ? m.idx_iN : m.idx_iN1;
            const std::vector<Got> &sg = which == 0 ? single_u : which == 1 ? single_iN : single_iN1;
            std::string fam = std::string("featureData(MultiTag, index list), ") + (which == 0 ? "untagged" : "indexed") + " feature";
            const bool by_handle = ((k + static_cast<long>(li)) / 2) % 2 == 0;
            if (by_handle) got = observe_list([&] { return util::featureData(m.tag, lists[li].v, feat, mm); }, exc, what);
            else got = observe_list([&] { return util::featureData(m.tag, lists[li].v, fidx, mm); }, exc, what);
            check_list(fam, by_handle ? "util::featureData(MultiTag,indices,feature,match)" : "util::featureData(MultiTag,indices,feature index,match)",
                       lists[li].cls, mode_name(mm), lists[li].v, N, sg, got, exc, what, table);
        }
    }
    // ---- a row corrected IN PLACE between two retrievals of the same index: position i is retrieved, row i of the positions (and extents)
    //      table is overwritten with the numbers of row j, position i is retrieved again with nothing else in between: the answer must be
    //      the one the unchanged row j gives (nothing may remember the old row).  The row is restored afterwards.
    if (N >= 2 && k % 3 == 0) {
        const double scale = m.cal_on ? 0.5 : 1.0;
        for (size_t i = 0; i < N; i++) {
            const size_t j = (i + 1) % N;
            const int mi = static_cast<int>((k + static_cast<long>(i)) % 2);
            const RangeMatch mm = MODES[mi];
            if (rows[i].p == rows[j].p && (!has_ext || rows[i].e == rows[j].e)) continue;
            std::vector<double> pj(width), ej(width, 0.0), pi_(width), ei(width, 0.0);
            for (size_t c = 0; c < width; c++) { pj[c] = rows[j].p[c] * scale; pi_[c] = rows[i].p[c] * scale; if (has_ext) { ej[c] = rows[j].e[c] * scale; ei[c] = rows[i].e[c] * scale; } }
            NDSize cnt(m.cols == 0 ? 1 : 2, 1), off(m.cols == 0 ? 1 : 2, 0);
            if (m.cols != 0) cnt[1] = static_cast<ndsize_t>(width);
            off[0] = static_cast<ndsize_t>(i);
            Got warm = observe([&] { return util::taggedData(m.tag, i, da, mm); });
            (void)warm;
            m.pos.setData(DataType::Double, pj.data(), cnt, off);
            if (has_ext) m.ext.setData(DataType::Double, ej.data(), cnt, off);
            Got again = observe([&] { return util::taggedData(m.tag, i, da, mm); });
            Got againf = observe([&] { return util::featureData(m.tag, i, m.feat_t, mm); });
            m.pos.setData(DataType::Double, pi_.data(), cnt, off);
            if (has_ext) m.ext.setData(DataType::Double, ei.data(), cnt, off);
            vf::count("retrievals", 3); vf::count("rows_corrected_in_place");
            const Got &want = single[mi][j], &wantf = single_t[mi][j];
            auto differs = [](const Got &a, const Got &b) { if (a.exc.empty() != b.exc.empty()) return true; if (!a.exc.empty()) return false; return !same_view(a, b); };
            if (differs(again, want))
                vf::violation(P + "|taggedData(MultiTag)|row of the positions table rewritten in place between two retrievals of the same index|equals the retrieval of the row that holds these numbers|" + (again.exc.empty() ? (want.exc.empty() ? "other elements" : "returns data") : "raises"),
                              "util::taggedData(MultiTag,index,array,match) index " + std::to_string(i) + " after row " + std::to_string(i) + " was overwritten with row " + std::to_string(j) + " " + mode_name(mm) + " " + table);
            if (differs(againf, wantf))
                vf::violation(P + "|featureData(MultiTag), tagged feature|row of the positions table rewritten in place between two retrievals of the same index|equals the retrieval of the row that holds these numbers|" + (againf.exc.empty() ? (wantf.exc.empty() ? "other elements" : "returns data") : "raises"),
                              "util::featureData(MultiTag,index,feature,match) index " + std::to_string(i) + " after row " + std::to_string(i) + " was overwritten with row " + std::to_string(j) + " " + mode_name(mm) + " " + table);
        }
    }
}

// rows with `cols` entries (cols == 0: one entry, stored in a 1-D positions array) over the product of the candidates
// of the first min(cols, rank) axes
static void make_rows(const Built &ref, size_t cols, Level lv, std::vector<Row> &rows_p, std::vector<Row> &rows_pe) {
    const size_t width = cols == 0 ? 1 : cols;
    const size_t m = std::min(width, ref.axes.size());
    std::vector<std::vector<double>> P_(m);
    std::vector<std::vector<PE>> PE_(m);
    std::vector<size_t> np(m), npe(m);
    for (size_t d = 0; d < m; d++) {
        P_[d] = position_candidates(ref.axes[d], lv);
        PE_[d] = pe_candidates(ref.axes[d], lv);
        np[d] = P_[d].size(); npe[d] = PE_[d].size();
    }
    std::vector<size_t> idx(m, 0);
    do {
        Row r;
        for (size_t d = 0; d < m; d++) r.p.push_back(P_[d][idx[d]]);
        for (size_t d = m; d < width; d++) r.p.push_back(1.5);
        rows_p.push_back(r);
    } while (next_index(idx, np));
    idx.assign(m, 0);
    do {
        Row r;
        for (size_t d = 0; d < m; d++) { r.p.push_back(PE_[d][idx[d]].p); r.e.push_back(PE_[d][idx[d]].e); }
        for (size_t d = m; d < width; d++) { r.p.push_back(1.5); r.e.push_back(0.5); }
        rows_pe.push_back(r);
    } while (next_index(idx, npe));
}

static size_t gcd(size_t a, size_t b) { while (b) { size_t t = a % b; a = b; b = t; } return a; }

// lay the rows out into tables whose sizes rotate through PATTERN starting at `phase`
static void run_rows(std::map<size_t, Shared> &shared, std::map<size_t, MT> &mts, const std::vector<Row> &rows, bool has_ext, size_t phase, long &k) {
    const size_t M = rows.size();
    size_t g = static_cast<size_t>(static_cast<double>(M) * 0.618) | 1; // permutation j -> j*g mod M: neighbours in a table are far apart in the product
    while (gcd(g, M) != 1) g += 2;
    size_t j = 0; long t = 0;
    while (j < M) {
        size_t N = PATTERN[(static_cast<size_t>(t) + phase) % 8];
        std::vector<Row> table;
        for (size_t q = 0; q < N; q++) table.push_back(rows[((j + q) % M) * g % M]);
        j += N; t++;
        run_table(shared.at(N), mts.at(N), table, has_ext, k++);
        if (vf::deadline_hit()) return;
    }
}

int main(int argc, char **argv) {
    vf::init(argc, argv, "C06");
    vf::set_clock(1500000000);
    const bool thorough = vf::opt.tier == "thorough";
    std::vector<Config> cfgs = configurations(thorough, 7, 1);
    long idx = 0;
    int samples = 0;
    for (const Config &cfg : cfgs) {
        long ci = idx++;
        if (!vf::take_case(ci)) continue;
        const size_t r = cfg.specs.size();
        vf::case_desc(cfg.label + ": " + specs_name(cfg.specs));
        vf::count("cases_rank" + std::to_string(r));
        // the positions-array layouts of this case: (columns, level)
        std::vector<std::pair<size_t, Level>> layouts;
        if (r == 1) { layouts.push_back({0, FULL}); layouts.push_back({1, thorough ? FULL : REDUCED}); layouts.push_back({2, REDUCED}); }
        else if (r == 2) { layouts.push_back({2, REDUCED}); layouts.push_back({1, REDUCED}); layouts.push_back({3, MINI}); }
        else { layouts.push_back({3, MINI}); layouts.push_back({2, MINI}); layouts.push_back({1, REDUCED}); layouts.push_back({4, TINY}); }
        long k = 0, rows_total = 0;
        std::vector<double> axis0;
        for (size_t li = 0; li < layouts.size() && !vf::deadline_hit(); li++) {
            size_t cols = layouts[li].first;
            // One file per layout and one block per table size, each with its own copy of the arrays: every HDF5 group
            // stays small (<= 8 links, "compact" storage).  With all multi-tags in one block the data_arrays group turns
            // into a "dense" group, and HDF5 1.10.8 then fails sporadically inside H5Oget_info (H5FS_open: "Read only
            // entry modified??"), which has nothing to do with the property.
            File f = File::open(vf::scratch_file("c06.h5"), FileMode::Overwrite);
            std::map<size_t, Shared> shared;
            std::map<size_t, MT> mts;
            bool ok = true, built = true;
            for (size_t N : NS) {
                Shared &S = shared[N];
                S.block = f.createBlock("b" + std::to_string(N), "t");
                S.ref = build_array(S.block, "ref", cfg.specs, 0.0, P);
                S.ft = build_array(S.block, "ft", tagged_feature_specs(cfg.specs), 1000.0, P);
                std::vector<AxisSpec> us = {{SET, 0, 2}, {SAMPLED, 0, 3}};
                S.fu = build_array(S.block, "fu", us, 5000.0, P);
                if (!S.ref.ok || !S.ft.ok || !S.fu.ok) { built = false; break; }
                mts[N] = make_mt(S, N, cols, "_c" + std::to_string(cols) + "_n" + std::to_string(N));
                const MT &m = mts[N];
                if (m.idx_t == 99 || m.idx_u == 99 || m.idx_iN == 99 || (m.has_fiN1 && m.idx_iN1 == 99) || !m.fiN.ok) ok = false;
            }
            if (!built) { f.close(); break; }
            if (!ok) { vf::violation(P + "|setup|features not listed by index", specs_name(cfg.specs)); f.close(); continue; }
            const Built &ref = shared.at(NS[0]).ref; // the same axes in every block
            axis0 = ref.axes[0].c;
            std::vector<Row> rows_p, rows_pe;
            make_rows(ref, cols, layouts[li].second, rows_p, rows_pe);
            rows_total += static_cast<long>(rows_p.size() + rows_pe.size());
            const size_t width = cols == 0 ? 1 : cols;
            vf::count(width < r ? "layouts_fewer_columns" : width == r ? "layouts_equal_columns" : "layouts_more_columns");
            run_rows(shared, mts, rows_p, false, 0, k);
            run_rows(shared, mts, rows_pe, true, 0, k);
            if (thorough && li == 0 && r == 1) {
                // second pass over the main layout with the table sizes shifted: every row also sits in a table of another size
                run_rows(shared, mts, rows_p, false, 3, k);
                run_rows(shared, mts, rows_pe, true, 3, k);
            }
            mts.clear(); shared.clear();
            f.close();
        }
        if (samples < 3 && (ci % 16 == vf::opt.shard % 16 || vf::opt.only >= 0)) {
            samples++;
            vf::sample("{\"case\":" + std::to_string(ci) + ",\"array\":" + vf::jstr(specs_name(cfg.specs)) + ",\"tagged_feature_array\":" +
                       vf::jstr(specs_name(tagged_feature_specs(cfg.specs))) + ",\"rows\":" + std::to_string(rows_total) + ",\"tables\":" + std::to_string(k) +
                       ",\"table_sizes\":[8,3,2,1],\"axis0_coordinates\":" + vf::jvecd(axis0) + "}");
        }
        if (vf::deadline_hit()) break;
    }
    vf::note("configurations", std::to_string(cfgs.size()));
    return vf::finish();
}
