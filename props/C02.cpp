// C02 — close and reopen preserves the complete entity tree.
//
// Explicit-state exploration (E1) of operation histories over the entity-graph alphabet from the empty file and
// from two rich seed files.  On every transition the canonical observation taken in the writing session after the
// operation is compared with the observation after close + reopen ReadOnly, after close + reopen ReadWrite, and —
// for every newly discovered state — with the observation made by a different process (fork + exec of obsdump).
// The faked clock advances with every step, so a re-stamped creation time shows up as a difference.
#include <nix.hpp>
#include <unistd.h>
#include <sys/wait.h>
#include "vf.hpp"
#include "obs.hpp"
#include "ops.hpp"
#include "explore.hpp"

using namespace nix;

static std::string obsdump_path;

static std::string other_process(const std::string &path, const char *mode) {
    int fd[2];
    if (pipe(fd) != 0) return "!pipe";
    pid_t pid = fork();
    if (pid == 0) {
        dup2(fd[1], 1); close(fd[0]); close(fd[1]);
        // the other process lives in another environment than the writer: other time zone, other locale variables, other cwd
        setenv("TZ", "JST-9", 1); setenv("LC_ALL", "de_DE.UTF-8", 1); setenv("LANG", "de_DE.UTF-8", 1);
        if (chdir("/") != 0) _exit(126);
        execl(obsdump_path.c_str(), "obsdump", path.c_str(), mode, (char *)nullptr);
        _exit(127);
    }
    close(fd[1]);
    std::string out; char buf[65536]; ssize_t n;
    while ((n = read(fd[0], buf, sizeof buf)) > 0) out.append(buf, n);
    close(fd[0]);
    int st = 0; waitpid(pid, &st, 0);
    if (!WIFEXITED(st) || WEXITSTATUS(st) != 0) out = "!other process failed (status " + std::to_string(st) + ")\n" + out;
    return out;
}

// what differs first: "<Kind>.<attribute>" of the first differing line
static std::string first_diff(const std::string &a, const std::string &b) {
    std::istringstream sa(a), sb(b); std::string la, lb;
    while (true) {
        bool ha = bool(std::getline(sa, la)), hb = bool(std::getline(sb, lb));
        if (!ha && !hb) return "none";
        if (!ha || !hb) return "line count";
        if (la == lb) continue;
        std::istringstream ta(la), tb(lb); std::string wa, wb, kind;
        ta >> kind; tb >> wb;
        if (kind != wb) return "structure";
        while (ta >> wa) { if (!(tb >> wb)) return kind + ".fields"; if (wa != wb) return kind + "." + wa.substr(0, wa.find('=')); }
        return kind + ".fields";
    }
}

static std::string op_class(const std::string &name) { return name; }

int main(int argc, char **argv) {
    vf::init(argc, argv, "C02");
    setenv("TZ", "EST5EDT", 1); tzset();      // the writing process is not in UTC (POSIX TZ strings need no zone database)
    const bool thorough = vf::opt.tier == "thorough";
    std::string self = argv[0];
    obsdump_path = self.substr(0, self.rfind('/') + 1) + "obsdump";

    ex::Explorer E;
    E.keep_pool = true;
    E.add_seed("E", nullptr);
    E.add_seed("R1", ops::build_seed_r1);
    E.add_seed("R2", ops::build_seed_r2);
    std::unordered_set<uint64_t> exec_checked;

    auto run = [&](const std::string &seedname, int level, int depth) {
        E.alpha = ops::entity_alphabet(level);
        auto visit = [&](const ex::State &p, int op, ops::Session &se, const std::string &pre, bool &clean) -> std::string {
            std::string r = E.step(se, op, p.hist.size());
            if (r == "notenabled") { clean = true; return ""; }
            std::string opname = op == ex::REOPEN ? "REOPEN" : E.alpha[op].name;
            if (!r.empty()) { vf::count("rejected_steps"); vf::distinct("outcomes", opname + "|" + r); return ""; }
            obs::Node post_tree = obs::observe(se.file, E.oopt);
            std::string post = obs::render(post_tree);
            std::vector<int> h = p.hist; h.push_back(op);
            std::string rargs = "--seed=" + seedname + " --level=" + std::to_string(level) + " --history=" + ex::Explorer::hist_arg(h);
            // an entity read through a handle obtained before the step must look like it does through a fresh handle
            // (not across REOPEN: handles do not survive close, C11)
            std::string stale = op == ex::REOPEN ? std::string() : E.stale_handles(post_tree);
            vf::count("observations_compared");
            if (!stale.empty())
                vf::violation("C02|" + op_class(opname) + "|handle obtained before the step shows a different entity|" + stale.substr(0, stale.find('|')),
                              "history " + ex::hist_str(E.alpha, p, op), stale + "\nREPLAY " + rargs);
            // ... and so must one read through the handle that create* returned earlier in this session
            std::string made = E.creation_handles(post_tree);
            if (!made.empty())
                vf::violation("C02|" + op_class(opname) + "|handle returned by create* shows a different entity than a fresh handle|" + made.substr(0, made.find('|')),
                              "history " + ex::hist_str(E.alpha, p, op), made + "\nREPLAY " + rargs);
            // ... and one read through the very handle that made the changes of this step (ops::outlive: it also stays alive while close() runs)
            std::string mut = E.mutating_handles(post_tree);
            if (!mut.empty())
                vf::violation("C02|" + op_class(opname) + "|handle that made the changes shows a different entity than a fresh handle|" + mut.substr(0, mut.find('|')),
                              "history " + ex::hist_str(E.alpha, p, op), mut + "\nREPLAY " + rargs);
            E.prepool.clear();
            vf::set_clock(E.clock0 + 500);
            // entity handles obtained in the writing session stay alive across close and reopen (as in real programs)
            std::vector<Block> held_blocks; std::vector<Section> held_sections; std::vector<DataArray> held_arrays;
            vf::guarded([&] { held_blocks = se.file.blocks(); held_sections = se.file.sections(); for (auto &b : held_blocks) for (auto &a : b.dataArrays()) held_arrays.push_back(a); });
            se.close();
            auto cmp = [&](const std::string &got, const char *how) {
                vf::count("observations_compared");
                if (got != post) {
                    vf::violation("C02|" + op_class(opname) + "|" + how + "|" + first_diff(post, got),
                                  std::string("observation after ") + how + " differs from the one taken before close; history " + ex::hist_str(E.alpha, p, op),
                                  obs::diff(post, got) + "\nREPLAY " + rargs);
                }
            };
            std::string ro = vf::guarded([&] { se.open(FileMode::ReadOnly); });
            if (!ro.empty()) vf::violation("C02|" + op_class(opname) + "|reopen ReadOnly|open fails", ro + " history " + ex::hist_str(E.alpha, p, op), "REPLAY " + rargs);
            std::vector<Block> ro_blocks; std::vector<DataArray> ro_arrays; std::vector<Section> ro_sections;
            if (ro.empty()) {
                cmp(E.canon(se.file), "reopen ReadOnly");
                // a rejected write in the read-only session, and handles of that session kept past its close, must not get in the way of the next open
                vf::guarded([&] { ro_blocks = se.file.blocks(); ro_sections = se.file.sections(); for (auto &b : ro_blocks) for (auto &a : b.dataArrays()) ro_arrays.push_back(a); });
                vf::guarded([&] { if (!ro_blocks.empty()) ro_blocks[0].type("refused"); });
                vf::guarded([&] { if (!ro_sections.empty()) ro_sections[0].type("refused"); });
                se.close();
            }
            vf::set_clock(E.clock0 + 600);
            std::string rw = vf::guarded([&] { se.open(FileMode::ReadWrite); });
            if (!rw.empty()) vf::violation("C02|" + op_class(opname) + "|reopen ReadWrite|open fails", rw + " history " + ex::hist_str(E.alpha, p, op), "REPLAY " + rargs);
            else { cmp(E.canon(se.file), "reopen ReadWrite"); se.close(); }
            uint64_t k = E.key_of(post, false);
            if (exec_checked.insert(k).second) {
                // the same file reached under other spellings of its path: a symbolic link, a hard link, redundant path components
                std::string dir = se.path.substr(0, se.path.rfind('/')), base = se.path.substr(se.path.rfind('/') + 1);
                std::string dbase = dir.substr(dir.rfind('/') + 1);
                std::string sym = se.path + ".sym", hard = se.path + ".hard";
                unlink(sym.c_str()); unlink(hard.c_str());
                std::vector<std::pair<std::string, std::string>> aliases;
                if (symlink(se.path.c_str(), sym.c_str()) == 0) aliases.push_back({"symbolic link", sym});
                if (link(se.path.c_str(), hard.c_str()) == 0) aliases.push_back({"hard link", hard});
                aliases.push_back({"path with ./ and ../ components", dir + "/./../" + dbase + "/" + base});
                std::string real = se.path;
                for (auto &al : aliases) for (FileMode m : {FileMode::ReadOnly, FileMode::ReadWrite}) {
                    const char *mn = m == FileMode::ReadOnly ? "ReadOnly" : "ReadWrite";
                    se.path = al.second;
                    std::string e = vf::guarded([&] { se.open(m); });
                    if (!e.empty()) vf::violation("C02|" + op_class(opname) + "|reopen " + mn + " through a " + al.first + "|open fails", e + " history " + ex::hist_str(E.alpha, p, op), "REPLAY " + rargs);
                    else { cmp(E.canon(se.file), (std::string("reopen ") + mn + " through a " + al.first).c_str()); se.close(); }
                    se.path = real;
                }
                unlink(sym.c_str()); unlink(hard.c_str());
                vf::guarded([&] { se.open(FileMode::ReadOnly); });
                if (se.file) { cmp(E.canon(se.file), "reopen ReadOnly under the original path after reopening through its aliases"); se.close(); }
                vf::count("path_alias_observations");
                cmp(other_process(se.path, "RO"), "other process ReadOnly");
                if (thorough || vf::opt.verbose) cmp(other_process(se.path, "RW"), "other process ReadWrite");
                vf::count("other_process_observations");
            }
            vf::distinct("outcomes", opname + "|ok|" + (post == pre ? "state unchanged" : "state changed"));
            if (post != pre) vf::distinct("nontrivial", vf::fnv(obs::symbolize(pre) + "->" + obs::symbolize(post)));
            vf::count("traces");
            if (p.hist.size() == 2) vf::sample(vf::jstr(ex::hist_str(E.alpha, p, op)), 4);
            return post;
        };
        // single-trace replay mode
        if (vf::opt.extra.count("history")) {
            if (vf::opt.extra["seed"] != seedname || atoi(vf::opt.extra["level"].c_str()) != level) return;
            std::vector<int> h = ex::Explorer::parse_hist(vf::opt.extra["history"]);
            ex::State p; p.seed = seedname; p.hist.assign(h.begin(), h.end() - 1); p.fresh = false;
            ops::Session se;
            vf::take_case(0);
            vf::case_desc(ex::hist_str(E.alpha, p, h.back()));
            E.materialize(p, se);
            std::string pre = E.canon_pre(se.file);
            bool clean = false;
            std::string post = visit(p, h.back(), se, pre, clean);
            if (vf::opt.verbose) fprintf(stderr, "--- observation after the last step ---\n%s", post.c_str());
            return;
        }
        E.bfs({seedname}, depth, true, visit);
    };

    if (vf::opt.extra.count("history")) {
        run(vf::opt.extra["seed"], atoi(vf::opt.extra["level"].c_str()), 0);
        return vf::finish();
    }
    int d_empty = atoi(vf::opt.extra.count("depth_empty") ? vf::opt.extra["depth_empty"].c_str() : (thorough ? "5" : "4"));
    int lvl_empty = atoi(vf::opt.extra.count("level_empty") ? vf::opt.extra["level_empty"].c_str() : "1");
    int d_rich = atoi(vf::opt.extra.count("depth_rich") ? vf::opt.extra["depth_rich"].c_str() : (thorough ? "2" : "1"));
    run("E", lvl_empty, d_empty);
    run("R1", 2, d_rich);
    run("R2", 2, d_rich);
    vf::note("bounds", vf::jstr("empty seed: level-" + std::to_string(lvl_empty) + " alphabet, depth " + std::to_string(d_empty) + "; rich seeds R1,R2: full alphabet, depth " + std::to_string(d_rich)));
    return vf::finish();
}
