// C18 (a) — unit scaling is exact, reciprocal, composes, is symmetric, and rejects foreign units.
//
// Exhaustive grid (E2) over units  prefix? base power?  with every SI prefix (20 + none), every base
// unit known to the library and powers {none, +-1, +-2, +-3}:
//   * same base & power: all ordered pairs (factor, reciprocity, symmetry) and all triples (composition,
//     derived from the pair table of the group),
//   * different base or power: isScalable false and getSIScaling throws (quick: prefixes {none,m,k};
//     thorough: all prefixes),
//   * a list of non-SI strings against every unit of a sub-grid.
#include <nix.hpp>
#include <nix/util/util.hpp>
#include <cmath>
#include "vf.hpp"

using namespace nix;

static const char *PREFIXES[] = {"", "Y", "Z", "E", "P", "T", "G", "M", "k", "h", "da", "d", "c", "m", "u", "n", "p", "f", "a", "z", "y"};
static const int PREFIX_EXP[] = {0, 24, 21, 18, 15, 12, 9, 6, 3, 2, 1, -1, -2, -3, -6, -9, -12, -15, -18, -21, -24};
static const int NPREFIX = 21;
static const char *BASES[] = {"m", "g", "s", "A", "K", "mol", "cd", "Hz", "N", "Pa", "J", "W", "C", "V", "F", "S", "Wb", "T", "H", "lm", "lx", "Bq", "Gy", "Sv", "kat", "l", "L", "Ohm", "%", "dB", "rad"};
static const int NBASE = 31;
static const char *POWERS[] = {"", "^1", "^2", "^3", "^-1", "^-2", "^-3"};
static const int POWER_VAL[] = {1, 1, 2, 3, -1, -2, -3};
static const int NPOWER = 7;

static std::string unit(int p, int b, int w) { return std::string(PREFIXES[p]) + BASES[b] + POWERS[w]; }

static bool close_rel(double a, double b) {
    if (a == b) return true;
    double d = std::fabs(a - b), m = std::max(std::fabs(a), std::fabs(b));
    return d <= 1e-12 * m;
}

// outcome of getSIScaling: value or "throws"
struct Res { bool threw; double v; std::string exc; };
static Res scaling(const std::string &a, const std::string &b) {
    Res r{false, 0.0, ""};
    r.exc = vf::guarded([&] { r.v = util::getSIScaling(a, b); });
    r.threw = !r.exc.empty();
    return r;
}

int main(int argc, char **argv) {
    vf::init(argc, argv, "C18");
    const bool thorough = vf::opt.tier == "thorough";
    long idx = 0;

    // sanity of the alphabet: every base unit is known to the library
    if (vf::take_case(idx++)) {
        vf::case_desc("alphabet: every prefix+base+power string is an SI unit for the library");
        for (int b = 0; b < NBASE; b++) for (int p = 0; p < NPREFIX; p++) for (int w = 0; w < NPOWER; w++) {
            std::string u = unit(p, b, w);
            vf::count("unit_calls");
            if (!util::isSIUnit(u))
                vf::violation(std::string("C18|isSIUnit|prefix+base+power not recognised|base=") + BASES[b], "isSIUnit(\"" + u + "\") is false");
        }
    }

    // ---- same base and power: factor, reciprocity, symmetry, composition ----
    for (int b = 0; b < NBASE; b++) for (int w = 0; w < NPOWER; w++) {
        long ci = idx++;
        if (!vf::take_case(ci)) continue;
        vf::case_desc(std::string("same-base group base=") + BASES[b] + " power=" + (POWERS[w][0] ? POWERS[w] : "(none)"));
        double tab[NPREFIX][NPREFIX];
        bool have[NPREFIX][NPREFIX];
        for (int p = 0; p < NPREFIX; p++) for (int q = 0; q < NPREFIX; q++) {
            std::string ua = unit(p, b, w), ub = unit(q, b, w);
            bool sc = util::isScalable(ua, ub);
            Res r = scaling(ua, ub);
            vf::count("unit_calls", 2);
            vf::count("pairs_same_base");
            double want = std::pow(10.0, POWER_VAL[w] * (PREFIX_EXP[p] - PREFIX_EXP[q]));
            have[p][q] = !r.threw;
            tab[p][q] = r.v;
            std::string cls = std::string("base=") + BASES[b] + (POWERS[w][0] ? "|explicit power" : "|no power");
            vf::distinct("outcomes", std::string(POWERS[w]) + "|" + std::to_string(PREFIX_EXP[p] - PREFIX_EXP[q]) + "|" + (r.threw ? r.exc : "value") + (sc ? "|S" : "|notS"));
            if (!sc) vf::violation("C18|isScalable|same base and power|" + cls + "|false", "isScalable(\"" + ua + "\",\"" + ub + "\") is false");
            if (r.threw) vf::violation("C18|getSIScaling|same base and power|" + cls + "|throws " + r.exc, "getSIScaling(\"" + ua + "\",\"" + ub + "\") throws " + r.exc);
            else if (!close_rel(r.v, want))
                vf::violation("C18|getSIScaling|same base and power|" + cls + "|wrong factor", "getSIScaling(\"" + ua + "\",\"" + ub + "\") = " + vf::hexd(r.v) + " expected " + vf::hexd(want));
        }
        for (int p = 0; p < NPREFIX; p++) for (int q = 0; q < NPREFIX; q++) {
            if (!have[p][q] || !have[q][p]) continue;
            vf::count("law_checks");
            if (!close_rel(tab[p][q] * tab[q][p], 1.0))
                vf::violation(std::string("C18|getSIScaling|reciprocity|base=") + BASES[b], unit(p, b, w) + " <-> " + unit(q, b, w) + ": product " + vf::hexd(tab[p][q] * tab[q][p]));
            for (int r = 0; r < NPREFIX; r++) {
                if (!have[q][r] || !have[p][r]) continue;
                vf::count("law_checks");
                if (!close_rel(tab[p][q] * tab[q][r], tab[p][r]))
                    vf::violation(std::string("C18|getSIScaling|composition|base=") + BASES[b], unit(p, b, w) + " -> " + unit(q, b, w) + " -> " + unit(r, b, w));
            }
        }
        if (ci < 3) vf::sample("{\"group\":" + vf::jstr(unit(0, b, w)) + ",\"pairs\":441,\"triples\":9261,\"example\":{\"from\":" + vf::jstr(unit(8, b, w)) + ",\"to\":" + vf::jstr(unit(13, b, w)) + ",\"factor\":" + vf::hexd(tab[8][13]) + "}}");
    }

    // ---- different base or power: rejected ----
    std::vector<int> pre;
    if (thorough) for (int p = 0; p < NPREFIX; p++) pre.push_back(p); else pre = {0, 13, 8};
    for (int b = 0; b < NBASE; b++) for (int w = 0; w < NPOWER; w++) {
        long ci = idx++;
        if (!vf::take_case(ci)) continue;
        vf::case_desc(std::string("cross-base rejection, a in group base=") + BASES[b] + " power=" + (POWERS[w][0] ? POWERS[w] : "(none)"));
        for (int p : pre) {
            std::string ua = unit(p, b, w);
            for (int b2 = 0; b2 < NBASE; b2++) for (int w2 = 0; w2 < NPOWER; w2++) {
                if (b2 == b && w2 == w) continue;
                // a missing power and an explicit ^1 are not compared with each other (DESIGN: the statement does not say)
                if (b2 == b && POWER_VAL[w] == 1 && POWER_VAL[w2] == 1) continue;
                for (int q : pre) {
                    std::string ub = unit(q, b2, w2);
                    bool sc = util::isScalable(ua, ub);
                    vf::count("unit_calls");
                    vf::count("pairs_cross");
                    const char *why = b2 != b ? "different base" : "different power";
                    if (sc) {
                        vf::violation(std::string("C18|isScalable|") + why + "|accepted", "isScalable(\"" + ua + "\",\"" + ub + "\") is true");
                        Res r = scaling(ua, ub);
                        if (!r.threw) vf::violation(std::string("C18|getSIScaling|") + why + "|returns a factor", "getSIScaling(\"" + ua + "\",\"" + ub + "\") = " + vf::hexd(r.v));
                    }
                    vf::distinct("outcomes", std::string(why) + (sc ? "|accepted" : "|rejected"));
                }
            }
            // getSIScaling must throw for a representative of every other group (it calls isScalable first;
            // calling it for every pair would double the cost without reaching other code)
            for (int b2 = 0; b2 < NBASE; b2++) {
                if (b2 == b) continue;
                std::string ub = unit(p, b2, w);
                Res r = scaling(ua, ub);
                vf::count("unit_calls");
                if (!r.threw) vf::violation("C18|getSIScaling|different base|returns a factor", "getSIScaling(\"" + ua + "\",\"" + ub + "\") = " + vf::hexd(r.v));
            }
        }
    }

    // ---- non-SI strings ----
    if (vf::take_case(idx++)) {
        vf::case_desc("non-SI strings are rejected against every unit");
        const char *bad[] = {"foo", "", " ", "sec", "Volt", "mOhms", "1", "m^", "m^0", "kk", "m s", "mmm", "^2", "Hz^", "xV", "mv"};
        for (const char *x : bad) for (int b = 0; b < NBASE; b++) for (int w = 0; w < NPOWER; w += 2) for (int p : {0, 13}) {
            std::string u = unit(p, b, w);
            for (int dir = 0; dir < 2; dir++) {
                std::string a = dir ? u : x, c = dir ? x : u;
                bool sc = util::isScalable(a, c);
                Res r = scaling(a, c);
                vf::count("unit_calls", 2);
                vf::count("pairs_nonsi");
                if (sc) vf::violation("C18|isScalable|non-SI string|accepted", "isScalable(\"" + a + "\",\"" + c + "\")");
                if (!r.threw) vf::violation("C18|getSIScaling|non-SI string|returns a factor", "getSIScaling(\"" + a + "\",\"" + c + "\") = " + vf::hexd(r.v));
                vf::distinct("outcomes", std::string("nonsi|") + (sc ? "accepted" : "rejected") + (r.threw ? "|throws" : "|value"));
            }
        }
    }
    // ---- the list variants: isScalable(list, list) is the conjunction of the pairwise answers (false for lists of
    //      different lengths); isSetAtSamePos(list, list) compares emptiness position by position ----
    if (vf::take_case(idx++)) {
        vf::case_desc("isScalable / isSetAtSamePos over unit lists of length 0..3");
        const std::vector<std::string> pool = {"ms", "s", "kV", "mV", "mol", "foo", "", "m^2", "mm^2"};
        std::vector<std::vector<std::string>> lists = {{}};
        for (auto &a : pool) { lists.push_back({a}); for (auto &b2 : pool) { lists.push_back({a, b2}); } }
        for (size_t i = 0; i < pool.size(); i += 2) for (size_t j = 0; j < pool.size(); j++) for (size_t k = 1; k < pool.size(); k += 3) lists.push_back({pool[i], pool[j], pool[k]});
        for (auto &A : lists) for (auto &Bl : lists) {
            bool want = A.size() == Bl.size(), wantset = A.size() == Bl.size();
            for (size_t k = 0; want && k < A.size(); k++) want = util::isScalable(A[k], Bl[k]);
            for (size_t k = 0; wantset && k < A.size(); k++) wantset = A[k].empty() == Bl[k].empty();
            bool got = util::isScalable(A, Bl), gotset = util::isSetAtSamePos(A, Bl);
            vf::count("law_checks", 2);
            vf::distinct("outcomes", std::string("lists|") + std::to_string(A.size()) + std::to_string(Bl.size()) + (got ? "|scalable" : "|not") + (gotset ? "|same" : "|other"));
            if (got != want) {
                size_t bad = A.size(); for (size_t k = 0; k < A.size() && k < Bl.size(); k++) if (!util::isScalable(A[k], Bl[k])) { bad = k; break; }
                vf::violation(std::string("C18|isScalable(list,list)|") + (A.size() != Bl.size() ? "lists of different lengths" : bad + 1 == A.size() ? "offending pair last" : bad < A.size() ? "offending pair not last" : "all pairs scalable") + "|equals the conjunction of the pairwise answers|" + (got ? "true" : "false"),
                              "isScalable(" + vf::jvecs(A) + ", " + vf::jvecs(Bl) + ") = " + (got ? "true" : "false"));
            }
            if (gotset != wantset)
                vf::violation(std::string("C18|isSetAtSamePos(list,list)|") + (A.size() != Bl.size() ? "lists of different lengths" : "same length") + "|compares emptiness position by position|" + (gotset ? "true" : "false"),
                              "isSetAtSamePos(" + vf::jvecs(A) + ", " + vf::jvecs(Bl) + ") = " + (gotset ? "true" : "false"));
        }
    }
    vf::note("cross_base_prefixes", std::to_string(pre.size()));
    return vf::finish();
}
