// obsdump <file> <RO|RW> — prints the canonical observation of a NIX file; used as the "other process" observer.
#include <nix.hpp>
#include <hdf5.h>
#include <cstdio>
#include <cstring>
#include "obs.hpp"

int main(int argc, char **argv) {
    if (argc < 3) { fprintf(stderr, "usage: obsdump file RO|RW\n"); return 2; }
    H5Eset_auto2(H5E_DEFAULT, nullptr, nullptr);
    try {
        nix::File f = nix::File::open(argv[1], strcmp(argv[2], "RW") == 0 ? nix::FileMode::ReadWrite : nix::FileMode::ReadOnly);
        std::string t = obs::render(obs::observe(f));
        f.close();
        fwrite(t.data(), 1, t.size(), stdout);
        return 0;
    } catch (const std::exception &e) {
        printf("!open failed: %s\n", e.what());
        return 3;
    }
}
