// C10 — format-version gate: read iff same major and not newer minor; write iff identical;
// Force bypasses; FormatVersion comparison is a total lexicographic order.
//
// Exhaustive enumeration (E3): every version triple of a cube around the library's
// version plus extreme values is written into the header of a copy of a valid
// file through the HDF5 C API; the copy is opened in every mode with Force off/on.
// Ordering laws: all ordered pairs, and all triples of a sub-cube.
#include <nix.hpp>
#include <hdf5.h>
#include <climits>
#include <fstream>
#include <algorithm>
#include <sys/time.h>
#include "vf.hpp"

using namespace nix;

typedef std::vector<int> V3;

static std::string vs(const V3 &v) { return std::to_string(v[0]) + "." + std::to_string(v[1]) + "." + std::to_string(v[2]); }

static void copy_file(const std::string &a, const std::string &b) {
    std::ifstream in(a, std::ios::binary);
    std::ofstream out(b, std::ios::binary | std::ios::trunc);
    out << in.rdbuf();
}

static std::string slurp(const std::string &a) {
    std::ifstream in(a, std::ios::binary);
    std::stringstream ss; ss << in.rdbuf(); return ss.str();
}

// the modification time of a planted file is part of the environment the harness owns: every planted file carries the same one
static void fix_mtime(const std::string &path) { struct timeval tv[2] = {{1500000000, 0}, {1500000000, 0}}; utimes(path.c_str(), tv); }

static bool set_version_attr_raw(const std::string &path, const V3 &v);
static bool set_version_attr(const std::string &path, const V3 &v) { bool ok = set_version_attr_raw(path, v); fix_mtime(path); return ok; }
static bool set_version_attr_raw(const std::string &path, const V3 &v) {
    hid_t f = H5Fopen(path.c_str(), H5F_ACC_RDWR, H5P_DEFAULT);
    if (f < 0) return false;
    hid_t a = H5Aopen_by_name(f, "/", "version", H5P_DEFAULT, H5P_DEFAULT);
    bool ok = a >= 0;
    if (ok) { int buf[3] = {v[0], v[1], v[2]}; ok = H5Awrite(a, H5T_NATIVE_INT, buf) >= 0; H5Aclose(a); }
    H5Fclose(f);
    return ok;
}

// the same triple stored with another integer storage type (files written by other NIX implementations: h5py stores int64)
struct StoreType { const char *name; hid_t (*type)(); long long lo, hi; };
static hid_t t_i8() { return H5T_STD_I8LE; }   static hid_t t_i16() { return H5T_STD_I16LE; } static hid_t t_i16be() { return H5T_STD_I16BE; }
static hid_t t_i32be() { return H5T_STD_I32BE; } static hid_t t_i64() { return H5T_STD_I64LE; } static hid_t t_i64be() { return H5T_STD_I64BE; }
static hid_t t_u8() { return H5T_STD_U8LE; }   static hid_t t_u16() { return H5T_STD_U16LE; } static hid_t t_u32() { return H5T_STD_U32LE; }
static hid_t t_u64() { return H5T_STD_U64LE; }
static const StoreType STORE_TYPES[] = {
    {"int8", t_i8, -128, 127}, {"int16", t_i16, -32768, 32767}, {"int16 big-endian", t_i16be, -32768, 32767}, {"int32 big-endian", t_i32be, INT_MIN, INT_MAX},
    {"int64", t_i64, INT_MIN, INT_MAX}, {"int64 big-endian", t_i64be, INT_MIN, INT_MAX}, {"uint8", t_u8, 0, 255}, {"uint16", t_u16, 0, 65535},
    {"uint32", t_u32, 0, INT_MAX}, {"uint64", t_u64, 0, INT_MAX}};

static bool set_version_attr_typed(const std::string &path, const V3 &v, hid_t ftype) {
    hid_t f = H5Fopen(path.c_str(), H5F_ACC_RDWR, H5P_DEFAULT);
    if (f < 0) return false;
    bool ok = H5Adelete_by_name(f, "/", "version", H5P_DEFAULT) >= 0;
    hsize_t dims[1] = {3};
    hid_t sp = H5Screate_simple(1, dims, nullptr);
    hid_t a = ok ? H5Acreate_by_name(f, "/", "version", ftype, sp, H5P_DEFAULT, H5P_DEFAULT, H5P_DEFAULT) : -1;
    ok = ok && a >= 0;
    if (ok) { int buf[3] = {v[0], v[1], v[2]}; ok = H5Awrite(a, H5T_NATIVE_INT, buf) >= 0; }
    if (a >= 0) H5Aclose(a);
    H5Sclose(sp);
    H5Fclose(f);
    fix_mtime(path);
    return ok;
}

static const char *mode_name(FileMode m) { return m == FileMode::ReadOnly ? "ReadOnly" : m == FileMode::ReadWrite ? "ReadWrite" : "Overwrite"; }

int main(int argc, char **argv) {
    vf::init(argc, argv, "C10");
    vf::set_clock(1500000000);
    const std::string base = vf::scratch_file("base.h5");
    V3 L;
    {
        File f = File::open(base, FileMode::Overwrite);
        f.createBlock("b", "t");
        f.createSection("s", "t");
        L = f.version();
        f.close();
    }
    if (L.size() != 3) { vf::violation("C10|File::version|fresh file|size", "version() of a fresh file does not have 3 components"); return vf::finish(); }

    // ---- the triples ----
    std::vector<V3> cube;
    for (int x = L[0] - 1; x <= L[0] + 2; x++)
        for (int y = L[1] - 2; y <= L[1] + 2; y++)
            for (int z = L[2] - 0; z <= L[2] + 3; z++)
                cube.push_back({x, y, z});
    // negative z neighbours too
    for (int x = L[0] - 1; x <= L[0] + 1; x++) for (int y = L[1] - 1; y <= L[1] + 1; y++) cube.push_back({x, y, L[2] - 1});
    std::vector<V3> triples = cube;
    const int ext[] = {INT_MIN, -1, INT_MAX, INT_MAX - 1, INT_MIN + 1};
    for (int c = 0; c < 3; c++) for (int e : ext) { V3 v = L; v[c] = e; triples.push_back(v); }
    for (int e : ext) triples.push_back({e, e, e});
    triples.push_back({L[0], INT_MAX, INT_MIN});
    triples.push_back({L[0], INT_MIN, INT_MAX});

    const FileMode modes[] = {FileMode::ReadOnly, FileMode::ReadWrite, FileMode::Overwrite};
    long idx = 0;
    for (const V3 &v : triples) {
        long ci = idx++;
        if (!vf::take_case(ci)) continue;
        vf::case_desc("open file with stored version " + vs(v) + " (library " + vs(L) + ")");
        for (FileMode m : modes) for (int force = 0; force < 2; force++) {
            std::string p = vf::scratch_file("w.h5");
            copy_file(base, p);
            if (!set_version_attr(p, v)) {
                // the harness itself only ever closes what it opens: the file can only be busy because the library kept it open
                vf::violation("C10|File::open|the file of an earlier (refused or closed) open is still held open by the library|version attribute cannot be rewritten", "stored=" + vs(v) + " mode " + mode_name(m));
                break;
            }
            std::string before = slurp(p);
            bool expect = force || m == FileMode::Overwrite ||
                          (m == FileMode::ReadOnly && v[0] == L[0] && v[1] <= L[1]) ||
                          (m == FileMode::ReadWrite && v == L);
            bool opened = false; V3 seen; size_t nblocks = 99; bool isopen = false;
            std::string what;
            std::string exc = vf::guarded([&] {
                File f = File::open(p, m, "hdf5", Compression::Auto, force ? OpenFlags::Force : OpenFlags::None);
                opened = true; isopen = f.isOpen(); seen = f.version(); nblocks = f.blockCount();
                f.close();
            }, &what);
            vf::count("opens");
            if (getenv("VF_DEBUG")) fprintf(stderr, "C10 debug: stored %s %s%s -> %s (%s) expect %d\n", vs(v).c_str(), mode_name(m), force ? "+Force" : "", opened ? "opened" : "refused", opened ? vs(seen).c_str() : exc.c_str(), (int)expect);
            std::string cls = std::string(v[0] == L[0] ? "x=" : v[0] < L[0] ? "x<" : "x>") + (v[1] == L[1] ? "y=" : v[1] < L[1] ? "y<" : "y>") + (v[2] == L[2] ? "z=" : v[2] < L[2] ? "z<" : "z>");
            vf::distinct("outcomes", cls + mode_name(m) + (force ? "F" : "-") + (opened ? "open" : exc));
            vf::distinct("cases", vs(v) + mode_name(m) + (force ? "F" : "-"));
            std::string ctx = std::string(mode_name(m)) + (force ? "+Force" : "") + " stored=" + vs(v) + " lib=" + vs(L);
            if (opened != expect) {
                vf::violation(std::string("C10|File::open|") + mode_name(m) + (force ? "+Force" : "") + "|" + cls + "|" + (expect ? "refused but must open" : "opened but must be refused"),
                              ctx + ": " + (opened ? "opened" : "refused (" + exc + ": " + what + ")"));
                continue;
            }
            if (opened) {
                if (!isopen) vf::violation(std::string("C10|File::open|") + mode_name(m) + "|isOpen false", ctx);
                if (m == FileMode::Overwrite) {
                    if (seen != L || nblocks != 0) vf::violation("C10|File::open|Overwrite|not a fresh file of the library's version", ctx + " version=" + vs(seen) + " blocks=" + std::to_string(nblocks));
                } else {
                    if (seen != v) vf::violation(std::string("C10|File::version|") + mode_name(m) + "|differs from stored triple", ctx + " version()=" + vs(seen));
                    if (nblocks != 1) vf::violation(std::string("C10|File::open|") + mode_name(m) + "|content lost", ctx + " blocks=" + std::to_string(nblocks));
                }
            } else if (slurp(p) != before) {
                vf::violation(std::string("C10|File::open|") + mode_name(m) + "|refused open changed the file", ctx);
            }
            if (!opened && !expect) {
                // "the Force flag bypasses the check": also for the file that has just been refused, in the same process
                bool again = false; std::string w2;
                std::string e2 = vf::guarded([&] { File f = File::open(p, FileMode::ReadWrite, "hdf5", Compression::Auto, OpenFlags::Force); again = f.isOpen() && f.blockCount() == 1; f.close(); }, &w2);
                vf::count("opens");
                if (!again) vf::violation(std::string("C10|File::open|ReadWrite+Force directly after a refused ") + mode_name(m) + " open of the same file|" + cls + "|refused but must open", ctx + ": " + e2 + " " + w2);
            }
        }
        if (ci < 3) vf::sample("{\"stored\":" + vf::jstr(vs(v)) + ",\"library\":" + vf::jstr(vs(L)) + ",\"modes\":\"RO,RW,OW x Force off/on\"}");
    }

    // ---- the same gate when the triple is stored with another integer type ----
    // "A file whose format version is (x,y,z)": the statement does not depend on how wide the three integers are stored.
    for (const V3 &v : cube) {
        long ci = idx++;
        if (!vf::take_case(ci)) continue;
        vf::case_desc("stored version " + vs(v) + " in every integer storage type");
        for (const StoreType &st : STORE_TYPES) {
            bool fits = true;
            for (int c : v) if (c < st.lo || c > st.hi) fits = false;
            if (!fits) continue;
            for (FileMode m : modes) for (int force = 0; force < 2; force++) {
                std::string p = vf::scratch_file("wt.h5");
                copy_file(base, p);
                if (!set_version_attr_typed(p, v, st.type())) { vf::violation("C10|harness|cannot plant a typed version attribute", std::string(st.name) + " " + vs(v)); break; }
                bool expect = force || m == FileMode::Overwrite || (m == FileMode::ReadOnly && v[0] == L[0] && v[1] <= L[1]) || (m == FileMode::ReadWrite && v == L);
                bool opened = false; V3 seen; size_t nblocks = 99; std::string what;
                std::string exc = vf::guarded([&] {
                    File f = File::open(p, m, "hdf5", Compression::Auto, force ? OpenFlags::Force : OpenFlags::None);
                    opened = true; seen = f.version(); nblocks = f.blockCount(); f.close();
                }, &what);
                vf::count("opens_typed");
                vf::distinct("outcomes", std::string("typed|") + st.name + mode_name(m) + (force ? "F" : "-") + (opened ? "open" : exc));
                std::string ctx = std::string(mode_name(m)) + (force ? "+Force" : "") + " stored=" + vs(v) + " as " + st.name + " lib=" + vs(L);
                if (opened != expect)
                    vf::violation(std::string("C10|File::open|") + mode_name(m) + (force ? "+Force" : "") + "|version stored as " + st.name + "|" + (expect ? "refused but must open" : "opened but must be refused"),
                                  ctx + ": " + (opened ? "opened" : "refused (" + exc + ": " + what + ")"));
                else if (opened && m != FileMode::Overwrite && (seen != v || nblocks != 1))
                    vf::violation(std::string("C10|File::version|") + mode_name(m) + "|version stored as " + st.name + "|differs from stored triple or content lost", ctx + " version()=" + vs(seen) + " blocks=" + std::to_string(nblocks));
            }
        }
    }

    // ---- the same path re-planted with one triple after the other and opened in ONE mode back to back (a converter upgrading a file in
    //      place and looking again): every open must answer for the triple that is stored NOW
    for (FileMode m : {FileMode::ReadOnly, FileMode::ReadWrite}) for (int rev = 0; rev < 2; rev++) {
        long ci = idx++;
        if (!vf::take_case(ci)) continue;
        vf::case_desc(std::string("one path, every triple of the cube planted in turn (") + (rev ? "descending" : "ascending") + "), opened " + mode_name(m) + " each time");
        std::string p = vf::scratch_file("inplace.h5");
        copy_file(base, p);
        std::vector<V3> order = cube;
        if (rev) std::reverse(order.begin(), order.end());
        for (const V3 &v : order) {
            if (!set_version_attr(p, v)) { vf::violation("C10|File::open|the file of an earlier (refused or closed) open is still held open by the library|version attribute cannot be rewritten", "in-place part, stored=" + vs(v)); break; }
            bool expect = (m == FileMode::ReadOnly && v[0] == L[0] && v[1] <= L[1]) || (m == FileMode::ReadWrite && v == L);
            bool opened = false; V3 seen; std::string what;
            std::string exc = vf::guarded([&] { File f = File::open(p, m); opened = true; seen = f.version(); f.close(); }, &what);
            vf::count("opens_inplace");
            std::string ctx = std::string(mode_name(m)) + " stored=" + vs(v) + " (re-planted in place) lib=" + vs(L);
            if (opened != expect)
                vf::violation(std::string("C10|File::open|") + mode_name(m) + "|triple rewritten in place since the previous open of the same path|" + (expect ? "refused but must open" : "opened but must be refused"), ctx + ": " + (opened ? "opened" : "refused (" + exc + ": " + what + ")"));
            else if (opened && seen != v)
                vf::violation(std::string("C10|File::version|") + mode_name(m) + "|triple rewritten in place since the previous open of the same path|differs from stored triple", ctx + " version()=" + vs(seen));
        }
    }

    // ---- files of format versions that had no id header: the id attribute was introduced with format 1.2.0 (FileHDF5::checkHeader asks
    //      for it from that version on), files written by older libraries carry none.  For every stored triple BELOW 1.2.0 of the cube
    //      the gate must answer as for the file with an id.  (What a missing id means from 1.2.0 on is C09's matter.)
    for (const V3 &v : cube) {
        static const V3 ID_SINCE = {1, 2, 0};
        if (!std::lexicographical_compare(v.begin(), v.end(), ID_SINCE.begin(), ID_SINCE.end())) continue;
        long ci = idx++;
        if (!vf::take_case(ci)) continue;
        vf::case_desc("stored version " + vs(v) + " (older than the id header) without an id attribute");
        for (FileMode m : modes) for (int force = 0; force < 2; force++) {
            std::string p = vf::scratch_file("wn.h5");
            copy_file(base, p);
            bool planted = set_version_attr(p, v);
            if (planted) { hid_t h = H5Fopen(p.c_str(), H5F_ACC_RDWR, H5P_DEFAULT); planted = h >= 0 && H5Adelete_by_name(h, "/", "id", H5P_DEFAULT) >= 0; if (h >= 0) H5Fclose(h); fix_mtime(p); }
            if (!planted) { vf::violation("C10|harness|cannot plant a file without id", vs(v)); break; }
            bool expect = force || m == FileMode::Overwrite || (m == FileMode::ReadOnly && v[0] == L[0] && v[1] <= L[1]) || (m == FileMode::ReadWrite && v == L);
            bool opened = false; V3 seen; size_t nblocks = 99; std::string what;
            std::string exc = vf::guarded([&] {
                File f = File::open(p, m, "hdf5", Compression::Auto, force ? OpenFlags::Force : OpenFlags::None);
                opened = true; seen = f.version(); nblocks = f.blockCount(); f.close();
            }, &what);
            vf::count("opens_noid");
            vf::distinct("outcomes", std::string("noid|") + mode_name(m) + (force ? "F" : "-") + (opened ? "open" : exc));
            std::string ctx = std::string(mode_name(m)) + (force ? "+Force" : "") + " stored=" + vs(v) + " without id, lib=" + vs(L);
            if (opened != expect)
                vf::violation(std::string("C10|File::open|") + mode_name(m) + (force ? "+Force" : "") + "|file of a format version older than the id header, without id|" + (expect ? "refused but must open" : "opened but must be refused"),
                              ctx + ": " + (opened ? "opened" : "refused (" + exc + ": " + what + ")"));
            else if (opened && m != FileMode::Overwrite && (seen != v || nblocks != 1))
                vf::violation(std::string("C10|File::version|") + mode_name(m) + "|file without id|differs from stored triple or content lost", ctx + " version()=" + vs(seen) + " blocks=" + std::to_string(nblocks));
        }
    }

    // ---- the same gate while another handle of the same process holds the file open ----
    // The first handle is opened with Force (so it always opens) ReadOnly or ReadWrite; the second open is the one under test.
    // Combinations HDF5 itself forbids (ReadWrite or Overwrite while the file is open ReadOnly, Overwrite while it is open) are
    // not generated.  The answer must be the one the gate formula gives for the REQUESTED mode.
    for (const V3 &v : cube) {
        long ci = idx++;
        if (!vf::take_case(ci)) continue;
        vf::case_desc("second open of a file with stored version " + vs(v) + " while a first handle is open");
        for (FileMode m1 : {FileMode::ReadOnly, FileMode::ReadWrite}) for (FileMode m2 : {FileMode::ReadOnly, FileMode::ReadWrite}) for (int force = 0; force < 2; force++) {
            if (m1 == FileMode::ReadOnly && m2 == FileMode::ReadWrite) continue;
            std::string p = vf::scratch_file("w2.h5");
            copy_file(base, p);
            if (!set_version_attr(p, v)) { vf::violation("C10|File::open|the file of an earlier (refused or closed) open is still held open by the library|version attribute cannot be rewritten", "second-open part, stored=" + vs(v)); break; }
            bool expect = force || (m2 == FileMode::ReadOnly && v[0] == L[0] && v[1] <= L[1]) || (m2 == FileMode::ReadWrite && v == L);
            bool first = false, opened = false; V3 seen; size_t nblocks = 99; std::string what, what1;
            File f1;
            std::string e1 = vf::guarded([&] { f1 = File::open(p, m1, "hdf5", Compression::Auto, OpenFlags::Force); first = f1.isOpen(); }, &what1);
            if (!first) { vf::violation(std::string("C10|File::open|") + mode_name(m1) + "+Force|first handle|refused but must open", "stored=" + vs(v) + " " + e1 + " " + what1); continue; }
            std::string exc = vf::guarded([&] {
                File f2 = File::open(p, m2, "hdf5", Compression::Auto, force ? OpenFlags::Force : OpenFlags::None);
                opened = true; seen = f2.version(); nblocks = f2.blockCount(); f2.close();
            }, &what);
            bool still = false;
            vf::guarded([&] { still = f1.isOpen() && f1.blockCount() == 1; f1.close(); });
            vf::count("opens_second");
            vf::distinct("outcomes", std::string("second|") + mode_name(m1) + ">" + mode_name(m2) + (force ? "F" : "-") + (opened ? "open" : exc));
            std::string ctx = std::string("first handle ") + mode_name(m1) + "+Force, then " + mode_name(m2) + (force ? "+Force" : "") + " stored=" + vs(v) + " lib=" + vs(L);
            if (opened != expect)
                vf::violation(std::string("C10|File::open|") + mode_name(m2) + (force ? "+Force" : "") + " while a " + mode_name(m1) + " handle of the same process is open|" + (expect ? "refused but must open" : "opened but must be refused"),
                              ctx + ": " + (opened ? "opened" : "refused (" + exc + ": " + what + ")"));
            else if (opened && (seen != v || nblocks != 1))
                vf::violation(std::string("C10|File::version|second handle|differs from stored triple or content lost"), ctx + " version()=" + vs(seen) + " blocks=" + std::to_string(nblocks));
            if (!still) vf::count("first_handle_unusable_after_closing_the_second");   // not a C10 matter (close() sweeps every object of the shared HDF5 file): a statistic only
        }
    }

    // ---- ordering laws over all ordered pairs, and triples of the sub-cube ----
    std::vector<V3> pool = triples;
    for (const V3 &a : pool) {
        long ci = idx++;
        if (!vf::take_case(ci)) continue;
        vf::case_desc("ordering laws with a=" + vs(a));
        FormatVersion A(a);
        for (const V3 &b : pool) {
            FormatVersion B(b);
            bool lt = A < B, eq = A == B, gt = A > B;
            bool rlt = std::lexicographical_compare(a.begin(), a.end(), b.begin(), b.end());
            bool req = a == b;
            vf::count("pair_laws");
            vf::distinct("outcomes", std::string("ord") + (lt ? "<" : "") + (eq ? "=" : "") + (gt ? ">" : ""));
            std::string ctx = "a=" + vs(a) + " b=" + vs(b);
            if ((int)lt + (int)eq + (int)gt != 1) vf::violation("C10|FormatVersion|trichotomy", ctx);
            if (lt != rlt) vf::violation("C10|FormatVersion|operator< is not lexicographic", ctx);
            if (eq != req) vf::violation("C10|FormatVersion|operator== is not component-wise", ctx);
            if ((A != B) != !eq) vf::violation("C10|FormatVersion|operator!=", ctx);
            if ((A <= B) != (lt || eq)) vf::violation("C10|FormatVersion|operator<=", ctx);
            if ((A >= B) != (gt || eq)) vf::violation("C10|FormatVersion|operator>=", ctx);
            if (gt != (B < A)) vf::violation("C10|FormatVersion|operator> is not the converse of <", ctx);
            // canRead / canWrite: library A, file B
            if (A.canWrite(B) != req) vf::violation("C10|FormatVersion|canWrite", ctx);
            if (A.canRead(B) != (a[0] == b[0] && b[1] <= a[1])) vf::violation("C10|FormatVersion|canRead", ctx);
            if (A.asVector() != a || A[0] != a[0] || A[1] != a[1] || A[2] != a[2]) vf::violation("C10|FormatVersion|accessors", ctx);
        }
        // transitivity on the cube (a fixed): for all b, c
        if (std::find(cube.begin(), cube.end(), a) != cube.end()) {
            for (const V3 &b : cube) for (const V3 &c : cube) {
                FormatVersion B(b), C(c);
                vf::count("triple_laws");
                if (A < B && B < C && !(A < C)) vf::violation("C10|FormatVersion|transitivity of <", "a=" + vs(a) + " b=" + vs(b) + " c=" + vs(c));
                if (A <= B && B <= C && !(A <= C)) vf::violation("C10|FormatVersion|transitivity of <=", "a=" + vs(a) + " b=" + vs(b) + " c=" + vs(c));
            }
        }
    }
    vf::note("library_version", vf::jstr(vs(L)));
    vf::note("triples", std::to_string(triples.size()));
    return vf::finish();
}
