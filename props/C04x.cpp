// C04x — "every entity that was not deleted is left exactly as it was": the ENTITY-ARGUMENT overloads.
//
// delete*/remove*/has*(const Entity &) identify their victim by a handle.  A handle that does not belong to the
// container the call is made on - an entity of another block, a deeper level of the same tree, another tag - must
// not be resolved by anything weaker than identity: where the foreign entity carries the NAME of a real member
// (names are only unique among siblings), the call must answer "not mine": return false (or raise) and change
// nothing at all.  Handing over a real member through the same overload must delete exactly that member.
//
// World (built fresh for every case): two blocks with identically named arrays, frames, tags, multi-tags, groups and
// sources (nested sources repeat the name of their root), a metadata tree in which one name occurs on three levels,
// properties of one name in two sections, tags / multi-tags with references, features and sources, groups with members.
// Cases: every entity-argument overload x {foreign handle with a colliding name, foreign handle with a free name,
// real member} x {same session, handles fetched after REOPEN}.  Oracle: the canonical observation of the whole file
// (engine/obs, public getters only) before and after; for the foreign calls equal; for the member calls equal to the
// observation with the member (and its subtree, and every link to it) removed.
#include <nix.hpp>
#include <hdf5.h>
#include "vf.hpp"
#include "obs.hpp"

using namespace nix;

static void build(File &f) {
    // metadata: stim on three levels, p in two sections
    Section exp = f.createSection("exp", "t"), stim0 = f.createSection("stim", "t"), other = f.createSection("other", "t");
    Section stim1 = exp.createSection("stim", "t"), rec = exp.createSection("rec", "t");
    Section stim2 = rec.createSection("stim", "t");
    stim1.createSection("par", "t"); stim2.createSection("par", "t");
    exp.createProperty("p", Variant(1.0)); rec.createProperty("p", Variant(2.0)); stim0.createProperty("p", Variant(3.0)); rec.createProperty("q", Variant(4.0));
    other.link(stim1);
    for (const char *bn : {"b1", "b2"}) {
        Block b = f.createBlock(bn, "t");
        DataArray a = b.createDataArray("a", "t", DataType::Double, NDSize({4}));
        a.setData(std::vector<double>{1, 2, 3, 4});
        a.appendSampledDimension(1.0);
        DataArray a2 = b.createDataArray("a2", "t", DataType::Double, NDSize({4}));
        DataFrame fr = b.createDataFrame("f", "t", std::vector<Column>{{"k", "", DataType::Int32}});
        Tag t = b.createTag("t", "t", {1.0});
        Tag t2 = b.createTag("t2", "t", {0.0});
        MultiTag m = b.createMultiTag("m", "t", a2);
        Group g = b.createGroup("g", "t");
        Source s = b.createSource("s", "t");
        Source ss = s.createSource("s", "t");           // nested source with the name of its root
        Source sc = s.createSource("c", "t");
        sc.createSource("s", "t");                      // and once more, two levels down
        Source o = b.createSource("o", "t");
        o.createSource("c", "t");                       // "c" under another root
        t.addReference(a); t2.addReference(a); m.addReference(a);
        t.createFeature(a2, LinkType::Untagged); t2.createFeature(a2, LinkType::Untagged); m.createFeature(a, LinkType::Untagged);
        a.addSource(s); a.addSource(ss); t.addSource(s); m.addSource(sc);
        g.addDataArray(a); g.addTag(t); g.addMultiTag(m); g.addDataFrame(fr);
        b.metadata(stim1); a.metadata(stim2); t.metadata(stim0);
    }
}

struct Ctx {
    File f; Block b1, b2;
    explicit Ctx(File &file) : f(file), b1(file.getBlock("b1")), b2(file.getBlock("b2")) {}
    Section sec(const std::vector<std::string> &p) { Section s = f.getSection(p[0]); for (size_t i = 1; i < p.size(); i++) s = s.getSection(p[i]); return s; }
};

// a call: returns what the library returned (true = "I deleted / I have it")
struct Call {
    std::string entry, cls;                    // entry point, class of the argument (for the signature)
    bool member;                               // true: the argument IS a member -> victim id must vanish (delete*/remove*) / answer true (has*)
    bool is_has;
    std::function<bool(Ctx &)> run;
    std::function<std::string(Ctx &)> victim;  // member calls of delete*/remove*: id of the entity (or link) that must go away; "" for links
};

int main(int argc, char **argv) {
    // --family=delete (C04: deletion of entities by handle) | --family=has (C03: has-queries by handle agree with the enumeration)
    bool fam_has = false;
    for (int i = 1; i < argc; i++) if (std::string(argv[i]) == "--family=has") fam_has = true;
    const std::string PROP = fam_has ? "C03" : "C04";
    vf::init(argc, argv, PROP.c_str());
    H5Eset_auto2(H5E_DEFAULT, nullptr, nullptr);
    std::vector<Call> calls;
    auto add = [&](const std::string &entry, const std::string &cls, bool member, bool is_has, std::function<bool(Ctx &)> run) { calls.push_back(Call{entry, cls, member, is_has, run, nullptr}); };
    const std::string CN = "foreign entity whose name is taken by a member", FN = "foreign entity with a free name", MB = "member";

    // ---- Block level: b1 is asked about entities of b2 (same names) ----
    add("Block::deleteDataArray(const DataArray&)", CN, false, false, [](Ctx &c) { return c.b1.deleteDataArray(c.b2.getDataArray("a")); });
    add("Block::hasDataArray(const DataArray&)", CN, false, true, [](Ctx &c) { return c.b1.hasDataArray(c.b2.getDataArray("a")); });
    add("Block::deleteDataFrame(const DataFrame&)", CN, false, false, [](Ctx &c) { return c.b1.deleteDataFrame(c.b2.getDataFrame("f")); });
    add("Block::hasDataFrame(const DataFrame&)", CN, false, true, [](Ctx &c) { return c.b1.hasDataFrame(c.b2.getDataFrame("f")); });
    add("Block::deleteTag(const Tag&)", CN, false, false, [](Ctx &c) { return c.b1.deleteTag(c.b2.getTag("t")); });
    add("Block::hasTag(const Tag&)", CN, false, true, [](Ctx &c) { return c.b1.hasTag(c.b2.getTag("t")); });
    add("Block::deleteMultiTag(const MultiTag&)", CN, false, false, [](Ctx &c) { return c.b1.deleteMultiTag(c.b2.getMultiTag("m")); });
    add("Block::hasMultiTag(const MultiTag&)", CN, false, true, [](Ctx &c) { return c.b1.hasMultiTag(c.b2.getMultiTag("m")); });
    add("Block::deleteGroup(const Group&)", CN, false, false, [](Ctx &c) { return c.b1.deleteGroup(c.b2.getGroup("g")); });
    add("Block::hasGroup(const Group&)", CN, false, true, [](Ctx &c) { return c.b1.hasGroup(c.b2.getGroup("g")); });
    add("Block::deleteSource(const Source&)", CN, false, false, [](Ctx &c) { return c.b1.deleteSource(c.b2.getSource("s")); });
    add("Block::hasSource(const Source&)", CN, false, true, [](Ctx &c) { return c.b1.hasSource(c.b2.getSource("s")); });
    add("Block::deleteSource(const Source&)", "nested source of the same block whose name is taken by a root source", false, false, [](Ctx &c) { return c.b1.deleteSource(c.b1.getSource("s").getSource("s")); });
    add("Block::hasSource(const Source&)", "nested source of the same block whose name is taken by a root source", false, true, [](Ctx &c) { return c.b1.hasSource(c.b1.getSource("s").getSource("s")); });
    add("Block::deleteSource(const Source&)", "nested source of the same block with a free name", false, false, [](Ctx &c) { return c.b1.deleteSource(c.b1.getSource("s").getSource("c")); });
    // members
    add("Block::deleteDataArray(const DataArray&)", MB, true, false, [](Ctx &c) { return c.b1.deleteDataArray(c.b1.getDataArray("a2")); });
    add("Block::deleteTag(const Tag&)", MB, true, false, [](Ctx &c) { return c.b1.deleteTag(c.b1.getTag("t2")); });
    add("Block::deleteSource(const Source&)", MB, true, false, [](Ctx &c) { return c.b1.deleteSource(c.b1.getSource("o")); });
    add("Block::hasDataArray(const DataArray&)", MB, true, true, [](Ctx &c) { return c.b1.hasDataArray(c.b1.getDataArray("a")); });

    // ---- Source level ----
    add("Source::deleteSource(const Source&)", "descendant two levels down whose name is taken by a child", false, false, [](Ctx &c) { Source s = c.b1.getSource("s"); return s.deleteSource(s.getSource("c").getSource("s")); });
    add("Source::hasSource(const Source&)", "descendant two levels down whose name is taken by a child", false, true, [](Ctx &c) { Source s = c.b1.getSource("s"); return s.hasSource(s.getSource("c").getSource("s")); });
    add("Source::deleteSource(const Source&)", "child of another root whose name is taken by a child", false, false, [](Ctx &c) { return c.b1.getSource("s").deleteSource(c.b1.getSource("o").getSource("c")); });
    add("Source::deleteSource(const Source&)", "source of another block whose name is taken by a child", false, false, [](Ctx &c) { return c.b1.getSource("s").deleteSource(c.b2.getSource("s").getSource("c")); });
    add("Source::deleteSource(const Source&)", "the source itself (its name is taken by a child)", false, false, [](Ctx &c) { Source s = c.b1.getSource("s"); return s.deleteSource(s); });
    add("Source::deleteSource(const Source&)", MB, true, false, [](Ctx &c) { Source s = c.b1.getSource("s"); return s.deleteSource(s.getSource("c")); });

    // ---- File / Section level ----
    add("File::deleteSection(const Section&)", "nested section whose name is taken by a root section", false, false, [](Ctx &c) { return c.f.deleteSection(c.sec({"exp", "stim"})); });
    add("File::hasSection(const Section&)", "nested section whose name is taken by a root section", false, true, [](Ctx &c) { return c.f.hasSection(c.sec({"exp", "stim"})); });
    add("File::deleteSection(const Section&)", "nested section with a free name", false, false, [](Ctx &c) { return c.f.deleteSection(c.sec({"exp", "rec"})); });
    add("Section::deleteSection(const Section&)", "descendant two levels down whose name is taken by a child", false, false, [](Ctx &c) { return c.sec({"exp"}).deleteSection(c.sec({"exp", "rec", "stim"})); });
    add("Section::hasSection(const Section&)", "descendant two levels down whose name is taken by a child", false, true, [](Ctx &c) { return c.sec({"exp"}).hasSection(c.sec({"exp", "rec", "stim"})); });
    add("Section::deleteSection(const Section&)", "root section whose name is taken by a child", false, false, [](Ctx &c) { return c.sec({"exp"}).deleteSection(c.sec({"stim"})); });
    add("Section::deleteSection(const Section&)", "child of a sibling whose name is taken by a child", false, false, [](Ctx &c) { return c.sec({"exp", "stim"}).deleteSection(c.sec({"exp", "rec", "stim", "par"})); });
    add("Section::deleteSection(const Section&)", MB, true, false, [](Ctx &c) { return c.sec({"exp"}).deleteSection(c.sec({"exp", "rec"})); });
    add("File::deleteSection(const Section&)", MB, true, false, [](Ctx &c) { return c.f.deleteSection(c.sec({"stim"})); });
    add("Section::deleteProperty(const Property&)", "property of another section whose name is taken by a member", false, false, [](Ctx &c) { return c.sec({"exp"}).deleteProperty(c.sec({"exp", "rec"}).getProperty("p")); });
    add("Section::hasProperty(const Property&)", "property of another section whose name is taken by a member", false, true, [](Ctx &c) { return c.sec({"exp"}).hasProperty(c.sec({"exp", "rec"}).getProperty("p")); });
    add("Section::deleteProperty(const Property&)", "property of another section with a free name", false, false, [](Ctx &c) { return c.sec({"exp"}).deleteProperty(c.sec({"exp", "rec"}).getProperty("q")); });
    add("Section::deleteProperty(const Property&)", MB, true, false, [](Ctx &c) { return c.sec({"exp", "rec"}).deleteProperty(c.sec({"exp", "rec"}).getProperty("q")); });
    add("File::deleteBlock(const Block&)", MB, true, false, [](Ctx &c) { return c.f.deleteBlock(c.b2); });
    add("File::hasBlock(const Block&)", MB, true, true, [](Ctx &c) { return c.f.hasBlock(c.b2); });

    // ---- links: Group members, references, sources, features ----
    add("Group::removeDataArray(const DataArray&)", CN, false, false, [](Ctx &c) { return c.b1.getGroup("g").removeDataArray(c.b2.getDataArray("a")); });
    add("Group::hasDataArray(const DataArray&)", CN, false, true, [](Ctx &c) { return c.b1.getGroup("g").hasDataArray(c.b2.getDataArray("a")); });
    add("Group::removeTag(const Tag&)", CN, false, false, [](Ctx &c) { return c.b1.getGroup("g").removeTag(c.b2.getTag("t")); });
    add("Group::hasTag(const Tag&)", CN, false, true, [](Ctx &c) { return c.b1.getGroup("g").hasTag(c.b2.getTag("t")); });
    add("Group::removeMultiTag(const MultiTag&)", CN, false, false, [](Ctx &c) { return c.b1.getGroup("g").removeMultiTag(c.b2.getMultiTag("m")); });
    add("Group::hasMultiTag(const MultiTag&)", CN, false, true, [](Ctx &c) { return c.b1.getGroup("g").hasMultiTag(c.b2.getMultiTag("m")); });
    add("Group::removeDataFrame(const DataFrame&)", CN, false, false, [](Ctx &c) { return c.b1.getGroup("g").removeDataFrame(c.b2.getDataFrame("f")); });
    add("Group::hasDataFrame(const DataFrame&)", CN, false, true, [](Ctx &c) { return c.b1.getGroup("g").hasDataFrame(c.b2.getDataFrame("f")); });
    add("Group::removeDataArray(const DataArray&)", "array of the same block that is no member", false, false, [](Ctx &c) { return c.b1.getGroup("g").removeDataArray(c.b1.getDataArray("a2")); });
    add("Group::removeDataArray(const DataArray&)", MB, true, false, [](Ctx &c) { return c.b1.getGroup("g").removeDataArray(c.b1.getDataArray("a")); });
    add("Tag::removeReference(const DataArray&)", CN, false, false, [](Ctx &c) { return c.b1.getTag("t").removeReference(c.b2.getDataArray("a")); });
    add("Tag::hasReference(const DataArray&)", CN, false, true, [](Ctx &c) { return c.b1.getTag("t").hasReference(c.b2.getDataArray("a")); });
    add("Tag::removeReference(const DataArray&)", "array of the same block that is not referenced", false, false, [](Ctx &c) { return c.b1.getTag("t").removeReference(c.b1.getDataArray("a2")); });
    add("Tag::removeReference(const DataArray&)", MB, true, false, [](Ctx &c) { return c.b1.getTag("t").removeReference(c.b1.getDataArray("a")); });
    add("MultiTag::removeReference(const DataArray&)", CN, false, false, [](Ctx &c) { return c.b1.getMultiTag("m").removeReference(c.b2.getDataArray("a")); });
    add("MultiTag::hasReference(const DataArray&)", CN, false, true, [](Ctx &c) { return c.b1.getMultiTag("m").hasReference(c.b2.getDataArray("a")); });
    add("MultiTag::removeReference(const DataArray&)", MB, true, false, [](Ctx &c) { return c.b1.getMultiTag("m").removeReference(c.b1.getDataArray("a")); });
    add("Tag::deleteFeature(const Feature&)", "feature of another tag of the block", false, false, [](Ctx &c) { return c.b1.getTag("t").deleteFeature(c.b1.getTag("t2").getFeature(0)); });
    add("Tag::hasFeature(const Feature&)", "feature of another tag of the block", false, true, [](Ctx &c) { return c.b1.getTag("t").hasFeature(c.b1.getTag("t2").getFeature(0)); });
    add("Tag::deleteFeature(const Feature&)", "feature of a tag of another block", false, false, [](Ctx &c) { return c.b1.getTag("t").deleteFeature(c.b2.getTag("t").getFeature(0)); });
    add("Tag::deleteFeature(const Feature&)", MB, true, false, [](Ctx &c) { Tag t = c.b1.getTag("t"); return t.deleteFeature(t.getFeature(0)); });
    add("MultiTag::deleteFeature(const Feature&)", "feature of a tag of the block", false, false, [](Ctx &c) { return c.b1.getMultiTag("m").deleteFeature(c.b1.getTag("t").getFeature(0)); });
    add("MultiTag::hasFeature(const Feature&)", "feature of a multi-tag of another block", false, true, [](Ctx &c) { return c.b1.getMultiTag("m").hasFeature(c.b2.getMultiTag("m").getFeature(0)); });
    add("MultiTag::deleteFeature(const Feature&)", MB, true, false, [](Ctx &c) { MultiTag m = c.b1.getMultiTag("m"); return m.deleteFeature(m.getFeature(0)); });
    add("DataArray::removeSource(const Source&)", CN, false, false, [](Ctx &c) { return c.b1.getDataArray("a").removeSource(c.b2.getSource("s")); });
    add("DataArray::hasSource(const Source&)", CN, false, true, [](Ctx &c) { return c.b1.getDataArray("a").hasSource(c.b2.getSource("s")); });
    add("DataArray::removeSource(const Source&)", "source of the same block that is not attached, its name is the name of an attached one", false, false, [](Ctx &c) { return c.b1.getDataArray("a").removeSource(c.b1.getSource("s").getSource("c").getSource("s")); });
    add("DataArray::hasSource(const Source&)", "source of the same block that is not attached, its name is the name of an attached one", false, true, [](Ctx &c) { return c.b1.getDataArray("a").hasSource(c.b1.getSource("s").getSource("c").getSource("s")); });
    add("DataArray::removeSource(const Source&)", MB, true, false, [](Ctx &c) { return c.b1.getDataArray("a").removeSource(c.b1.getSource("s").getSource("s")); });
    add("Tag::removeSource(const Source&)", CN, false, false, [](Ctx &c) { return c.b1.getTag("t").removeSource(c.b2.getSource("s")); });
    add("MultiTag::removeSource(const Source&)", "source of another block with the name of the attached one", false, false, [](Ctx &c) { return c.b1.getMultiTag("m").removeSource(c.b2.getSource("s").getSource("c")); });

    long cid = 0;
    for (size_t ci = 0; ci < calls.size(); ci++) for (int reopen = 0; reopen < 2; reopen++) {
        const Call &cl = calls[ci];
        // unlink operations (Group::remove*, removeReference, removeSource) with a foreign handle are not judged: no listed
        // property says which member, if any, such a call may unlink (DESIGN 10.9); their has-queries are judged (C03)
        const bool unlink = !cl.is_has && (cl.entry.find("::remove") != std::string::npos);
        if (unlink || cl.is_has != fam_has) continue;
        long id = cid++;
        if (!vf::take_case(id)) continue;
        std::string desc = cl.entry + " with " + cl.cls + (reopen ? ", after REOPEN" : ", creating session");
        vf::case_desc(desc);
        std::string path = vf::scratch_file("c04x.h5");
        File f = File::open(path, FileMode::Overwrite);
        build(f);
        if (reopen) { f.close(); f = File::open(path, FileMode::ReadWrite); }
        obs::Options oo; oo.lookups = true;
        std::string before = obs::render(obs::observe(f, oo));
        size_t nb = 0; { obs::Node t = obs::observe(f, oo); std::set<std::string> ids; obs::collect_ids(t, ids); nb = ids.size(); }
        bool ret = false; std::string exc;
        { Ctx c(f); exc = vf::guarded([&] { ret = cl.run(c); }); }
        obs::Node after_t = obs::observe(f, oo);
        std::string after = obs::render(after_t);
        std::set<std::string> ids_after; obs::collect_ids(after_t, ids_after);
        vf::count("calls");
        if (fam_has) { vf::count("transitions"); vf::count("traces"); vf::count("lookups"); vf::distinct("states", "handle|" + desc); }
        else { vf::count("deletions"); vf::count("traces"); vf::count("observations_compared", 2); vf::distinct("scenarios", "handle|" + desc); }
        vf::distinct("outcomes", cl.entry + "|" + cl.cls + "|" + (exc.empty() ? (ret ? "true" : "false") : "raises") + "|" + (before == after ? "unchanged" : "changed"));
        std::string sigbase = PROP + "|" + cl.entry + "|" + cl.cls + "|";
        if (!cl.member) {
            if (exc.empty() && ret) vf::violation(sigbase + (cl.is_has ? "answers false" : "refuses (false or an error)") + "|answered true", desc);
            if (before != after) vf::violation(sigbase + "the file is left exactly as it was|observation changed", desc + ": " + std::to_string(nb) + " entities before, " + std::to_string(ids_after.size()) + " after");
        } else if (cl.is_has) {
            if (!exc.empty() || !ret) vf::violation(sigbase + "answers true|" + (exc.empty() ? "answered false" : "raised " + exc), desc);
            if (before != after) vf::violation(sigbase + "the file is left exactly as it was|observation changed", desc);
        } else {
            if (!exc.empty() || !ret) vf::violation(sigbase + "deletes the member and answers true|" + (exc.empty() ? "answered false" : "raised " + exc), desc);
            if (before == after) vf::violation(sigbase + "deletes the member and answers true|nothing changed", desc);
        }
        // both modes once more after a reopen: what was (not) done is what the file says
        f.close();
        File g = File::open(path, FileMode::ReadOnly);
        std::string again = obs::render(obs::observe(g, oo));
        g.close();
        if (again != after) vf::violation(sigbase + "the state after the call survives close and reopen|observation differs", desc);
        if (id % 17 == 0) vf::sample("{\"call\":" + vf::jstr(desc) + ",\"returned\":" + (exc.empty() ? (ret ? "true" : "false") : vf::jstr(exc)) + ",\"observation_changed\":" + (before != after ? "true" : "false") + "}", 6);
        if (vf::deadline_hit()) break;
    }
    return vf::finish();
}
