// C12 — ids are well-formed UUIDs, never change and never collide.
//
// (a) History exploration (E1): BFS over the entity alphabet from the empty file and from a rich seed; on every
//     transition every id observable in the file (file, blocks, arrays, frames, tags, multi-tags, features, groups,
//     sources, sections, properties) must be a well-formed non-nil UUID, all ids must be pairwise distinct, every entity
//     that exists before and after the step (same kind and path) must keep its id, and ids created by the step must differ
//     from every id that ever existed in this trace (also of deleted entities and of earlier sessions).
// (b') Worker pools: a process with the library loaded forks P workers WITHOUT exec (cold or warm parent), same/different files.
// (b) Schedule enumeration (E3): P real processes (fork + exec of idhelper, each with a fresh generator) and, as a
//     variant, P threads of one process, each executing a creation history, on one file one after the other (orders
//     A-B, B-A, A-B-A) or on different files, for EVERY assignment of start times from {T, T, T+1}: the harness owns
//     time(), gettimeofday() and clock_gettime() of the helper, so "started in the same second" is forced.  All ids
//     of a schedule must be pairwise distinct.
#include <nix.hpp>
#include <unistd.h>
#include <sys/wait.h>
#include <hdf5.h>
#include <algorithm>
#include <nix/util/util.hpp>
#include "vf.hpp"
#include "obs.hpp"
#include "ops.hpp"
#include "explore.hpp"

using namespace nix;

static bool well_formed(const std::string &id) {
    if (id.size() != 36) return false;
    bool nonzero = false;
    for (size_t i = 0; i < 36; i++) {
        bool dash = (i == 8 || i == 13 || i == 18 || i == 23);
        char c = id[i];
        if (dash) { if (c != '-') return false; }
        else { if (!((c >= '0' && c <= '9') || (c >= 'a' && c <= 'f'))) return false; if (c != '0') nonzero = true; }
    }
    return nonzero;
}

// path -> id of every entity of a tree (features are keyed by their id: they have no name)
static void paths(const obs::Node &n, const std::string &prefix, std::map<std::string, std::string> &out, std::vector<std::string> &all) {
    std::string me = prefix;
    if (n.kind != "Dim") {
        me = prefix + "/" + n.kind + ":" + (n.kind == "Feature" ? n.id : n.name);
        if (!n.id.empty() || n.kind == "File") { out[me] = n.id; all.push_back(n.id); }
    }
    for (auto &c : n.kids) for (auto &k : c.second) paths(k, me + "." + c.first, out, all);
}

// one rejected creation per existing named entity: create a sibling of the same kind under the same name (must raise)
static long dup_probe_sources(const Source &s) {
    long n = 0;
    for (Source c : s.sources()) { n++; vf::guarded([&] { Source(s).createSource(c.name(), "x"); }); n += dup_probe_sources(c); }
    return n;
}
static long dup_probe_sections(const Section &s) {
    long n = 0;
    for (Section c : s.sections()) { n++; vf::guarded([&] { Section(s).createSection(c.name(), "x"); }); n += dup_probe_sections(c); }
    for (Property pr : s.properties()) { n++; vf::guarded([&] { Section(s).createProperty(pr.name(), Variant(1.0)); }); vf::guarded([&] { Section(s).createProperty(pr.name(), DataType::Double); }); }
    return n;
}
static long dup_probe(File &f) {
    long n = 0;
    for (Block b : f.blocks()) {
        n++; vf::guarded([&] { f.createBlock(b.name(), "x"); });
        std::vector<DataArray> das = b.dataArrays();
        for (DataArray a : das) { n++; vf::guarded([&] { b.createDataArray(a.name(), "x", DataType::Double, NDSize({1})); }); }
        for (DataFrame d : b.dataFrames()) { n++; vf::guarded([&] { b.createDataFrame(d.name(), "x", std::vector<Column>{{"k", "", DataType::Int32}}); }); }
        for (Tag t : b.tags()) { n++; vf::guarded([&] { b.createTag(t.name(), "x", {1.0}); }); }
        for (MultiTag t : b.multiTags()) { n++; vf::guarded([&] { b.createMultiTag(t.name(), "x", t.positions()); }); }
        for (Group g : b.groups()) { n++; vf::guarded([&] { b.createGroup(g.name(), "x"); }); }
        for (Source s : b.sources()) { n++; vf::guarded([&] { b.createSource(s.name(), "x"); }); n += dup_probe_sources(s); }
    }
    for (Section s : f.sections()) { n++; vf::guarded([&] { f.createSection(s.name(), "x"); }); n += dup_probe_sections(s); }
    return n;
}

static std::string helper_path;
static bool run_helper(const std::vector<std::string> &args, std::vector<std::string> &ids, std::string &err) {
    int fd[2];
    if (pipe(fd) != 0) return false;
    pid_t pid = fork();
    if (pid == 0) {
        dup2(fd[1], 1); close(fd[0]); close(fd[1]);
        std::vector<char *> av; av.push_back(const_cast<char *>("idhelper"));
        for (auto &a : args) av.push_back(const_cast<char *>(a.c_str()));
        av.push_back(nullptr);
        execv(helper_path.c_str(), av.data());
        _exit(127);
    }
    close(fd[1]);
    std::string out; char buf[4096]; ssize_t n;
    while ((n = read(fd[0], buf, sizeof buf)) > 0) out.append(buf, n);
    close(fd[0]);
    int st = 0; waitpid(pid, &st, 0);
    if (!WIFEXITED(st) || WEXITSTATUS(st) != 0) { err = "helper failed, status " + std::to_string(st); return false; }
    std::istringstream is(out); std::string l;
    while (std::getline(is, l)) if (!l.empty()) ids.push_back(l);
    return true;
}

int main(int argc, char **argv) {
    vf::init(argc, argv, "C12");
    const bool thorough = vf::opt.tier == "thorough";
    std::string self = argv[0];
    helper_path = self.substr(0, self.rfind('/') + 1) + "idhelper";
    long caseno_b = 1000000;   // schedule cases are numbered from here (BFS cases use the explorer's numbering)

    // ================= (a) histories =================
    ex::Explorer E;
    E.oopt.data = false; E.oopt.lookups = false;
    E.add_seed("E", nullptr);
    E.add_seed("R1", ops::build_seed_r1);
    E.add_seed("R3", ops::build_seed_r3);
    auto run_a = [&](const std::string &seedname, int level, int depth) {
        E.alpha = ops::entity_alphabet(level % 10);
        if (level >= 10) {
            // level 12: the sub-alphabet around names that look like ids (create twice, delete, create again)
            std::vector<ops::Op> sub;
            for (auto &o : E.alpha) if (o.name.find("uuid-shaped") != std::string::npos || o.name.find("deleteTag(t1") != std::string::npos || o.name.find("createTag(t1") != std::string::npos ||
                                        o.name.find("deleteGroup") != std::string::npos || o.name.find("createGroup(g1") != std::string::npos) sub.push_back(o);
            E.alpha = sub;
        }
        auto visit = [&](const ex::State &p, int op, ops::Session &se, const std::string &pre, bool &clean) -> std::string {
            // ids that ever existed in this trace: collected by replaying the parent history step by step would cost a
            // materialisation per step; instead the session at hand IS the replayed parent: take its ids, and those of the
            // seed and of every prefix are covered when those prefixes were the transitions under test.
            obs::Node before = obs::observe(se.file, E.oopt);
            std::map<std::string, std::string> pb; std::vector<std::string> allb;
            paths(before, "", pb, allb);
            std::string r = E.step(se, op, p.hist.size());
            if (r == "notenabled") { clean = true; return ""; }
            std::string opname = op == ex::REOPEN ? "REOPEN" : E.alpha[op].name;
            if (!r.empty()) return "";
            obs::Node after = obs::observe(se.file, E.oopt);
            std::map<std::string, std::string> pa; std::vector<std::string> alla;
            paths(after, "", pa, alla);
            std::vector<int> h = p.hist; h.push_back(op);
            std::string rargs = "--seed=" + seedname + " --level=" + std::to_string(level) + " --history=" + ex::Explorer::hist_arg(h);
            std::string ctx = ex::hist_str(E.alpha, p, op);
            std::set<std::string> seen, before_set(allb.begin(), allb.end());
            for (auto &kv : pa) {
                vf::count("ids_checked");
                std::string kind = kv.first.substr(kv.first.rfind('/') + 1); kind = kind.substr(0, kind.find(':'));
                if (!well_formed(kv.second)) vf::violation("C12|" + kind + " id|not a well-formed UUID", ctx + ": " + kv.first + " has id " + vf::jstr(kv.second), "REPLAY " + rargs);
                if (!seen.insert(kv.second).second) vf::violation("C12|" + opname + "|two entities share an id|" + kind, ctx + ": " + kv.first + " id " + kv.second, "REPLAY " + rargs);
                auto it = pb.find(kv.first);
                if (it != pb.end()) {
                    if (it->second != kv.second && !(kind == "File" && opname.find("forceId") != std::string::npos))
                        vf::violation("C12|" + opname + "|id of an existing entity changed|" + kind, ctx + ": " + kv.first + " " + it->second + " -> " + kv.second, "REPLAY " + rargs);
                } else if (before_set.count(kv.second)) {
                    vf::violation("C12|" + opname + "|new entity re-uses an id that existed before the step|" + kind, ctx + ": " + kv.first + " id " + kv.second, "REPLAY " + rargs);
                }
            }
            // a creation under a name that is taken is rejected - and must not re-identify the entity that holds the name
            {
                long n = dup_probe(se.file);
                vf::count("rejected_creations", n);
                obs::Node again = obs::observe(se.file, E.oopt);
                std::map<std::string, std::string> pc; std::vector<std::string> allc;
                paths(again, "", pc, allc);
                for (auto &kv : pa) {
                    auto it = pc.find(kv.first);
                    std::string kind = kv.first.substr(kv.first.rfind('/') + 1); kind = kind.substr(0, kind.find(':'));
                    if (it == pc.end()) vf::violation("C12|rejected creation under a taken name|entity disappeared|" + kind, ctx + ": " + kv.first, "REPLAY " + rargs);
                    else if (it->second != kv.second) vf::violation("C12|rejected creation under a taken name|id of an existing entity changed|" + kind, ctx + ": " + kv.first + " " + kv.second + " -> " + it->second, "REPLAY " + rargs);
                }
                after = again;
            }
            vf::count("traces");
            vf::distinct("outcomes", opname + "|" + std::to_string(pa.size() > pb.size() ? 1 : pa.size() < pb.size() ? -1 : 0));
            if (p.hist.size() == 1) vf::sample(vf::jstr(ctx + " : " + std::to_string(pa.size()) + " ids well-formed, distinct, stable"), 3);
            return obs::render(after);
        };
        if (vf::opt.extra.count("history")) {
            if (vf::opt.extra["seed"] != seedname) return;
            std::vector<int> h = ex::Explorer::parse_hist(vf::opt.extra["history"]);
            ex::State p; p.seed = seedname; p.hist.assign(h.begin(), h.end() - 1);
            ops::Session se; vf::take_case(0); vf::case_desc(ex::hist_str(E.alpha, p, h.back()));
            E.materialize(p, se); bool clean = false; visit(p, h.back(), se, "", clean);
            return;
        }
        E.bfs({seedname}, depth, true, visit);
    };
    if (vf::opt.extra.count("history")) { run_a(vf::opt.extra["seed"], atoi(vf::opt.extra["level"].c_str()), 0); return vf::finish(); }
    if (!vf::opt.extra.count("schedule")) {
        run_a("E", 1, thorough ? 4 : 3);
        run_a("R1", 2, 1);
        run_a("R3", 2, 1);      // two blocks: the alphabet's link attempts across blocks are enabled here
        run_a("R1", 12, 4);
    }

    // ================= (b) schedules =================
    // creation histories per process
    std::vector<std::string> hists;
    {
        const char letters[] = {'B', 'S', 'A', 'P', 'X', 'T', 'R', 'G'};
        int nl = thorough ? 8 : 5;
        for (int i = 0; i < nl; i++) hists.push_back(std::string(1, letters[i]));
        for (int i = 0; i < nl; i++) for (int j = 0; j < nl; j++) hists.push_back(std::string(1, letters[i]) + letters[j]);
        if (thorough) for (int i = 0; i < 5; i++) for (int j = 0; j < 5; j++) for (int k = 0; k < 5; k++) hists.push_back(std::string(1, letters[i]) + letters[j] + letters[k]);
    }
    const long T = 1700000000;
    struct Sched { int P; std::vector<long> clocks; std::string order; bool same_file; bool threads; bool grouping_locale; bool starved; };
    std::vector<Sched> scheds;
    for (bool same : {true, false}) {
        scheds.push_back({2, {T, T}, "AB", same, false});
        scheds.push_back({2, {T, T + 1}, "AB", same, false});
        scheds.push_back({2, {T + 1, T}, "AB", same, false});
        if (same) scheds.push_back({2, {T, T}, "ABA", same, false});
        scheds.push_back({3, {T, T, T}, "ABC", same, false});
        scheds.push_back({3, {T, T, T + 1}, "ABC", same, false});
        if (thorough) { scheds.push_back({3, {T, T + 1, T}, "ABC", same, false}); scheds.push_back({3, {T + 1, T, T}, "CAB", same, false}); }
    }
    scheds.push_back({2, {T, T}, "AB", true, true});     // two threads of ONE process, one after the other, same file
    scheds.push_back({2, {T, T + 1}, "AB", true, false, true});   // processes whose global C++ locale groups digits
    scheds.push_back({2, {T, T}, "ABA", true, false, true});
    // participants that open an EXISTING file (so their first id is drawn after the open) and have no file descriptor left by then
    scheds.push_back({2, {T, T}, "AB", false, false, false, true});
    scheds.push_back({2, {T, T}, "AB", true, false, false, true});
    scheds.push_back({3, {T, T, T}, "ABC", false, false, false, true});
    for (size_t si = 0; si < scheds.size(); si++) for (size_t ha = 0; ha < hists.size(); ha++) {
        long cid = caseno_b++;
        if (!vf::take_case(cid)) continue;
        const Sched &sc = scheds[si];
        std::string sdesc = std::string(sc.threads ? "threads" : sc.grouping_locale ? "processes with a digit-grouping global locale" : sc.starved ? "processes without a free file descriptor after the open" : "processes") + " P=" + std::to_string(sc.P) + " clocks=" + vf::jvec(sc.clocks) + " order=" + sc.order + (sc.same_file ? " same file" : " different files") + " hA=" + hists[ha];
        vf::case_desc(sdesc);
        // the other participants run every history (P=2) or the same history as A rotated (P=3, to bound the product)
        std::vector<std::string> others = sc.P == 2 ? hists : std::vector<std::string>{hists[ha], hists[(ha + 1) % hists.size()], hists[(ha * 7 + 3) % hists.size()]};
        for (const std::string &hb : others) {
            std::vector<std::string> hs = {hists[ha], hb, sc.P == 3 ? others[(&hb - &others[0] + 1) % others.size()] : std::string()};
            std::map<std::string, std::string> owner;   // id -> who created it
            std::vector<std::string> files = {vf::scratch_file("pa.h5"), sc.same_file ? vf::scratch_file("pa.h5") : vf::scratch_file("pb.h5"), sc.same_file ? vf::scratch_file("pa.h5") : vf::scratch_file("pc.h5")};
            std::set<std::string> created;
            bool ok = true; int step = 0;
            std::string collision;
            if (sc.threads) {
                std::vector<std::string> ids; std::string err;
                ok = run_helper({files[0], "create", "t", std::to_string(sc.clocks[0]), "1", hs[0] + hs[1]}, ids, err);
                if (!ok) { vf::violation("C12|schedule|helper failed", sdesc + " " + err); continue; }
                for (auto &id : ids) { if (!well_formed(id)) collision += "malformed:" + id + " "; if (!owner.emplace(id, "thread").second) collision += id + " "; }
            } else {
              if (sc.starved) for (int pi = 0; pi < sc.P && ok; pi++) if (created.insert(files[pi]).second) {
                  std::vector<std::string> ids; std::string err;
                  ok = run_helper({files[pi], "create", "setup" + std::to_string(pi), std::to_string(T - 100 - pi), "0", ""}, ids, err);
                  for (auto &id : ids) owner.emplace(id, "setup");
                  if (!ok) vf::violation("C12|schedule|helper failed", sdesc + " (setup) " + err);
              }
              if (ok) for (char who : sc.order) {
                int pi = who - 'A';
                std::vector<std::string> ids; std::string err;
                bool create = created.insert(files[pi]).second;
                ok = run_helper({files[pi], create ? "create" : "open", std::string(1, (char)('a' + pi)) + std::to_string(step), std::to_string(sc.clocks[pi]), sc.starved ? "3" : sc.grouping_locale ? "2" : "0", hs[pi]}, ids, err);
                step++;
                if (!ok) { vf::violation("C12|schedule|helper failed", sdesc + " hB=" + hb + " " + err); break; }
                for (auto &id : ids) {
                    vf::count("ids_checked");
                    if (!well_formed(id)) collision += "malformed:" + id + " ";
                    auto ins = owner.emplace(id, std::string(1, who) + "#" + std::to_string(step));
                    if (!ins.second) collision += id + " (" + ins.first->second + " and " + who + "#" + std::to_string(step) + ") ";
                }
              }
            }
            vf::count("schedules");
            vf::distinct("schedule_kinds", std::to_string(si) + "|" + std::to_string(hs[0].size()) + std::to_string(hs[1].size()));
            if (!collision.empty())
                vf::violation(std::string("C12|") + (sc.threads ? "threads of one process" : sc.grouping_locale ? "separate processes, digit-grouping global locale" : sc.starved ? "separate processes, no free file descriptor when the first id is drawn" : "separate processes") + "|" + (sc.same_file ? "same file" : "different files") + "|" +
                              (sc.clocks[0] == sc.clocks[1] ? "same clock value" : "different clock values") + "|ids collide",
                              sdesc + " hB=" + hb + ": " + collision.substr(0, 300));
        }
        if (cid % 37 == 0) vf::sample("{\"schedule\":" + vf::jstr(sdesc) + "}", 5);
        if (vf::deadline_hit()) break;
    }
    // ---- worker pools: one process with the library loaded forks P workers WITHOUT exec (the generator state, if any, is
    //      inherited); parent "cold" (never called the library) or "warm" (created a file before forking); same/different files
    {
        std::vector<std::string> wh(hists.begin(), hists.begin() + std::min<size_t>(hists.size(), thorough ? 72 : 30));
        for (int warm = 0; warm < 2; warm++) for (int same = 0; same < 2; same++) for (int P = 2; P <= 3; P++) for (size_t ha = 0; ha < wh.size(); ha++) {
            long cid = caseno_b++;
            if (!vf::take_case(cid)) continue;
            std::string sdesc = std::string("forked workers (no exec) P=") + std::to_string(P) + (warm ? " parent created ids before forking" : " parent never called the library") + (same ? " same file" : " different files") + " hA=" + wh[ha];
            vf::case_desc(sdesc);
            std::vector<std::string> others = P == 2 ? wh : std::vector<std::string>{wh[ha], wh[(ha + 1) % wh.size()], wh[(ha * 7 + 3) % wh.size()]};
            for (size_t oi = 0; oi < others.size(); oi++) {
                std::string hl = wh[ha] + "," + others[oi] + (P == 3 ? "," + others[(oi + 1) % others.size()] : "");
                std::vector<std::string> ids; std::string err;
                bool ok = run_helper({vf::scratch_file("pool.h5"), warm ? "forkwarm" : "forkcold", "w", std::to_string(T), same ? "1" : "0", hl}, ids, err);
                if (!ok) { vf::violation("C12|schedule|helper failed", sdesc + " " + hl + " " + err); break; }
                std::set<std::string> seen; std::string collision;
                for (auto &id : ids) { vf::count("ids_checked"); if (!well_formed(id)) collision += "malformed:" + id + " "; if (!seen.insert(id).second) collision += id + " "; }
                vf::count("schedules");
                vf::distinct("schedule_kinds", std::string("pool|") + std::to_string(warm) + std::to_string(same) + std::to_string(P) + "|" + std::to_string(wh[ha].size()) + std::to_string(others[oi].size()));
                if (!collision.empty())
                    vf::violation(std::string("C12|forked worker processes|") + (same ? "same file" : "different files") + "|" + (warm ? "parent created ids before forking" : "parent never called the library") + "|ids collide",
                                  sdesc + " histories " + hl + ": " + collision.substr(0, 300));
            }
            if (cid % 41 == 0) vf::sample("{\"schedule\":" + vf::jstr(sdesc) + "}", 5);
            if (vf::deadline_hit()) break;
        }
    }
    // ---- a large population of ids of ONE process: 400 000 ids drawn through util::createId() and through entity creation must be
    //      pairwise distinct and well-formed.  This is not exhaustive enumeration but a population bound: with 122 random bits a
    //      repetition among 4e5 ids has probability below 1e-25; a generator whose ids are a function of a 32-bit (or smaller) seed
    //      repeats with probability above 0.9999 (birthday bound).
    {
        long cid = caseno_b++;
        if (vf::take_case(cid)) {
            vf::case_desc("population of 400 000 ids drawn in one process");
            const size_t NPOP = 400000;
            std::vector<std::string> ids; ids.reserve(NPOP + 600);
            vf::set_clock(T);
            { File f = File::open(vf::scratch_file("pop.h5"), FileMode::Overwrite); ids.push_back(f.id());
              Block b = f.createBlock("b", "t"); ids.push_back(b.id());
              for (int i = 0; i < 500; i++) ids.push_back(b.createDataArray("a" + std::to_string(i), "t", DataType::Double, NDSize({1})).id());
              f.close(); }
            for (size_t i = ids.size(); i < NPOP; i++) ids.push_back(util::createId());
            size_t malformed = 0;
            for (auto &id : ids) if (!well_formed(id)) malformed++;
            std::sort(ids.begin(), ids.end());
            size_t dup = 0; std::string ex;
            for (size_t i = 0; i + 1 < ids.size(); i++) if (ids[i] == ids[i + 1]) { if (!dup) ex = ids[i]; dup++; }
            vf::count("ids_checked", (long)ids.size());
            vf::count("population_ids", (long)ids.size());
            vf::distinct("outcomes", std::string("population|") + (dup ? "repetitions" : "all distinct"));
            if (malformed) vf::violation("C12|population of ids of one process|malformed ids", std::to_string(malformed) + " of " + std::to_string(ids.size()));
            if (dup) vf::violation("C12|population of ids of one process|ids collide", std::to_string(dup) + " repetitions among " + std::to_string(ids.size()) + " ids, e.g. " + ex);
        }
    }
    // ---- ids across open modes and the Force flag: "an id never changes" also when the file is opened with Force although
    //      its format version differs from the library's (every triple of a small cube around it), ReadOnly and ReadWrite;
    //      the ids are read in the forced session, in a following plain ReadOnly+Force session and by the raw attribute
    {
        long cid = caseno_b++;
        if (vf::take_case(cid)) {
            vf::case_desc("ids of a rich file across forced opens under other stored format versions");
            const std::string p = vf::scratch_file("forced.h5");
            vf::set_clock(T);
            std::map<std::string, std::string> want; std::vector<std::string> all; std::vector<int> L;
            { File f = File::open(p, FileMode::Overwrite); ops::build_seed_r1(f); L = f.version(); paths(obs::observe(f, E.oopt), "", want, all); f.close(); }
            auto plant = [&](const std::vector<int> &v) {
                hid_t h = H5Fopen(p.c_str(), H5F_ACC_RDWR, H5P_DEFAULT); if (h < 0) return false;
                hid_t a = H5Aopen_by_name(h, "/", "version", H5P_DEFAULT, H5P_DEFAULT); bool ok = a >= 0;
                if (ok) { int buf[3] = {v[0], v[1], v[2]}; ok = H5Awrite(a, H5T_NATIVE_INT, buf) >= 0; H5Aclose(a); }
                H5Fclose(h); return ok; };
            for (int dx = 0; dx <= 1; dx++) for (int dy = -1; dy <= 1; dy++) for (int dz = 0; dz <= 1; dz++) for (FileMode m : {FileMode::ReadOnly, FileMode::ReadWrite}) {
                std::vector<int> v = {L[0] + dx, L[1] + dy, L[2] + dz};
                if (!plant(v)) { vf::violation("C12|harness|cannot plant the version triple", ""); continue; }
                std::string vs = std::to_string(v[0]) + "." + std::to_string(v[1]) + "." + std::to_string(v[2]);
                for (int pass = 0; pass < 2; pass++) {   // pass 0: the forced session in mode m; pass 1: a ReadOnly+Force session afterwards
                    std::map<std::string, std::string> got; std::vector<std::string> ga; std::string what;
                    std::string exc = vf::guarded([&] { File f = File::open(p, pass ? FileMode::ReadOnly : m, "hdf5", Compression::Auto, OpenFlags::Force); paths(obs::observe(f, E.oopt), "", got, ga); f.close(); }, &what);
                    vf::count("forced_sessions");
                    vf::distinct("outcomes", std::string("forced|") + (m == FileMode::ReadOnly ? "RO" : "RW") + (v == L ? "|same version|" : "|other version|") + (exc.empty() ? "ok" : exc));
                    if (!exc.empty()) continue;   // whether a forced open succeeds is C10's matter
                    std::string changed;
                    for (auto &kv : want) { auto it = got.find(kv.first); if (it != got.end() && it->second != kv.second) changed += kv.first + " "; }
                    if (!changed.empty())
                        vf::violation(std::string("C12|forced ") + (m == FileMode::ReadOnly ? "ReadOnly" : "ReadWrite") + " open of a file with " + (v == L ? "the library's" : "another") + " format version|" + (pass ? "following session" : "same session") + "|id changed|" + (changed.compare(0, 6, "/File:") == 0 && changed.find(' ') == changed.size() - 1 ? "file id" : "entity id"),
                                      "stored version " + vs + ": " + changed.substr(0, 200));
                }
            }
        }
    }
    return vf::finish();
}
