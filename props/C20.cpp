// C20 — tree searches and back-reference queries equal a brute-force traversal; inherited properties.
//
// Exhaustive input enumeration (E2) on real files:
//  (1) SEARCH.  Every ordered forest with <= n nodes (n = 6 quick / 8 thorough; <= 5 levels, <= 4 children per node and
//      <= 4 roots) is built once as a section tree (roots in the File) and once as a source tree (roots in a Block).
//      Names are assigned per sibling position from a non-sorted pool (so the same name occurs under different parents and
//      a name filter matches 0, 1 or several nodes), one node carries a unique name, types cycle through three values.
//      For every start (File / Block and every node) x every filter (accept-all in all call forms, util::IdFilter for every
//      node and an absent id, util::NameFilter / util::TypeFilter for every occurring value and an absent one,
//      util::IdsFilter for every pair of nodes and a pair with an absent id) x every depth limit 0 .. levels+1 and the
//      default, the result is compared with ref_bfs(), a plain queue-based traversal of the harness' own model of the tree:
//      equal as sets with every entity exactly once; for a search started at one Section / Source additionally the same
//      sequence (breadth first, siblings in creation order).
//      Then (forests with <= 5 quick / 7 thorough nodes; the largest size gets the query grid only) the tree is modified —
//      a child is created under every node / at top level and deleted again; every node is deleted (with its subtree) from
//      a fresh copy of the tree — and a reduced set of queries (accept-all, one name, one type; all depths, all starts) is
//      run through the handles obtained BEFORE the modification and through handles navigated afresh; both must equal
//      the traversal of the modified model (a cache in a handle would show here).
//  (2) BACK REFERENCES.  For every forest with <= 3 (thorough: <= 4) nodes: every assignment of <= k metadata links
//      (k = 2 quick; thorough: 3 on forests with <= 3 nodes, 2 on forests with 4 nodes) from
//      the holders {2 blocks, 3 data arrays, 2 tags, 1 multi-tag, 3 sources (one nested)} to section nodes, and every set
//      of <= k source links from {2 data arrays, tag, multi-tag} to source nodes.  Section::referringBlocks /
//      referringDataArrays / referringTags / referringMultiTags / referringSources (without and with a Block argument),
//      Source::referringDataArrays / referringTags / referringMultiTags and Source::parentSource are compared with the
//      inverse of the model's link relation for every node, before and — on a byte copy of the file — after deleting each
//      node (the model drops the subtree and the links into it).
//  (3) INHERITED PROPERTIES.  Every pair (own, linked) of subsets of {p,q,r} on a section S and its link target T, for
//      three placements of T (sibling root / child / parent), with and without T itself linking to a third section, two
//      creation orders; inheritedProperties() must be S's own properties followed by T's properties whose name S does not
//      have; re-checked after deleting each own property, each linked property, and after removing the link.
//
// ORIGIN CONVENTION OF THE DEPTH LIMIT (not part of the statement; fixed as the unit tests pin it — testFindSection:
// 13 / 9 (d=2) / 3 (d=1); testFindSource: 15 / 10 (d=2) / 4 (d=1) / 1 (d=0) — and as probed on chains r1 > r2 > r3; the
// probe is case 0 of this harness, the two unit-test fixtures are case 1):
//      entry point                  | who is level 0 / 1                                  | chain of 3, limit 0,1,2,3,dflt
//      File::findSections(f, d)     | roots are level 1 (d = 0 returns nothing)           | 0,1,2,3,3
//      Section::findSections(f, d)  | start excluded, its children are level 1            | 0,1,2,2,2
//      Block::findSources(f, d)     | roots are level 0 (d = 0 returns the roots)         | 1,2,3,3,3
//      Source::findSources(f, d)    | start is level 0 and is part of the result          | 1,2,3,3,3
// A limit d returns the nodes of level <= d.  The check is that every larger shape is consistent with that convention.
// Results of File:: / Block:: searches are a concatenation of per-root searches (not one global breadth-first list), so
// for them only the set is asserted, as the statement says.
#include <nix.hpp>
#include <nix/util/filter.hpp>
#include <algorithm>
#include <deque>
#include <fstream>
#include "vf.hpp"

using namespace nix;

static const char *ABSENT_ID = "00000000-0000-4000-8000-000000000000";

// ------------------------------------------------------------------------------------------------ shapes
struct Shape {
    std::vector<int> parent, level; // preorder numbering; parent -1 = root; level 0 = root
    int levels;
};

static std::string shape_str(const std::vector<int> &level) { // bracket notation, e.g. (()())()
    std::string o; int open = 0;
    for (size_t i = 0; i < level.size(); i++) {
        while (open > level[i]) { o += ")"; open--; }
        o += "("; open++;
    }
    while (open-- > 0) o += ")";
    return o;
}

static void gen_levels(size_t k, std::vector<int> &lv, int maxlev, int maxbr, std::vector<Shape> &out) {
    if (lv.size() == k) {
        Shape s; s.level = lv; s.parent.assign(k, -1); s.levels = 0;
        std::vector<int> nkids(k, 0); int nroots = 0;
        for (size_t i = 0; i < k; i++) {
            s.levels = std::max(s.levels, lv[i] + 1);
            if (lv[i] == 0) { nroots++; continue; }
            for (size_t j = i; j-- > 0;) if (lv[j] == lv[i] - 1) { s.parent[i] = (int)j; break; }
            nkids[s.parent[i]]++;
        }
        if (nroots > maxbr) return;
        for (int c : nkids) if (c > maxbr) return;
        out.push_back(s);
        return;
    }
    int hi = lv.empty() ? 0 : std::min(lv.back() + 1, maxlev - 1);
    for (int l = 0; l <= hi; l++) { lv.push_back(l); gen_levels(k, lv, maxlev, maxbr, out); lv.pop_back(); }
}

static std::vector<Shape> all_shapes(size_t nmax, int maxlev = 5, int maxbr = 4) {
    std::vector<Shape> out;
    for (size_t k = 1; k <= nmax; k++) { std::vector<int> lv; gen_levels(k, lv, maxlev, maxbr, out); }
    return out;
}

// ------------------------------------------------------------------------------------------------ model
struct Model {
    std::vector<int> parent, level;
    std::vector<std::string> name, type, id;
    std::vector<std::vector<int>> kids; // creation order
    std::vector<int> roots;             // creation order
    std::vector<char> alive;
    std::map<std::string, int> byid;

    size_t size() const { return parent.size(); }
    int add(int par, const std::string &n, const std::string &t, const std::string &i) {
        int v = (int)parent.size();
        parent.push_back(par); level.push_back(par < 0 ? 0 : level[par] + 1);
        name.push_back(n); type.push_back(t); id.push_back(i); kids.push_back(std::vector<int>()); alive.push_back(1);
        if (par < 0) roots.push_back(v); else kids[par].push_back(v);
        byid[i] = v;
        return v;
    }
    void kill(int v) { // the subtree below v, not the entry in the parent's list
        alive[v] = 0;
        for (int c : kids[v]) kill(c);
        kids[v].clear();
    }
    void remove(int v) {
        std::vector<int> &sib = parent[v] < 0 ? roots : kids[parent[v]];
        sib.erase(std::find(sib.begin(), sib.end(), v));
        kill(v);
    }
    int levels() const { int l = 0; for (size_t v = 0; v < size(); v++) if (alive[v]) l = std::max(l, level[v] + 1); return l; }
    bool in_subtree(int v, int top) const { for (; v >= 0; v = parent[v]) if (v == top) return true; return false; }
    std::string str() const { // bracket notation of the living nodes with their numbers
        std::string o;
        std::function<void(int)> rec = [&](int v) { o += "(" + std::to_string(v); for (int c : kids[v]) rec(c); o += ")"; };
        for (int r : roots) rec(r);
        return o;
    }
};

// The oracle: plain queue-based breadth-first traversal of the model.
//   start < 0: the container (File / Block), its roots have level `cont_root_level`;
//   start >= 0: one node; `start_included` ? the start is level 0 : its children are level 1.
//   lim < 0: unlimited.  Returns the nodes of level <= lim in breadth-first order.
static std::vector<int> ref_bfs(const Model &m, int start, long lim, int cont_root_level, bool start_included,
                                std::vector<long> *levels_out = nullptr) {
    std::deque<std::pair<int, long>> q;
    std::vector<int> out;
    if (start < 0) { for (int r : m.roots) q.push_back(std::make_pair(r, (long)cont_root_level)); }
    else if (start_included) q.push_back(std::make_pair(start, 0L));
    else { for (int c : m.kids[start]) q.push_back(std::make_pair(c, 1L)); }
    while (!q.empty()) {
        std::pair<int, long> cur = q.front(); q.pop_front();
        if (lim >= 0 && cur.second > lim) continue;
        out.push_back(cur.first);
        if (levels_out) levels_out->push_back(cur.second);
        for (int c : m.kids[cur.first]) q.push_back(std::make_pair(c, cur.second + 1));
    }
    return out;
}

// ------------------------------------------------------------------------------------------------ the two kinds of tree
struct SecK {
    typedef Section Node; typedef File Cont; typedef util::Filter<Section>::type FilterT;
    static const char *kind() { return "section"; }
    static const char *cont_find() { return "File::findSections"; }
    static const char *node_find() { return "Section::findSections"; }
    static int cont_root_level() { return 1; }     // File::findSections: roots are level 1
    static bool start_included() { return false; } // Section::findSections: start excluded, children are level 1
    static bool depth_only_overload() { return true; } // File::findSections(size_t)
    static Cont make_cont(File &f) { return f; }
    static Cont get_cont(File &f) { return f; }
    static Node create(Cont &c, const std::string &n, const std::string &t) { return c.createSection(n, t); }
    static Node create(Node &p, const std::string &n, const std::string &t) { return p.createSection(n, t); }
    static std::vector<Node> find(const Cont &c, const FilterT &f, size_t d) { return c.findSections(f, d); }
    static std::vector<Node> find(const Cont &c, const FilterT &f) { return c.findSections(f); }
    static std::vector<Node> find_dflt(const Cont &c) { return c.findSections(); }
    static std::vector<Node> find_dflt(const Cont &c, size_t d) { return c.findSections(d); }
    static std::vector<Node> find(const Node &c, const FilterT &f, size_t d) { return c.findSections(f, d); }
    static std::vector<Node> find(const Node &c, const FilterT &f) { return c.findSections(f); }
    static std::vector<Node> find_dflt(const Node &c) { return c.findSections(); }
    static bool del(Cont &c, const Node &n) { return c.deleteSection(n); }
    static bool del(Node &p, const Node &n) { return p.deleteSection(n); }
    static Node get(const Cont &c, const std::string &n) { return c.getSection(n); }
    static Node get(const Node &p, const std::string &n) { return p.getSection(n); }
};

struct SrcK {
    typedef Source Node; typedef Block Cont; typedef util::Filter<Source>::type FilterT;
    static const char *kind() { return "source"; }
    static const char *cont_find() { return "Block::findSources"; }
    static const char *node_find() { return "Source::findSources"; }
    static int cont_root_level() { return 0; }    // Block::findSources: roots are level 0
    static bool start_included() { return true; } // Source::findSources: the start is level 0 and part of the result
    static bool depth_only_overload() { return false; }
    static Cont make_cont(File &f) {
        // a decoy block with equally named sources: nothing of it may ever show up in a result
        Block o = f.createBlock("other", "t"); Source s = o.createSource("m", "ta"); s.createSource("m", "tb"); o.createSource("uniq", "ta");
        return f.createBlock("blk", "t");
    }
    static Cont get_cont(File &f) { return f.getBlock("blk"); }
    static Node create(Cont &c, const std::string &n, const std::string &t) { return c.createSource(n, t); }
    static Node create(Node &p, const std::string &n, const std::string &t) { return p.createSource(n, t); }
    static std::vector<Node> find(const Cont &c, const FilterT &f, size_t d) { return c.findSources(f, d); }
    static std::vector<Node> find(const Cont &c, const FilterT &f) { return c.findSources(f); }
    static std::vector<Node> find_dflt(const Cont &c) { return c.findSources(); }
    static std::vector<Node> find_dflt(const Cont &c, size_t d) { return c.findSources(util::AcceptAll<Source>(), d); }
    static std::vector<Node> find(const Node &c, const FilterT &f, size_t d) { return c.findSources(f, d); }
    static std::vector<Node> find(const Node &c, const FilterT &f) { return c.findSources(f); }
    static std::vector<Node> find_dflt(const Node &c) { return c.findSources(); }
    static bool del(Cont &c, const Node &n) { return c.deleteSource(n); }
    static bool del(Node &p, const Node &n) { return p.deleteSource(n); }
    static Node get(const Cont &c, const std::string &n) { return c.getSource(n); }
    static Node get(const Node &p, const std::string &n) { return p.getSource(n); }
};

template <class K> struct Handles {
    typename K::Cont cont;
    std::vector<typename K::Node> node;
};

static const char *SIBNAME[] = {"m", "c", "x", "a", "k", "b"}; // deliberately not sorted: creation order != name order
static const char *TYPES[] = {"ta", "tb", "tc"};

// names / types of the nodes of a shape
static void shape_labels(const Shape &sh, std::vector<std::string> &names, std::vector<std::string> &types) {
    size_t n = sh.parent.size();
    std::map<int, int> nk; // parent -> children so far
    names.resize(n); types.resize(n);
    for (size_t i = 0; i < n; i++) {
        int si = nk[sh.parent[i]]++;
        names[i] = SIBNAME[si];
        types[i] = TYPES[(sh.level[i] + si) % 3];
    }
    names[n - 1] = "uniq"; // exactly one node matches this name
}

template <class K> struct Built {
    File f;
    Model m;
    Handles<K> h; // the handles returned by the create calls
};

template <class K> static void build(const std::string &path, const Shape &sh, Built<K> &b) {
    b.f = File::open(path, FileMode::Overwrite);
    b.h.cont = K::make_cont(b.f);
    std::vector<std::string> names, types;
    shape_labels(sh, names, types);
    for (size_t i = 0; i < sh.parent.size(); i++) {
        typename K::Node nd = sh.parent[i] < 0 ? K::create(b.h.cont, names[i], types[i]) : K::create(b.h.node[sh.parent[i]], names[i], types[i]);
        b.h.node.push_back(nd);
        b.m.add(sh.parent[i], names[i], types[i], nd.id());
    }
}

// fresh handles: navigated by name from the file
template <class K> static Handles<K> navigate(File &f, const Model &m) {
    Handles<K> h;
    h.cont = K::get_cont(f);
    h.node.resize(m.size());
    for (size_t v = 0; v < m.size(); v++) {
        if (!m.alive[v]) continue;
        h.node[v] = m.parent[v] < 0 ? K::get(h.cont, m.name[v]) : K::get(h.node[m.parent[v]], m.name[v]);
    }
    return h;
}

// ------------------------------------------------------------------------------------------------ filters
template <class K> struct FSpec {
    std::string kind, desc;
    std::function<bool(const Model &, int)> pred;
    typename K::FilterT lib;
    bool accept_all;
};

// Filters are PREPARED: built from a string that lives on but is overwritten right after the filter object was made (a filter
// owns its key; a program may reuse the variable it built the filter from).
static std::deque<std::string> g_key_scratch;
static std::deque<std::vector<std::string>> g_keys_scratch;
static const std::string &scratch_key(const std::string &k) { g_key_scratch.push_back(k); if (g_key_scratch.size() > 4096) g_key_scratch.pop_front(); return g_key_scratch.back(); }
static void spoil_key() { std::string &k = g_key_scratch.back(); for (char &c : k) c = '#'; k += "-spoiled"; }

template <class K> static std::vector<FSpec<K>> make_filters(const Model &m, bool full) {
    typedef typename K::Node N;
    std::vector<FSpec<K>> fs;
    { FSpec<K> f; f.kind = "AcceptAll"; f.desc = "AcceptAll"; f.accept_all = true; f.pred = [](const Model &, int) { return true; }; f.lib = util::AcceptAll<N>(); fs.push_back(f); }
    auto by_name = [&](const std::string &n) { FSpec<K> f; f.kind = "NameFilter"; f.desc = "NameFilter(" + n + ")"; f.accept_all = false;
        f.pred = [n](const Model &mm, int v) { return mm.name[v] == n; }; f.lib = util::NameFilter<N>(scratch_key(n)); spoil_key(); fs.push_back(f); };
    auto by_type = [&](const std::string &t) { FSpec<K> f; f.kind = "TypeFilter"; f.desc = "TypeFilter(" + t + ")"; f.accept_all = false;
        f.pred = [t](const Model &mm, int v) { return mm.type[v] == t; }; f.lib = util::TypeFilter<N>(scratch_key(t)); spoil_key(); fs.push_back(f); };
    auto by_id = [&](const std::string &i, const std::string &d) { FSpec<K> f; f.kind = "IdFilter"; f.desc = "IdFilter(" + d + ")"; f.accept_all = false;
        f.pred = [i](const Model &mm, int v) { return mm.id[v] == i; }; f.lib = util::IdFilter<N>(scratch_key(i)); spoil_key(); fs.push_back(f); };
    auto by_ids = [&](const std::string &i, const std::string &j, const std::string &d) { FSpec<K> f; f.kind = "IdsFilter"; f.desc = "IdsFilter(" + d + ")"; f.accept_all = false;
        f.pred = [i, j](const Model &mm, int v) { return mm.id[v] == i || mm.id[v] == j; }; g_keys_scratch.push_back(std::vector<std::string>{i, j}); if (g_keys_scratch.size() > 1024) g_keys_scratch.pop_front();
        f.lib = util::IdsFilter<N>(g_keys_scratch.back()); for (auto &k : g_keys_scratch.back()) k = "spoiled"; fs.push_back(f); };
    if (!full) { // reduced set for the modification phases ("tb" is the type of the node that gets created)
        by_name("m"); by_type("tb");
        return fs;
    }
    for (size_t v = 0; v < m.size(); v++) by_id(m.id[v], "node " + std::to_string(v));
    by_id(ABSENT_ID, "absent");
    std::set<std::string> names(m.name.begin(), m.name.end()), types(m.type.begin(), m.type.end());
    for (const std::string &n : names) by_name(n);
    by_name("zz");
    for (const std::string &t : types) by_type(t);
    by_type("none");
    for (size_t u = 0; u < m.size(); u++) for (size_t v = u + 1; v < m.size(); v++) by_ids(m.id[u], m.id[v], "nodes " + std::to_string(u) + "," + std::to_string(v));
    by_ids(m.id[0], ABSENT_ID, "node 0,absent");
    return fs;
}

// ------------------------------------------------------------------------------------------------ one query
static std::string ivec(const std::vector<int> &v) {
    std::string o = "[";
    for (size_t i = 0; i < v.size(); i++) { if (i) o += ","; o += v[i] == -2 ? std::string("?") : std::to_string(v[i]); }
    return o + "]";
}

template <class K>
static std::vector<typename K::Node> call_find(const Handles<K> &h, int start, const FSpec<K> &fs, long lim, int form) {
    if (start < 0) {
        if (form == 1) return lim < 0 ? K::find_dflt(h.cont) : K::find_dflt(h.cont, (size_t)lim);
        return lim < 0 ? K::find(h.cont, fs.lib) : K::find(h.cont, fs.lib, (size_t)lim);
    }
    if (form == 1) return K::find_dflt(h.node[start]);
    return lim < 0 ? K::find(h.node[start], fs.lib) : K::find(h.node[start], fs.lib, (size_t)lim);
}

template <class K>
static void check_find(const std::string &phase, const char *hk, const Model &m, const Handles<K> &h, int start,
                       const FSpec<K> &fs, long lim, int form, bool verify_entities) {
    // ---- expected
    std::vector<long> lv;
    std::vector<int> reach = ref_bfs(m, start, lim, K::cont_root_level(), K::start_included(), &lv);
    std::vector<int> want;
    for (int v : reach) if (fs.pred(m, v)) want.push_back(v);
    long deepest = 0; // deepest level (in the units of this entry point) that exists below the start
    { std::vector<long> all; ref_bfs(m, start, -1, K::cont_root_level(), K::start_included(), &all); for (long l : all) deepest = std::max(deepest, l); }
    const char *dclass = lim < 0 ? "default" : lim == 0 ? "d=0" : lim < deepest ? "d<deepest" : lim == deepest ? "d=deepest" : "d>deepest";
    const std::string entry = start < 0 ? K::cont_find() : K::node_find();
    // ---- the call
    std::vector<typename K::Node> got;
    std::string ewhat;
    std::string exc = vf::guarded([&] { got = call_find<K>(h, start, fs, lim, form); }, &ewhat);
    vf::count("queries");
    std::vector<int> gi;
    bool bad_entity = false;
    if (exc.empty()) {
        for (auto &e : got) {
            std::string id;
            std::string x = vf::guarded([&] { id = e.id(); });
            auto it = x.empty() ? m.byid.find(id) : m.byid.end();
            gi.push_back(it == m.byid.end() ? -2 : it->second);
            if (verify_entities && it != m.byid.end()) {
                std::string nm, ty;
                std::string y = vf::guarded([&] { nm = e.name(); ty = e.type(); });
                if (!y.empty() || nm != m.name[it->second] || ty != m.type[it->second]) bad_entity = true;
            }
        }
    }
    // ---- compare
    std::string dev;
    if (!exc.empty()) dev = exc;
    else {
        std::vector<int> gs = gi, ws = want;
        std::sort(gs.begin(), gs.end()); std::sort(ws.begin(), ws.end());
        if (std::find(gs.begin(), gs.end(), -2) != gs.end()) dev = "entity that is not a node of the tree";
        else if (std::adjacent_find(gs.begin(), gs.end()) != gs.end()) dev = "entity listed more than once";
        else if (gs != ws) {
            std::vector<int> missing, extra;
            std::set_difference(ws.begin(), ws.end(), gs.begin(), gs.end(), std::back_inserter(missing));
            std::set_difference(gs.begin(), gs.end(), ws.begin(), ws.end(), std::back_inserter(extra));
            if (!missing.empty()) dev = "missing entities";
            if (!extra.empty()) {
                bool rejected = false, outside = false, deeper = false;
                for (int v : extra) {
                    if (!m.alive[v]) { outside = true; continue; }
                    if (!fs.pred(m, v)) rejected = true;
                    else if (start >= 0 && (!m.in_subtree(v, start) || (v == start && !K::start_included()))) outside = true;
                    else deeper = true;
                }
                dev += std::string(dev.empty() ? "" : " and ") + "extra entities (" + (rejected ? "rejected by the filter" : outside ? "outside the subtree" : deeper ? "beyond the depth limit" : "?") + ")";
            }
        } else if (start >= 0 && gi != want) {
            // same set; the order must be breadth first
            std::map<int, long> lvl; for (size_t i = 0; i < reach.size(); i++) lvl[reach[i]] = lv[i];
            bool by_level = true;
            for (size_t i = 0; i + 1 < gi.size(); i++) if (lvl[gi[i]] > lvl[gi[i + 1]]) by_level = false;
            dev = by_level ? "order: levels ascend but nodes within a level are permuted" : "order: not breadth first (a deeper node precedes a shallower one)";
        } else if (bad_entity) dev = "returned entity has wrong name/type";
    }
    const char *sz = want.empty() ? "0" : want.size() == 1 ? "1" : "n";
    vf::distinct("outcomes", std::string(K::kind()) + "|" + entry + "|" + fs.kind + (form ? "/default-arg" : "") + "|" + dclass + "|" + sz +
                                 (want.size() < reach.size() ? "|filtered" : "|all") + "|" + phase + "|" + (dev.empty() ? "ok" : dev));
    if (!dev.empty()) {
        // signature: entry point, limited / default depth, deviation class; the filter, the exact depth class, the phase
        // (unmodified / after create / after delete) and the kind of handle are in the instance text
        vf::violation("C20|" + entry + "|" + (lim < 0 ? "default depth" : "depth limit") + "|" + dev,
                      std::string(K::kind()) + " tree " + m.str() + " start=" + (start < 0 ? std::string("container") : "node " + std::to_string(start)) +
                          " filter=" + fs.desc + (form ? " (default argument form)" : "") + " max_depth=" + (lim < 0 ? std::string("default") : std::to_string(lim)) +
                          " (" + dclass + ") phase=" + phase + " handles=" + hk + ": got " + (exc.empty() ? ivec(gi) : exc + " " + ewhat) + " expected " + ivec(want),
                      "names=" + vf::jvecs(m.name) + " types=" + vf::jvecs(m.type));
    }
}

template <class K>
static void sweep(const std::string &phase, const char *hk, const Model &m, const Handles<K> &h, const std::vector<FSpec<K>> &filters, int only_start = -2) {
    const int L = m.levels();
    for (int start = -1; start < (int)m.size(); start++) {
        if (start >= 0 && !m.alive[start]) continue;
        if (only_start != -2 && start != only_start) continue;
        for (const FSpec<K> &fs : filters) {
            for (long lim = -1; lim <= L + 1; lim++) {
                check_find<K>(phase, hk, m, h, start, fs, lim, 0, fs.accept_all && lim < 0);
                if (fs.accept_all && (lim < 0 || (start < 0 && K::depth_only_overload())))
                    check_find<K>(phase, hk, m, h, start, fs, lim, 1, false);
            }
        }
    }
}

static void check_parent_sources(const std::string &phase, const char *hk, const Model &m, const Handles<SrcK> &h) {
    for (size_t v = 0; v < m.size(); v++) {
        if (!m.alive[v]) continue;
        std::string got, ewhat;
        std::string exc = vf::guarded([&] { Source p = h.node[v].parentSource(); got = p ? p.id() : std::string(); }, &ewhat);
        std::string want = m.parent[v] < 0 ? std::string() : m.id[m.parent[v]];
        vf::count("backref_queries");
        std::string dev = !exc.empty() ? exc : got == want ? "" : want.empty() ? "a source instead of none for a root" : got.empty() ? "none instead of the parent" : "a source that is not the parent";
        vf::distinct("outcomes", std::string("source|Source::parentSource|") + (want.empty() ? "root" : "nested") + "|" + phase + "|" + (dev.empty() ? "ok" : dev));
        if (!dev.empty())
            vf::violation("C20|Source::parentSource|" + std::string(want.empty() ? "root" : "nested") + "|" + dev,
                          "source tree " + m.str() + " node " + std::to_string(v) + " phase=" + phase + " handles=" + hk + ": got " +
                              (got.empty() ? "none" : m.byid.count(got) ? "node " + std::to_string(m.byid.at(got)) : got) + " expected " +
                              (want.empty() ? "none" : "node " + std::to_string(m.parent[v])) + " " + ewhat);
    }
}

// ------------------------------------------------------------------------------------------------ part 1: search case
template <class K> static void search_case(const Shape &sh, bool with_mods) {
    const std::string path = vf::scratch_file("tree.h5");
    {
        Built<K> b;
        build<K>(path, sh, b);
        vf::count("trees");
        // A: the full query grid through the creation handles; accept-all grid also through navigated handles
        std::vector<FSpec<K>> full = make_filters<K>(b.m, true), red = make_filters<K>(b.m, false);
        sweep<K>("unmodified", "creation", b.m, b.h, full);
        Handles<K> nav = navigate<K>(b.f, b.m);
        sweep<K>("unmodified", "navigated", b.m, nav, red);
        if (!with_mods) return; // largest forests: the query grid only
        // B: create a child below every node / at top level (through a navigated handle), query through the old handles
        // and through fresh ones, delete it again, query again
        for (int v = -1; v < (int)sh.parent.size() && !vf::deadline_hit(); v++) {
            Handles<K> actor = navigate<K>(b.f, b.m);
            typename K::Node nd = v < 0 ? K::create(actor.cont, "new", "tb") : K::create(actor.node[v], "new", "tb");
            int nv = b.m.add(v, "new", "tb", nd.id());
            // handle vectors are indexed by model node (the model keeps the slots of dead nodes)
            b.h.node.resize(b.m.size()); b.h.node[nv] = nd;
            nav.node.resize(b.m.size()); nav.node[nv] = nd;
            sweep<K>("after create", "obtained before the create", b.m, b.h, red);
            sweep<K>("after create", "navigated before the create", b.m, nav, red);
            sweep<K>("after create", "navigated after the create", b.m, navigate<K>(b.f, b.m), red);
            vf::count("modifications");
            bool ok = v < 0 ? K::del(actor.cont, nd) : K::del(actor.node[v], nd);
            if (!ok) vf::violation(std::string("C20|") + K::kind() + " delete|fresh child|returned false", std::string(K::kind()) + " tree " + b.m.str());
            b.m.remove(nv);
            sweep<K>("after create+delete", "obtained before the delete", b.m, b.h, red);
            vf::count("modifications");
        }
    }
    // C: delete every node (with its subtree) from a fresh copy
    for (size_t v = 0; v < sh.parent.size() && !vf::deadline_hit(); v++) {
        Built<K> b;
        build<K>(path, sh, b);
        std::vector<FSpec<K>> red = make_filters<K>(b.m, false);
        Handles<K> nav = navigate<K>(b.f, b.m);
        // touch every start once through both handle sets (would fill a cache)
        { std::vector<FSpec<K>> aa(red.begin(), red.begin() + 1);
          for (int s = -1; s < (int)b.m.size(); s++) { check_find<K>("unmodified", "creation", b.m, b.h, s, aa[0], -1, 0, false); check_find<K>("unmodified", "navigated", b.m, nav, s, aa[0], -1, 0, false); } }
        Handles<K> actor = navigate<K>(b.f, b.m);
        int par = b.m.parent[v];
        bool ok = false;
        std::string exc = vf::guarded([&] { ok = par < 0 ? K::del(actor.cont, actor.node[v]) : K::del(actor.node[par], actor.node[v]); });
        if (!exc.empty() || !ok) { vf::violation(std::string("C20|") + K::kind() + " delete|node of the tree|" + (exc.empty() ? "returned false" : exc), std::string(K::kind()) + " tree " + b.m.str() + " node " + std::to_string(v)); continue; }
        b.m.remove((int)v);
        vf::count("modifications");
        sweep<K>("after delete", "obtained before the delete", b.m, b.h, red);
        sweep<K>("after delete", "navigated before the delete", b.m, nav, red);
        sweep<K>("after delete", "navigated after the delete", b.m, navigate<K>(b.f, b.m), red);
    }
}

static void search_case_src_parents(const Shape &sh, bool with_mods) {
    // Source::parentSource on every node of every shape, before and after deleting each node
    const std::string path = vf::scratch_file("tree.h5");
    for (int del = -1; del < (with_mods ? (int)sh.parent.size() : 0); del++) {
        Built<SrcK> b;
        build<SrcK>(path, sh, b);
        if (del < 0) { check_parent_sources("unmodified", "creation", b.m, b.h); check_parent_sources("unmodified", "navigated", b.m, navigate<SrcK>(b.f, b.m)); continue; }
        check_parent_sources("unmodified", "creation", b.m, b.h);
        int par = b.m.parent[del];
        bool ok = par < 0 ? b.h.cont.deleteSource(b.m.name[del]) : b.h.node[par].deleteSource(b.m.id[del]);
        if (!ok) continue; // reported by search_case
        b.m.remove(del);
        check_parent_sources("after delete", "obtained before the delete", b.m, b.h);
    }
}

// ------------------------------------------------------------------------------------------------ case 0/1: convention
template <class K> static void convention_chains() {
    // expected result sizes on a chain r1 > r2 > r3 (first `len` nodes), limits 0,1,2,3,4,default — see the header comment
    for (int len = 1; len <= 3; len++) {
        Shape sh; sh.levels = len;
        for (int i = 0; i < len; i++) { sh.parent.push_back(i - 1); sh.level.push_back(i); }
        Built<K> b;
        build<K>(vf::scratch_file("chain.h5"), sh, b);
        FSpec<K> aa = make_filters<K>(b.m, false)[0];
        std::string probe_cont, probe_root;
        for (long lim = -1; lim <= 4; lim++) {
            long big = lim < 0 ? 99 : lim;
            long want_cont = std::is_same<K, SecK>::value ? std::min<long>(big, len) : std::min<long>(big + 1, len);
            long want_root = std::is_same<K, SecK>::value ? std::min<long>(big, len - 1) : std::min<long>(big + 1, len);
            size_t got_cont = call_find<K>(b.h, -1, aa, lim, 0).size(), got_root = call_find<K>(b.h, 0, aa, lim, 0).size();
            vf::count("queries", 2);
            if (len == 3) { probe_cont += (lim < 0 ? std::string("default") : "d" + std::to_string(lim)) + "=" + std::to_string(got_cont) + " ";
                            probe_root += (lim < 0 ? std::string("default") : "d" + std::to_string(lim)) + "=" + std::to_string(got_root) + " "; }
            if ((long)got_cont != want_cont)
                vf::violation(std::string("C20|") + K::cont_find() + "|chain|depth origin convention|result size differs from the pinned convention",
                              "chain of " + std::to_string(len) + " max_depth=" + std::to_string(lim) + ": " + std::to_string(got_cont) + " results, convention says " + std::to_string(want_cont));
            if ((long)got_root != want_root)
                vf::violation(std::string("C20|") + K::node_find() + "|chain|depth origin convention|result size differs from the pinned convention",
                              "chain of " + std::to_string(len) + " start=root max_depth=" + std::to_string(lim) + ": " + std::to_string(got_root) + " results, convention says " + std::to_string(want_root));
            // the oracle itself must follow the table
            if ((long)ref_bfs(b.m, -1, lim, K::cont_root_level(), K::start_included()).size() != want_cont ||
                (long)ref_bfs(b.m, 0, lim, K::cont_root_level(), K::start_included()).size() != want_root) { fprintf(stderr, "C20: ref_bfs disagrees with the convention table\n"); exit(2); }
        }
        if (len == 3) { vf::note(std::string("probe chain of 3, result sizes, ") + K::cont_find(), vf::jstr(probe_cont));
                        vf::note(std::string("probe chain of 3, result sizes from the root, ") + K::node_find(), vf::jstr(probe_root)); }
    }
}

// the fixtures of testFindSection / testFindSource: 13 resp. 14 nodes below one start node; the numbers the tests pin
template <class K> static void convention_fixture() {
    // l1n1(l2n1(l3n1) l2n2 l2n3(l3n2 l3n3)) l1n2 l1n3(l2n4 l2n5(l3n4 [l3n5]) l2n6)
    const bool src = std::is_same<K, SrcK>::value;
    File f = File::open(vf::scratch_file("fixture.h5"), FileMode::Overwrite);
    typename K::Cont c = K::make_cont(f);
    Model m;
    std::vector<typename K::Node> hs;
    auto mk = [&](int par, const std::string &n, const std::string &t) { typename K::Node nd = par < 0 ? K::create(c, n, t) : K::create(hs[par], n, t); hs.push_back(nd); return m.add(par, n, t, nd.id()); };
    int top = mk(-1, "top", "metadata");
    int l1n1 = mk(top, "l1n1", "typ1"); mk(top, "l1n2", "typ2"); int l1n3 = mk(top, "l1n3", "typ3");
    int l2n1 = mk(l1n1, "l2n1", "typ1"); mk(l1n1, "l2n2", "typ2"); int l2n3 = mk(l1n1, "l2n3", "typ2");
    mk(l1n3, "l2n4", "typ2"); int l2n5 = mk(l1n3, "l2n5", "typ2"); mk(l1n3, "l2n6", "typ3");
    mk(l2n1, "l3n1", "typ1"); mk(l2n3, "l3n2", "typ2"); mk(l2n3, "l3n3", "typ2"); mk(l2n5, "l3n4", "typ2");
    if (src) mk(l2n5, "l3n5", "typ2");
    Handles<K> h; h.cont = c; h.node = hs;
    const long lims_sec[] = {-1, 2, 1}, pins_sec[] = {13, 9, 3};
    const long lims_src[] = {-1, 2, 1, 0}, pins_src[] = {15, 10, 4, 1};
    size_t np = src ? 4 : 3;
    FSpec<K> aa = make_filters<K>(m, false)[0];
    for (size_t i = 0; i < np; i++) {
        long lim = src ? lims_src[i] : lims_sec[i], pin = src ? pins_src[i] : pins_sec[i];
        size_t model_says = ref_bfs(m, top, lim, K::cont_root_level(), K::start_included()).size();
        size_t lib_says = call_find<K>(h, top, aa, lim, 0).size();
        vf::count("queries");
        if ((long)model_says != pin) { fprintf(stderr, "C20: oracle convention disagrees with the unit test fixture (%s, limit %ld: %zu vs %ld)\n", K::kind(), lim, model_says, pin); exit(2); }
        if ((long)lib_says != pin)
            vf::violation(std::string("C20|") + K::node_find() + "|unit test fixture|depth origin convention|result size differs from the number the unit test pins",
                          "max_depth=" + std::to_string(lim) + ": " + std::to_string(lib_says) + " expected " + std::to_string(pin));
    }
    // and the whole grid on it (reduced filters)
    sweep<K>("unmodified", "creation", m, h, make_filters<K>(m, false));
}

// ------------------------------------------------------------------------------------------------ part 2: back references
static void copy_file(const std::string &a, const std::string &b) {
    std::ifstream in(a, std::ios::binary);
    std::ofstream out(b, std::ios::binary | std::ios::trunc);
    out << in.rdbuf();
}

template <class E> static std::vector<std::string> ids_of(const std::vector<E> &v) {
    std::vector<std::string> o;
    for (const E &e : v) o.push_back(e.id());
    return o;
}

// compare a returned id list with the expected id set; labels for the message come from `label`
static void cmp_refs(const std::string &fn, const std::string &input_class, const std::string &phase, std::vector<std::string> got,
                     std::vector<std::string> want, const std::string &exc, const std::function<std::string()> &ctx,
                     const std::map<std::string, std::string> &label) {
    vf::count("backref_queries");
    std::string dev;
    if (!exc.empty()) dev = exc;
    else {
        std::sort(got.begin(), got.end()); std::sort(want.begin(), want.end());
        if (std::adjacent_find(got.begin(), got.end()) != got.end()) dev = "entity listed more than once";
        else if (got != want) {
            std::vector<std::string> missing, extra;
            std::set_difference(want.begin(), want.end(), got.begin(), got.end(), std::back_inserter(missing));
            std::set_difference(got.begin(), got.end(), want.begin(), want.end(), std::back_inserter(extra));
            dev = !missing.empty() && !extra.empty() ? "missing and extra entities" : !missing.empty() ? "missing entities" : "extra entities";
        }
    }
    const char *sz = want.empty() ? "0" : want.size() == 1 ? "1" : "n";
    vf::distinct("outcomes", fn + "|" + input_class + "|" + sz + "|" + phase + "|" + (dev.empty() ? "ok" : dev));
    if (!dev.empty()) {
        auto names = [&](const std::vector<std::string> &ids) { std::string o = "{"; for (const std::string &i : ids) { auto it = label.find(i); o += (o.size() > 1 ? "," : "") + (it == label.end() ? i : it->second); } return o + "}"; };
        vf::violation("C20|" + fn + "|" + dev, ctx() + " phase=" + phase + ": got " + (exc.empty() ? names(got) : exc) + " expected " + names(want));
    }
}

// ---- sections as metadata
enum HKind { HBlock, HArray, HTag, HMTag, HSource };
struct Holder {
    HKind kind; int blk; std::string label, id;
    std::function<void(const Section *)> set; // nullptr: remove the link
};
template <class E> static std::function<void(const Section *)> md_setter(E e) {
    return [e](const Section *s) mutable { if (s) e.metadata(*s); else e.metadata(nix::none); };
}

struct SecWorld {
    File f;
    Block b[2];
    Model m;
    std::vector<Section> node;
    std::vector<Holder> holders;
    std::map<std::string, std::string> label;

    void add_holder(HKind k, int blk, const std::string &lab, const std::string &id, std::function<void(const Section *)> set) {
        Holder h; h.kind = k; h.blk = blk; h.label = lab; h.id = id; h.set = set; holders.push_back(h); label[id] = lab;
    }
    void attach_holders() { // the fixed population around the section tree (navigated by name)
        holders.clear();
        b[0] = f.getBlock("b0"); b[1] = f.getBlock("b1");
        add_holder(HBlock, 0, "block b0", b[0].id(), md_setter(b[0]));
        add_holder(HBlock, 1, "block b1", b[1].id(), md_setter(b[1]));
        DataArray a0 = b[0].getDataArray("a0"), a0b = b[0].getDataArray("a0b"), a1 = b[1].getDataArray("a1");
        add_holder(HArray, 0, "array b0/a0", a0.id(), md_setter(a0));
        add_holder(HArray, 0, "array b0/a0b", a0b.id(), md_setter(a0b));
        add_holder(HArray, 1, "array b1/a1", a1.id(), md_setter(a1));
        Tag t0 = b[0].getTag("t0"), t1 = b[1].getTag("t1");
        add_holder(HTag, 0, "tag b0/t0", t0.id(), md_setter(t0));
        add_holder(HTag, 1, "tag b1/t1", t1.id(), md_setter(t1));
        MultiTag m0 = b[0].getMultiTag("m0");
        add_holder(HMTag, 0, "multi-tag b0/m0", m0.id(), md_setter(m0));
        Source s0 = b[0].getSource("s0"), s00 = s0.getSource("s00"), s1 = b[1].getSource("s1");
        add_holder(HSource, 0, "source b0/s0", s0.id(), md_setter(s0));
        add_holder(HSource, 0, "source b0/s0/s00", s00.id(), md_setter(s00));
        add_holder(HSource, 1, "source b1/s1", s1.id(), md_setter(s1));
    }
    void create(const std::string &path, const Shape &sh) {
        Built<SecK> bt;
        build<SecK>(path, sh, bt);
        f = bt.f; m = bt.m; node = bt.h.node;
        Block b0 = f.createBlock("b0", "t"), b1 = f.createBlock("b1", "t");
        DataArray a0 = b0.createDataArray("a0", "t", DataType::Double, NDSize({2}));
        b0.createDataArray("a0b", "t", DataType::Double, NDSize({2}));
        b1.createDataArray("a1", "t", DataType::Double, NDSize({2}));
        b0.createTag("t0", "t", {1.0}); b1.createTag("t1", "t", {1.0});
        b0.createMultiTag("m0", "t", a0);
        b0.createSource("s0", "t").createSource("s00", "t");
        b1.createSource("s1", "t");
        attach_holders();
    }
    void attach(const std::string &path, const Model &model) {
        f = File::open(path, FileMode::ReadWrite);
        m = model;
        node = navigate<SecK>(f, m).node;
        attach_holders();
    }
};

static const char *HKNAME[] = {"Blocks", "DataArrays", "Tags", "MultiTags", "Sources"};

template <class E> static void sec_ref_query(const std::string &fn, const std::string &ic, const std::string &phase, const std::function<std::vector<E>()> &call,
                                             const std::vector<std::string> &want, const std::function<std::string()> &ctx, const std::map<std::string, std::string> &label) {
    std::vector<std::string> got;
    std::string exc = vf::guarded([&] { got = ids_of(call()); });
    cmp_refs(fn, ic, phase, got, want, exc, ctx, label);
}

// link[h] = node the holder h points at, or -1
static void check_sec_refs(const std::string &phase, const char *hk, SecWorld &w, const std::vector<Section> &nodes, const std::vector<int> &link, bool with_block_arg) {
    int nl = 0; for (int t : link) if (t >= 0 && w.m.alive[t]) nl++;
    const std::string ic = "links=" + std::to_string(nl);
    for (size_t v = 0; v < w.m.size(); v++) {
        if (!w.m.alive[v]) continue;
        const Section &s = nodes[v];
        auto ctx = [&]() { std::string l; for (size_t h = 0; h < link.size(); h++) if (link[h] >= 0) l += (l.empty() ? "" : ", ") + w.holders[h].label + "->node " + std::to_string(link[h]);
                           return "section tree " + w.m.str() + " links {" + l + "} query on node " + std::to_string(v) + " handles=" + hk; };
        for (int k = 0; k < 5; k++) {
            for (int blk = -1; blk < (k == HBlock || !with_block_arg ? 0 : 2); blk++) {
                std::vector<std::string> want;
                for (size_t h = 0; h < link.size(); h++)
                    if (link[h] == (int)v && w.holders[h].kind == k && (blk < 0 || w.holders[h].blk == blk)) want.push_back(w.holders[h].id);
                std::string fn = std::string("Section::referring") + HKNAME[k] + (blk < 0 ? "()" : "(Block)");
                switch (k) {
                case HBlock: sec_ref_query<Block>(fn, ic, phase, [&] { return s.referringBlocks(); }, want, ctx, w.label); break;
                case HArray: sec_ref_query<DataArray>(fn, ic, phase, [&] { return blk < 0 ? s.referringDataArrays() : s.referringDataArrays(w.b[blk]); }, want, ctx, w.label); break;
                case HTag: sec_ref_query<Tag>(fn, ic, phase, [&] { return blk < 0 ? s.referringTags() : s.referringTags(w.b[blk]); }, want, ctx, w.label); break;
                case HMTag: sec_ref_query<MultiTag>(fn, ic, phase, [&] { return blk < 0 ? s.referringMultiTags() : s.referringMultiTags(w.b[blk]); }, want, ctx, w.label); break;
                default: sec_ref_query<Source>(fn, ic, phase, [&] { return blk < 0 ? s.referringSources() : s.referringSources(w.b[blk]); }, want, ctx, w.label); break;
                }
            }
        }
    }
}

static void sec_eval_assignment(SecWorld &w, const std::vector<int> &link, const std::string &master, const std::string &copy) {
    vf::count("link_assignments");
    check_sec_refs("before delete", "obtained before the links were set", w, w.node, link, true);
    if (!w.f.flush()) { vf::violation("C20|File::flush|returned false", "section back-reference world"); return; }
    for (size_t v = 0; v < w.m.size(); v++) {
        copy_file(master, copy);
        SecWorld c;
        std::string exc = vf::guarded([&] { c.attach(copy, w.m); });
        if (!exc.empty()) { fprintf(stderr, "C20: cannot open the copy of a flushed file (%s)\n", exc.c_str()); exit(2); }
        int par = c.m.parent[v];
        bool ok = false;
        std::string dexc = vf::guarded([&] { ok = par < 0 ? c.f.deleteSection(c.node[v]) : c.node[par].deleteSection(c.node[v]); });
        if (!dexc.empty() || !ok) { vf::violation("C20|section delete|linked node|" + (dexc.empty() ? std::string("returned false") : dexc), "section tree " + w.m.str() + " node " + std::to_string(v)); continue; }
        c.m.remove((int)v);
        std::vector<int> l2 = link;
        for (int &t : l2) if (t >= 0 && !c.m.alive[t]) t = -1; // links into the deleted subtree are gone
        check_sec_refs("after delete", "obtained before the delete", c, c.node, l2, true);
        check_sec_refs("after delete", "navigated after the delete", c, navigate<SecK>(c.f, c.m).node, l2, false);
        vf::count("modifications");
    }
}

// DFS over assignments: holders in increasing order, every target; every prefix is evaluated
static void sec_assign_rec(SecWorld &w, std::vector<int> &link, size_t next_holder, int left, const std::string &master, const std::string &copy) {
    sec_eval_assignment(w, link, master, copy);
    if (left == 0 || vf::deadline_hit()) return;
    for (size_t h = next_holder; h < w.holders.size(); h++)
        for (size_t t = 0; t < w.m.size(); t++) {
            w.holders[h].set(&w.node[t]); link[h] = (int)t;
            sec_assign_rec(w, link, h + 1, left - 1, master, copy);
            w.holders[h].set(nullptr); link[h] = -1;
        }
}

static const size_t N_SEC_HOLDERS = 11;

static void backref_section_case(const Shape &sh, int first_holder, int k) {
    const std::string master = vf::scratch_file("brs.h5"), copy = vf::scratch_file("brs_copy.h5");
    SecWorld w;
    w.create(master, sh);
    if (w.holders.size() != N_SEC_HOLDERS) { fprintf(stderr, "C20: holder count\n"); exit(2); }
    std::vector<int> link(w.holders.size(), -1);
    if (first_holder < 0) { sec_eval_assignment(w, link, master, copy); return; }
    for (size_t t = 0; t < w.m.size(); t++) {
        w.holders[first_holder].set(&w.node[t]); link[first_holder] = (int)t;
        sec_assign_rec(w, link, first_holder + 1, k - 1, master, copy);
        w.holders[first_holder].set(nullptr); link[first_holder] = -1;
    }
    // all links removed again: nothing refers to anything
    check_sec_refs("links removed", "obtained before the links were set", w, w.node, link, false);
}

// ---- sources of data arrays / tags / multi-tags
struct SrcWorld {
    File f;
    Block b0;
    Model m;
    std::vector<Source> node;
    std::vector<std::string> hid, hlabel; // holders: a0, a0b, t0, m0
    std::vector<HKind> hkind;
    std::vector<std::function<void(const Source &, bool)>> hset; // add / remove
    std::vector<std::function<std::vector<Source>()>> hget;     // the holder's own view of its sources: sources() and getSource(id) of each
    std::map<std::string, std::string> label;

    template <class E> void add_holder(HKind k, const std::string &lab, E e) {
        hkind.push_back(k); hlabel.push_back(lab); hid.push_back(e.id()); label[e.id()] = lab;
        hset.push_back([e](const Source &s, bool add) mutable { if (add) e.addSource(s); else e.removeSource(s); });
        hget.push_back([e]() { std::vector<Source> r = e.sources(); size_t n = r.size(); for (size_t i = 0; i < n; i++) r.push_back(e.getSource(r[i].id())); return r; });
    }
    void attach_holders() {
        hid.clear(); hlabel.clear(); hkind.clear(); hset.clear(); hget.clear();
        b0 = f.getBlock("blk");
        add_holder(HArray, "array a0", b0.getDataArray("a0"));
        add_holder(HArray, "array a0b", b0.getDataArray("a0b"));
        add_holder(HTag, "tag t0", b0.getTag("t0"));
        add_holder(HMTag, "multi-tag m0", b0.getMultiTag("m0"));
    }
    void create(const std::string &path, const Shape &sh) {
        Built<SrcK> bt;
        build<SrcK>(path, sh, bt);
        f = bt.f; m = bt.m; node = bt.h.node;
        Block b = bt.h.cont;
        DataArray a0 = b.createDataArray("a0", "t", DataType::Double, NDSize({2}));
        b.createDataArray("a0b", "t", DataType::Double, NDSize({2}));
        b.createTag("t0", "t", {1.0});
        b.createMultiTag("m0", "t", a0);
        // the decoy block gets equally named users of its own, equally named sources
        Block o = f.getBlock("other");
        DataArray oa = o.createDataArray("a0", "t", DataType::Double, NDSize({2}));
        Tag ot = o.createTag("t0", "t", {1.0});
        MultiTag om = o.createMultiTag("m0", "t", oa);
        for (auto &s : o.findSources()) { oa.addSource(s); ot.addSource(s); om.addSource(s); }
        attach_holders();
    }
    void attach(const std::string &path, const Model &model) {
        f = File::open(path, FileMode::ReadWrite);
        m = model;
        node = navigate<SrcK>(f, m).node;
        attach_holders();
    }
};

// links: set of (holder, node)
static void check_src_refs(const std::string &phase, const char *hk, SrcWorld &w, const std::vector<Source> &nodes, const std::set<std::pair<int, int>> &links) {
    const std::string ic = "links=" + std::to_string(links.size());
    for (size_t v = 0; v < w.m.size(); v++) {
        if (!w.m.alive[v]) continue;
        const Source &s = nodes[v];
        auto ctx = [&]() { std::string l; for (auto &p : links) l += (l.empty() ? "" : ", ") + w.hlabel[p.first] + "->node " + std::to_string(p.second);
                           return "source tree " + w.m.str() + " links {" + l + "} query on node " + std::to_string(v) + " handles=" + hk; };
        for (int k = HArray; k <= HMTag; k++) {
            std::vector<std::string> want;
            for (auto &p : links) if (p.second == (int)v && w.hkind[p.first] == k) want.push_back(w.hid[p.first]);
            std::string fn = std::string("Source::referring") + HKNAME[k] + "()";
            switch (k) {
            case HArray: sec_ref_query<DataArray>(fn, ic, phase, [&] { return s.referringDataArrays(); }, want, ctx, w.label); break;
            case HTag: sec_ref_query<Tag>(fn, ic, phase, [&] { return s.referringTags(); }, want, ctx, w.label); break;
            default: sec_ref_query<MultiTag>(fn, ic, phase, [&] { return s.referringMultiTags(); }, want, ctx, w.label); break;
            }
        }
    }
    Handles<SrcK> h; h.cont = w.b0; h.node = nodes;
    check_parent_sources(phase, hk, w.m, h);
    // the same questions asked through the Source handles the HOLDERS hand out (array.sources(), tag.getSource(id), ...)
    for (size_t hi = 0; hi < w.hget.size(); hi++) {
        std::vector<Source> via; std::string ew;
        std::string exc = vf::guarded([&] { via = w.hget[hi](); }, &ew);
        if (!exc.empty()) continue;    // what a holder shows of its sources is C02/C04 matter
        Handles<SrcK> hv; hv.cont = w.b0; hv.node = nodes;
        Model mv = w.m;
        std::vector<bool> have(mv.size(), false);
        for (const Source &s : via) { if (!s) continue; auto it = mv.byid.find(s.id()); if (it == mv.byid.end()) continue; hv.node[it->second] = s; have[it->second] = true; }
        for (size_t v = 0; v < mv.size(); v++) if (!have[v]) mv.alive[v] = false;     // only the nodes this holder handed out are asked
        check_parent_sources(phase, "handed out by a holder (sources() / getSource(id) of an array, tag or multi-tag)", mv, hv);
    }
}

static void src_eval_assignment(SrcWorld &w, const std::set<std::pair<int, int>> &links, const std::string &master, const std::string &copy) {
    vf::count("link_assignments");
    check_src_refs("before delete", "obtained before the links were set", w, w.node, links);
    if (!w.f.flush()) { vf::violation("C20|File::flush|returned false", "source back-reference world"); return; }
    for (size_t v = 0; v < w.m.size(); v++) {
        copy_file(master, copy);
        SrcWorld c;
        std::string exc = vf::guarded([&] { c.attach(copy, w.m); });
        if (!exc.empty()) { fprintf(stderr, "C20: cannot open the copy of a flushed file (%s)\n", exc.c_str()); exit(2); }
        int par = c.m.parent[v];
        bool ok = false;
        std::string dexc = vf::guarded([&] { ok = par < 0 ? c.b0.deleteSource(c.node[v]) : c.node[par].deleteSource(c.node[v]); });
        if (!dexc.empty() || !ok) { vf::violation("C20|source delete|linked node|" + (dexc.empty() ? std::string("returned false") : dexc), "source tree " + w.m.str() + " node " + std::to_string(v)); continue; }
        c.m.remove((int)v);
        std::set<std::pair<int, int>> l2;
        for (auto &p : links) if (c.m.alive[p.second]) l2.insert(p);
        check_src_refs("after delete", "obtained before the delete", c, c.node, l2);
        check_src_refs("after delete", "navigated after the delete", c, navigate<SrcK>(c.f, c.m).node, l2);
        vf::count("modifications");
    }
}

static void src_assign_rec(SrcWorld &w, std::set<std::pair<int, int>> &links, size_t next_pair, int left, const std::string &master, const std::string &copy) {
    src_eval_assignment(w, links, master, copy);
    if (left == 0 || vf::deadline_hit()) return;
    size_t n = w.m.size();
    for (size_t p = next_pair; p < w.hid.size() * n; p++) {
        int h = (int)(p / n), t = (int)(p % n);
        w.hset[h](w.node[t], true); links.insert(std::make_pair(h, t));
        src_assign_rec(w, links, p + 1, left - 1, master, copy);
        w.hset[h](w.node[t], false); links.erase(std::make_pair(h, t));
    }
}

static const size_t N_SRC_HOLDERS = 4;

static void backref_source_case(const Shape &sh, int first_pair, int k) {
    const std::string master = vf::scratch_file("brc.h5"), copy = vf::scratch_file("brc_copy.h5");
    SrcWorld w;
    w.create(master, sh);
    if (w.hid.size() != N_SRC_HOLDERS) { fprintf(stderr, "C20: holder count\n"); exit(2); }
    std::set<std::pair<int, int>> links;
    if (first_pair < 0) { src_eval_assignment(w, links, master, copy); return; }
    size_t n = w.m.size();
    int h = (int)(first_pair / n), t = (int)(first_pair % n);
    w.hset[h](w.node[t], true); links.insert(std::make_pair(h, t));
    src_assign_rec(w, links, first_pair + 1, k - 1, master, copy);
    w.hset[h](w.node[t], false); links.erase(std::make_pair(h, t));
    check_src_refs("links removed", "obtained before the links were set", w, w.node, links);
}

// ------------------------------------------------------------------------------------------------ part 3: inherited properties
static const char *PNAMES[] = {"p", "q", "r"};

struct PropM { std::string name, id; };

static void check_inherited(const std::string &phase, const char *hk, const Section &s, const std::vector<PropM> &own, const std::vector<PropM> &linked,
                            bool has_link, const std::string &ctx) {
    std::vector<std::string> want, wn;
    for (const PropM &p : own) { want.push_back(p.id); wn.push_back("own." + p.name); }
    size_t shadowed = 0;
    if (has_link)
        for (const PropM &p : linked) {
            bool sh = false;
            for (const PropM &o : own) if (o.name == p.name) sh = true;
            if (sh) { shadowed++; continue; }
            want.push_back(p.id); wn.push_back("linked." + p.name);
        }
    std::vector<std::string> got, gn;
    std::string exc = vf::guarded([&] { for (const Property &p : s.inheritedProperties()) { got.push_back(p.id()); gn.push_back(p.name()); } });
    vf::count("inherited_checks");
    std::string dev;
    if (!exc.empty()) dev = exc;
    else {
        std::vector<std::string> gs = got, ws = want;
        std::sort(gs.begin(), gs.end()); std::sort(ws.begin(), ws.end());
        if (std::adjacent_find(gs.begin(), gs.end()) != gs.end()) dev = "property listed more than once";
        else if (gs != ws) {
            std::vector<std::string> missing, extra;
            std::set_difference(ws.begin(), ws.end(), gs.begin(), gs.end(), std::back_inserter(missing));
            std::set_difference(gs.begin(), gs.end(), ws.begin(), ws.end(), std::back_inserter(extra));
            bool extra_shadowed = false, extra_foreign = false;
            for (const std::string &e : extra) { bool is_l = false; for (const PropM &p : linked) if (p.id == e) is_l = true; if (is_l) extra_shadowed = true; else extra_foreign = true; }
            dev = !missing.empty() ? (extra.empty() ? "missing properties" : "missing and extra properties")
                                   : extra_foreign ? "extra properties (neither own nor of the linked section)" : extra_shadowed && has_link ? "extra properties (shadowed ones of the linked section)" : "extra properties (of a section that is not linked)";
        } else if (got != want) dev = "order differs from own ++ linked";
    }
    const std::string ic = std::string(has_link ? "link" : "no link") + "|own=" + std::to_string(own.size()) + ",linked=" + std::to_string(linked.size()) + ",shadowed=" + std::to_string(shadowed);
    vf::distinct("outcomes", "Section::inheritedProperties|" + ic + "|" + phase + "|" + (dev.empty() ? "ok" : dev));
    if (!dev.empty())
        vf::violation("C20|Section::inheritedProperties|" + std::string(has_link ? "link" : "no link") + (shadowed ? ",shadowing" : ",no shadowing") + "|" + dev,
                      ctx + " phase=" + phase + " handles=" + hk + ": got " + (exc.empty() ? vf::jvecs(gn) : exc) + " expected " + vf::jvecs(wn));
}

// placement: 0 = S and T are sibling roots, 1 = T is a child of S, 2 = T is the parent of S
static void inherited_case(int placement, int own_mask, bool thorough) {
    const std::string path = vf::scratch_file("inh.h5");
    for (int linked_mask = 0; linked_mask < 8; linked_mask++)
        for (int third = 0; third < 2; third++)
            for (int order = 0; order < 2; order++) {
                if (vf::deadline_hit()) return;
                File f = File::open(path, FileMode::Overwrite);
                Section S, T;
                if (placement == 0) { T = f.createSection("T", "t"); S = f.createSection("S", "t"); }
                else if (placement == 1) { S = f.createSection("S", "t"); T = S.createSection("T", "t"); }
                else { T = f.createSection("T", "t"); S = T.createSection("S", "t"); }
                Section S_before = placement == 2 ? T.getSection("S") : f.getSection("S"); // handle obtained before anything is attached
                (void)S_before.inheritedProperties();
                Section U = f.createSection("U", "t");
                Property up = U.createProperty("p", Variant(3.0)); U.createProperty("s", Variant(3.0));
                std::vector<PropM> own, linked;
                for (int i = 0; i < 3; i++) {
                    int k = order ? 2 - i : i;
                    if (linked_mask & (1 << k)) { Property p = T.createProperty(PNAMES[k], Variant(2.0)); linked.push_back(PropM{PNAMES[k], p.id()}); }
                    if (own_mask & (1 << k)) { Property p = S.createProperty(PNAMES[k], Variant(1.0)); own.push_back(PropM{PNAMES[k], p.id()}); }
                }
                std::string ctx = std::string("placement=") + (placement == 0 ? "siblings" : placement == 1 ? "target is child" : "target is parent") + " own=" + std::to_string(own_mask) +
                                  " linked=" + std::to_string(linked_mask) + (third ? " target links to a third section" : "") + (order ? " created r,q,p" : " created p,q,r");
                check_inherited("unlinked", "creation", S, own, linked, false, ctx);
                S.link(T);
                if (third) T.link(U);
                Section S_fresh = placement == 2 ? T.getSection("S") : f.getSection("S");
                check_inherited("linked", "creation", S, own, linked, true, ctx);
                check_inherited("linked", "obtained before the link was set", S_before, own, linked, true, ctx);
                check_inherited("linked", "navigated", S_fresh, own, linked, true, ctx);
                // T's own view (its link is U or none)
                if (third) { std::vector<PropM> ul; ul.push_back(PropM{"p", up.id()}); for (const Property &p : U.properties()) if (p.name() == "s") ul.push_back(PropM{"s", p.id()});
                             check_inherited("linked", "creation", T, linked, ul, true, ctx + " (query on the target)"); }
                else check_inherited("unlinked", "creation", T, linked, std::vector<PropM>(), false, ctx + " (query on the target)");
                // deletions: each linked property (in creation order) while own ones stay, then each own property
                std::vector<PropM> l2 = linked, o2 = own;
                if (thorough || ((own_mask + linked_mask + third + order) % 2 == 0)) {
                    while (!l2.empty()) {
                        T.deleteProperty(l2.front().id); l2.erase(l2.begin());
                        check_inherited("after deleting a linked property", "obtained before the delete", S_fresh, o2, l2, true, ctx);
                    }
                    l2 = linked; // re-create them (new ids)
                    for (PropM &p : l2) p.id = T.createProperty(p.name, Variant(2.5)).id();
                    check_inherited("after re-creating linked properties", "obtained before", S_before, o2, l2, true, ctx);
                }
                while (!o2.empty()) {
                    S.deleteProperty(o2.back().name); o2.pop_back();
                    check_inherited("after deleting an own property", "obtained before the delete", S_fresh, o2, l2, true, ctx);
                    check_inherited("after deleting an own property", "creation", S, o2, l2, true, ctx);
                }
                S.link(nix::none);
                check_inherited("after removing the link", "obtained before", S_fresh, o2, l2, false, ctx);
                vf::count("inherited_worlds");
                f.close();
            }
}

// ------------------------------------------------------------------------------------------------ main
int main(int argc, char **argv) {
    vf::init(argc, argv, "C20");
    vf::set_clock(1500000000);
    const bool thorough = vf::opt.tier == "thorough";
    const size_t NMAX = thorough ? 7 : 5;     // nodes per forest in the search part, query grid + modifications
    const size_t NMAX_GRID = NMAX + 1;        // forests of this size: query grid on the unmodified tree only
    const size_t NB_MAX = thorough ? 4 : 3;   // nodes per forest in the back-reference part
    auto links_for = [&](size_t nodes) { return thorough ? (nodes <= 3 ? 3 : 2) : 2; };

    long idx = 0;
    // ---- case 0 / 1: depth origin convention
    { long ci = idx++; if (vf::take_case(ci)) { vf::case_desc("depth origin convention on chains of 1..3 nodes"); convention_chains<SecK>(); convention_chains<SrcK>(); } }
    { long ci = idx++; if (vf::take_case(ci)) { vf::case_desc("depth origin convention on the unit test fixtures (testFindSection / testFindSource)"); convention_fixture<SecK>(); convention_fixture<SrcK>(); } }

    // ---- part 1: searches on every forest
    std::vector<Shape> shapes = all_shapes(NMAX_GRID);
    size_t nsampled = 0;
    for (const Shape &sh : shapes) {
        for (int kind = 0; kind < 2; kind++) {
            long ci = idx++;
            if (!vf::take_case(ci)) continue;
            const bool mods = sh.parent.size() <= NMAX;
            vf::case_desc(std::string("search: ") + (kind ? "source" : "section") + " forest " + shape_str(sh.level) + (mods ? "" : " (query grid only)"));
            std::string what;
            std::string exc = vf::guarded([&] { if (kind) { search_case<SrcK>(sh, mods); search_case_src_parents(sh, mods); } else search_case<SecK>(sh, mods); }, &what);
            if (!exc.empty()) vf::violation(std::string("C20|search case|") + (kind ? "source" : "section") + "|unexpected exception outside a query|" + exc, shape_str(sh.level) + ": " + what);
            vf::distinct("shapes", shape_str(sh.level));
            if (nsampled < 3 && sh.parent.size() >= 4) {
                nsampled++;
                std::vector<std::string> names, types; shape_labels(sh, names, types);
                vf::sample("{\"part\":\"search\",\"kind\":" + vf::jstr(kind ? "source" : "section") + ",\"forest\":" + vf::jstr(shape_str(sh.level)) + ",\"names\":" + vf::jvecs(names) +
                           ",\"types\":" + vf::jvecs(types) + ",\"grid\":\"starts x filters x max_depth 0..levels+1,default; then create-child / delete-node re-queries\"}");
            }
        }
    }

    // ---- part 2: back references
    std::vector<Shape> bshapes = all_shapes(NB_MAX);
    for (const Shape &sh : bshapes) {
        const int k = links_for(sh.parent.size());
        for (int fh = -1; fh < (int)N_SEC_HOLDERS; fh++) {
            long ci = idx++;
            if (!vf::take_case(ci)) continue;
            vf::case_desc("back references: section forest " + shape_str(sh.level) + ", <= " + std::to_string(k) + " metadata links, first holder #" + std::to_string(fh));
            std::string what;
            std::string exc = vf::guarded([&] { backref_section_case(sh, fh, k); }, &what);
            if (!exc.empty()) vf::violation("C20|back-reference case|section|unexpected exception outside a query|" + exc, shape_str(sh.level) + ": " + what);
            if (fh == 0 && sh.parent.size() == 3 && sh.levels == 2 && sh.level[1] == 1 && sh.level[2] == 1)
                vf::sample("{\"part\":\"back references\",\"kind\":\"section\",\"forest\":" + vf::jstr(shape_str(sh.level)) + ",\"holders\":\"b0,b1,b0/a0,b0/a0b,b1/a1,b0/t0,b1/t1,b0/m0,b0/s0,b0/s0/s00,b1/s1\",\"links\":\"<= " + std::to_string(k) + "\"}");
        }
        for (int fp = -1; fp < (int)(N_SRC_HOLDERS * sh.parent.size()); fp++) {
            long ci = idx++;
            if (!vf::take_case(ci)) continue;
            vf::case_desc("back references: source forest " + shape_str(sh.level) + ", <= " + std::to_string(k) + " source links, first (holder,node) pair #" + std::to_string(fp));
            std::string what;
            std::string exc = vf::guarded([&] { backref_source_case(sh, fp, k); }, &what);
            if (!exc.empty()) vf::violation("C20|back-reference case|source|unexpected exception outside a query|" + exc, shape_str(sh.level) + ": " + what);
        }
    }

    // ---- part 3: inherited properties
    for (int placement = 0; placement < 3; placement++)
        for (int own_mask = 0; own_mask < 8; own_mask++) {
            long ci = idx++;
            if (!vf::take_case(ci)) continue;
            vf::case_desc("inherited properties: placement " + std::to_string(placement) + ", own property set mask " + std::to_string(own_mask));
            std::string what;
            std::string exc = vf::guarded([&] { inherited_case(placement, own_mask, thorough); }, &what);
            if (!exc.empty()) vf::violation("C20|inherited case|unexpected exception outside a query|" + exc, what);
            if (placement == 0 && own_mask == 3) vf::sample("{\"part\":\"inherited\",\"own\":[\"p\",\"q\"],\"linked\":\"all subsets of {p,q,r}\",\"placement\":\"siblings\"}");
        }

    vf::note("search_forests", std::to_string(shapes.size()));
    vf::note("backref_forests", std::to_string(bshapes.size()));
    vf::note("nmax", std::to_string(NMAX));
    vf::note("nmax_grid_only", std::to_string(NMAX_GRID));
    return vf::finish();
}
