// C01 — array data round trip: what is written is what is read.
//
// Explicit-state exploration (E1).  A configuration is (element type T, rank, compression, initial extent):
//   T in {Bool, Int8, Int16, Int32, Int64, UInt8, UInt16, UInt32, UInt64, Float, Double, String} (the harness is a template
//   over T), rank 1..4, compression in {None, DeflateNormal, Auto with the FILE opened with DeflateNormal}, initial extents
//   from {0,1,2,3} per axis (a fixed list per rank).
// For every configuration every sequence (up to the depth bound) over the alphabet -- relative to the CURRENT extent --
//   W_full | W_extremes | W_cell(first) | W_cell(last) | W_slab(axis, last index) | Append(axis, thickness 1) |
//   Grow(axis) | Shrink(axis) | SetWhole(shape+1) | SetWhole(shape-1) | Poly([1,2]) | Poly([0,0,1]) | Origin(1) |
//   UnsetPoly | UnsetOrigin | REOPEN
// is replayed on a fresh file (every prefix of a sequence is a trace of its own, so the oracle runs after every
// operation; a trace is not extended past the first step after which something is wrong).  A write goes through the
// untyped setData(DataType, const void*, count, offset) when (position + letter index) is even and through the typed
// overloads otherwise (std::vector<T> / T[2] / T[3] at rank 1, boost::multi_array<T,N>, scalar T for a single cell);
// Append goes through appendData, Grow / Shrink through dataExtent(NDSize), SetWhole through the typed setData(container)
// that also sets the extent.  Steps at odd positions are applied through a freshly fetched handle, the others through a handle that is kept
// alive across the sequence.  REOPEN closes the file and opens it again (ReadWrite; as the last step of a trace
// alternating ReadOnly / ReadWrite).  The calibration letters exist for numeric T only.
// Values: every written element of a sequence is distinct (a counter mapped into T's domain: small integers, for
// floating point also negative dyadic fractions); W_extremes writes min / max / -1 / sign bit, NaN with payload, +-inf,
// -0.0, FLT/DBL_MAX, denormal, "" / 300 characters / UTF-8.  Same-type comparisons are bitwise.
// Reference model: flat row-major cell vector + extent + written mask + calibration; cells exposed by growing are
// 0 / false / ""; shrinking discards; shrink-then-grow re-zeroes.
// Oracle after the last step, through the kept handle AND a handle fetched afresh with block.getDataArray(name) (one of
// the two -- alternating with the sequence -- goes through every read path, the other one reads extent, type and the whole
// array): dataExtent() and dataType(); for EVERY sub-hyperslab (offset, count) of the extent while every axis <= 3 (else
// whole + faces + corners) getData into a buffer PRE-FILLED WITH A SENTINEL (plus two guard elements) equals the model;
// (with a calibration set: the calibrated value converted to T); getDataDirect (whole array and a rotating quarter of the
// sub-hyperslabs) equals the stored cells regardless of calibration; typed reads (whole container, container with count +
// offset, pre-sized container + offset, std::vector line, scalar); for numeric T the whole array read as each of the ten
// numeric types U equals the stored value (no calibration) or sum c_k (x - o)^k (calibration) wherever that is exactly
// representable in U (cells where it is not are don't-care: out-of-range / inexact conversions are not asserted).
// A cell that every raw read path returns wrongly in the same way is reported against the last operation; a read path
// that disagrees with the others is reported against that path.
// Bounds.  quick: depth 3, reduced alphabet (no W_cell(first), SetWhole(shape-1), Poly([0,0,1]), UnsetOrigin; at rank >= 3
// Grow / Shrink on the first and last axis only): all 12 T x rank {1,2} x None (initial extents [2], [0] and [2,3]), Double x
// rank {3,4} x None, {Double, String, Int8} x {DeflateNormal, Auto} x rank {1,2}.  thorough: all 12 T x rank 1-4 x 3
// compressions at depth 3 (full alphabet at rank <= 2, four / two initial extents for None); {Double, Int8, UInt64, Bool,
// String} x None at depth 4 (rank 1 full alphabet, rank 2 reduced) and {Double, Bool, String} at depth 5 (rank 1, reduced).
// Large-array family: 1-D Double / Int32 arrays x three compression settings, created with extent 3000 / 0 / 1000, resized
// to 3000 (past the guessed chunk size), ONE block written somewhere in the middle (five positions, around 1024 / 1500 /
// 2048 / the end), optionally reopened / grown / shrunk into the block and grown again, then read block-wise (100 / 1024 /
// 1500 / all) into ONE REUSED buffer that is filled with a non-zero sentinel before every read: never-written regions
// must read as zero.
#include <nix.hpp>
#include <nix/hydra/multiArray.hpp>
#include <hdf5.h>
#include <cstring>
#include <algorithm>
#include <climits>
#include <cfloat>
#include <cmath>
#include <limits>
#include <type_traits>
#include "vf.hpp"

using namespace nix;

typedef std::vector<size_t> Ext;

static size_t nelms(const Ext &e) { size_t n = 1; for (size_t x : e) n *= x; return n; }
static NDSize nd(const Ext &e) { NDSize s(e.size()); for (size_t i = 0; i < e.size(); i++) s[i] = (ndsize_t)e[i]; return s; }
static std::string ext_str(const Ext &e) { return vf::jvec(e); }

static const char *dtname(DataType t) {
    switch (t) {
    case DataType::Bool: return "Bool"; case DataType::Int8: return "Int8"; case DataType::Int16: return "Int16";
    case DataType::Int32: return "Int32"; case DataType::Int64: return "Int64"; case DataType::UInt8: return "UInt8";
    case DataType::UInt16: return "UInt16"; case DataType::UInt32: return "UInt32"; case DataType::UInt64: return "UInt64";
    case DataType::Float: return "Float"; case DataType::Double: return "Double"; case DataType::String: return "String";
    case DataType::Nothing: return "Nothing"; default: return "other";
    }
}

// ------------------------------------------------------------------------------------------------ element types
// TT<T>: T is the element type the typed API sees; `store` is the type of the flat buffers handed to the untyped API and
// of the model's cells (bool is kept as a byte, so that a byte that is neither 0 nor 1 and a sentinel are visible).
static float nanp(float *) { uint32_t b = 0x7fc00123u; float f; std::memcpy(&f, &b, 4); return f; }
static double nanp(double *) { uint64_t b = 0x7ff8000000000123ULL; double d; std::memcpy(&d, &b, 8); return d; }
template <typename I> static I nanp(I *) { return I(0); }

template <typename T, typename Enable = void> struct TT;

template <typename T>
struct TT<T, typename std::enable_if<std::is_arithmetic<T>::value && !std::is_same<T, bool>::value>::type> {
    typedef T store;
    typedef std::numeric_limits<T> L;
    static const bool numeric = true;
    static const bool floating = std::is_floating_point<T>::value;
    static DataType dt() { return to_data_type<T>::value; }
    static const char *name() { return dtname(dt()); }
    static store zero() { return T(0); }
    static T sent(std::true_type) { return static_cast<T>(-777.25); }
    static T sent(std::false_type) {
        if (sizeof(T) == 1) return std::is_signed<T>::value ? static_cast<T>(111) : static_cast<T>(165);
        T v; std::memset(&v, std::is_signed<T>::value ? 0x5A : 0xA5, sizeof v); return v;
    }
    static store sentinel() { return sent(std::integral_constant<bool, floating>()); }
    // distinct small values: integers 1..; `variant` (every second write of a sequence) makes signed integers negative
    // and floating point values negative dyadic fractions
    static store ordinary(long k, bool variant) {
        long base = 1 + k % 100;
        if (sizeof(T) > 1) base += 300 * (k / 100) + (k % 3 == 0 ? 1000 : 0);
        if (floating) { double d = (double)base; if (variant) d = -(d + 0.25 * (double)(1 + k % 3)); return static_cast<T>(d); }
        if (std::is_signed<T>::value && variant) base = -base;
        return static_cast<T>(base);
    }
    static std::vector<store> mk_ext(std::true_type) {
        return {nanp((T *)nullptr), L::infinity(), -L::infinity(), static_cast<T>(-0.0), L::max(), L::lowest(), L::denorm_min(), L::min(), T(0)};
    }
    static std::vector<store> mk_ext(std::false_type) {
        if (std::is_signed<T>::value) return {L::min(), L::max(), static_cast<T>(-1), T(0), T(1)};
        return {L::max(), static_cast<T>(L::max() / 2 + 1), T(0), T(1)};
    }
    static const std::vector<store> &extremes() { static const std::vector<store> e = mk_ext(std::integral_constant<bool, floating>()); return e; }
    static bool same(const store &a, const store &b) { return std::memcmp(&a, &b, sizeof(T)) == 0; }
    static std::string show(const store &v) {
        char buf[80];
        if (floating) {
            unsigned long long bits = 0; std::memcpy(&bits, &v, sizeof(T));
            snprintf(buf, sizeof buf, sizeof(T) == 4 ? "%.9g[0x%08llx]" : "%.17g[0x%016llx]", (double)v, bits);
            return buf;
        }
        if (std::is_signed<T>::value) return std::to_string((long long)v);
        return std::to_string((unsigned long long)v);
    }
    static bool to_num(const store &v, long double &out) { out = (long double)v; return true; }
    static T typed(const store &s) { return s; }
    static store load(const T *p) { return *p; }
};

template <> struct TT<bool, void> {
    typedef unsigned char store;
    static const bool numeric = false;
    static DataType dt() { return DataType::Bool; }
    static const char *name() { return "Bool"; }
    static store zero() { return 0; }
    static store sentinel() { return 0x5A; }
    static store ordinary(long k, bool variant) { return (store)(((((unsigned long)k * 2654435761UL) >> 7) ^ (variant ? 1UL : 0UL)) & 1UL); }
    static const std::vector<store> &extremes() { static const std::vector<store> e = {1, 0, 1, 1, 0}; return e; }
    static bool same(const store &a, const store &b) { return a == b; }
    static std::string show(const store &v) { if (v == 0) return "false"; if (v == 1) return "true"; char b[16]; snprintf(b, sizeof b, "byte 0x%02x", v); return b; }
    static bool to_num(const store &, long double &) { return false; }
    static bool typed(const store &s) { return s != 0; }
    static store load(const bool *p) { store b; std::memcpy(&b, p, 1); return b; }
};

template <> struct TT<std::string, void> {
    typedef std::string store;
    static const bool numeric = false;
    static DataType dt() { return DataType::String; }
    static const char *name() { return "String"; }
    static store zero() { return ""; }
    static store sentinel() { return "\x01SENTINEL\x02"; }
    static store ordinary(long k, bool variant) { return "s" + std::to_string(k) + std::string((size_t)(k % 4), '#') + (variant ? "~" : ""); }
    static const std::vector<store> &extremes() {
        static std::vector<store> e;
        if (e.empty()) {
            std::string longs;
            for (int k = 0; k < 300; k++) longs += (char)('a' + (k * 7) % 26);
            e = {"", "\xc3\xa4\xe2\x82\xac\xf0\x9d\x84\x9e \xce\xbc", longs, " ", "line1\nline2\t."};
        }
        return e;
    }
    static bool same(const store &a, const store &b) { return a == b; }
    static std::string show(const store &v) { return v.size() > 28 ? vf::jstr(v.substr(0, 24)) + "...(" + std::to_string(v.size()) + " bytes)" : vf::jstr(v); }
    static bool to_num(const store &, long double &) { return false; }
    static const std::string &typed(const store &s) { return s; }
    static store load(const std::string *p) { return *p; }
};

// exactly representable in U?  (v is exact: long double holds every 64 bit integer and every double)
template <typename U> static bool representable(long double v) {
    typedef std::numeric_limits<U> L;
    if (std::is_floating_point<U>::value) {
        if (std::isnan(v) || std::isinf(v)) return true;
        if (fabsl(v) > (long double)L::max()) return false;
        return (long double)static_cast<U>(v) == v;
    }
    if (std::isnan(v) || std::isinf(v)) return false;
    if (v != truncl(v)) return false;
    return v >= (long double)L::min() && v <= (long double)L::max();
}
static bool num_equal(long double a, long double b) { return (std::isnan(a) && std::isnan(b)) || a == b; }

// ------------------------------------------------------------------------------------------------ letters
enum Kind { W_FULL, W_EXTREMES, W_CELL_FIRST, W_CELL_LAST, W_SLAB, APPEND, GROW, SHRINK, SETWHOLE_PLUS, SETWHOLE_MINUS, SETWHOLE_PERM,
            POLY12, POLY001, ORIGIN1, UNSET_POLY, UNSET_ORIGIN, REOPEN };
struct Letter { Kind kind; int axis; int ai; };


static std::string letter_str(const Letter &l) {
    const std::string ax = "axis " + std::to_string(l.axis);
    switch (l.kind) {
    case W_FULL: return "W_full"; case W_EXTREMES: return "W_extremes"; case W_CELL_FIRST: return "W_cell(first)"; case W_CELL_LAST: return "W_cell(last)";
    case W_SLAB: return "W_slab(" + ax + ", last index)"; case APPEND: return "Append(" + ax + ")"; case GROW: return "Grow(" + ax + ")"; case SHRINK: return "Shrink(" + ax + ")";
    case SETWHOLE_PLUS: return "SetWhole(shape+1)"; case SETWHOLE_MINUS: return "SetWhole(shape-1)"; case SETWHOLE_PERM: return "SetWhole(shape reversed)";
    case POLY12: return "Poly([1,2])"; case POLY001: return "Poly([0,0,1])"; case ORIGIN1: return "Origin(1)";
    case UNSET_POLY: return "UnsetPoly"; case UNSET_ORIGIN: return "UnsetOrigin"; case REOPEN: return "REOPEN";
    }
    return "?";
}

// level 0: reduced alphabet; level 1: full alphabet.  At rank >= 3 the reduced alphabet resizes the first and the last
// axis only (writes and appends still address every axis).
static std::vector<Letter> make_alphabet(int rank, bool numeric, int level) {
    std::vector<Letter> A;
    auto add = [&](Kind k, int axis) { A.push_back(Letter{k, axis, 0}); };
    add(W_FULL, 0);
    add(W_EXTREMES, 0);
    if (level >= 1) add(W_CELL_FIRST, 0);
    add(W_CELL_LAST, 0);
    if (rank >= 2) for (int a = 0; a < rank; a++) add(W_SLAB, a);     // at rank 1 this is W_cell(last)
    for (int a = 0; a < rank; a++) add(APPEND, a);
    for (int a = 0; a < rank; a++) { if (level == 0 && rank >= 3 && a != 0 && a != rank - 1) continue; add(GROW, a); }
    for (int a = 0; a < rank; a++) { if (level == 0 && rank >= 3 && a != 0 && a != rank - 1) continue; add(SHRINK, a); }
    add(SETWHOLE_PLUS, 0);
    if (level >= 1) add(SETWHOLE_MINUS, 0);
    if (rank >= 2) add(SETWHOLE_PERM, 0);      // same number of elements, another shape
    if (numeric) {
        add(POLY12, 0);
        if (level >= 1 || rank == 1) add(POLY001, 0);   // rank 1 also at level 0: a longer polynomial replaced by a shorter one
        add(ORIGIN1, 0);
        add(UNSET_POLY, 0);
        if (level >= 1) add(UNSET_ORIGIN, 0);
    }
    add(REOPEN, 0);
    for (size_t i = 0; i < A.size(); i++) A[i].ai = (int)i;
    return A;
}

// enabledness and the extent afterwards depend on the extent only
static bool enabled(const Letter &l, const Ext &e) {
    const size_t n = nelms(e);
    switch (l.kind) {
    case W_FULL: case W_EXTREMES: case W_CELL_FIRST: case W_CELL_LAST: return n > 0;
    case W_SLAB: return n > 0;
    case APPEND: { size_t others = 1; for (size_t i = 0; i < e.size(); i++) if ((int)i != l.axis) others *= e[i]; return others > 0; }
    case GROW: return true;
    case SHRINK: return e[l.axis] >= 1;
    case SETWHOLE_PLUS: for (size_t x : e) if (x > 3) return false; return true;
    case SETWHOLE_MINUS: for (size_t x : e) if (x < 2) return false; return true;
    case SETWHOLE_PERM: { Ext r(e.rbegin(), e.rend()); return r != e; }
    default: return true;
    }
}
static void apply_extent(const Letter &l, Ext &e) {
    switch (l.kind) {
    case APPEND: case GROW: e[l.axis]++; break;
    case SHRINK: e[l.axis]--; break;
    case SETWHOLE_PLUS: for (size_t &x : e) x++; break;
    case SETWHOLE_MINUS: for (size_t &x : e) x--; break;
    case SETWHOLE_PERM: std::reverse(e.begin(), e.end()); break;
    default: break;
    }
}
// is seq a trace (every letter enabled where it stands)?
static bool is_trace(const Ext &init, const std::vector<Letter> &seq) {
    Ext e = init;
    for (const Letter &l : seq) { if (!enabled(l, e)) return false; apply_extent(l, e); }
    return true;
}

// ------------------------------------------------------------------------------------------------ index helpers
// calls f(pos) for every position of a box of the given counts in row-major order
template <typename F> static void for_each_pos(const Ext &cnt, F f) {
    if (nelms(cnt) == 0) return;
    Ext pos(cnt.size(), 0);
    while (true) {
        f(pos);
        size_t a = cnt.size();
        while (a > 0) { a--; if (++pos[a] < cnt[a]) break; pos[a] = 0; if (a == 0) return; }
    }
}
static size_t flat_index(const Ext &ext, const Ext &pos) { size_t k = 0; for (size_t i = 0; i < ext.size(); i++) k = k * ext[i] + pos[i]; return k; }

struct Slab { Ext off, cnt; std::vector<size_t> idx; };   // idx: flat model index of every element of the slab, row-major

static Slab make_slab(const Ext &ext, const Ext &off, const Ext &cnt) {
    Slab s; s.off = off; s.cnt = cnt;
    s.idx.reserve(nelms(cnt));
    Ext p(ext.size());
    for_each_pos(cnt, [&](const Ext &pos) { for (size_t i = 0; i < pos.size(); i++) p[i] = off[i] + pos[i]; s.idx.push_back(flat_index(ext, p)); });
    return s;
}

// the sub-hyperslabs that are read: all of them while every axis <= 3, else whole + faces + corners.  The whole array is first.
static std::vector<Slab> enumerate_slabs(const Ext &ext, bool *all_out) {
    const size_t R = ext.size();
    bool all = true;
    for (size_t x : ext) if (x > 3) all = false;
    if (all_out) *all_out = all;
    std::vector<std::pair<Ext, Ext>> oc;
    std::set<std::pair<Ext, Ext>> seen;
    auto put = [&](const Ext &o, const Ext &c) { if (seen.insert(std::make_pair(o, c)).second) oc.push_back(std::make_pair(o, c)); };
    put(Ext(R, 0), ext);
    if (all) {
        std::vector<std::vector<std::pair<size_t, size_t>>> per(R);
        for (size_t a = 0; a < R; a++) for (size_t c = 1; c <= ext[a]; c++) for (size_t o = 0; o + c <= ext[a]; o++) per[a].push_back(std::make_pair(o, c));
        Ext sel(R, 0);
        while (true) {
            Ext o(R), c(R);
            for (size_t a = 0; a < R; a++) { o[a] = per[a][sel[a]].first; c[a] = per[a][sel[a]].second; }
            put(o, c);
            size_t a = R; bool done = false;
            while (a > 0) { a--; if (++sel[a] < per[a].size()) break; sel[a] = 0; if (a == 0) done = true; }
            if (done) break;
        }
    } else {
        for (size_t a = 0; a < R; a++) for (int side = 0; side < 2; side++) {
            Ext o(R, 0), c = ext; c[a] = 1; o[a] = side ? ext[a] - 1 : 0;
            put(o, c);
        }
        for (size_t mask = 0; mask < ((size_t)1 << R); mask++) {
            Ext o(R, 0), c(R, 1);
            for (size_t a = 0; a < R; a++) if (mask & ((size_t)1 << a)) o[a] = ext[a] - 1;
            put(o, c);
        }
    }
    std::vector<Slab> out;
    for (auto &p : oc) out.push_back(make_slab(ext, p.first, p.second));
    return out;
}

// ------------------------------------------------------------------------------------------------ model
template <typename T> struct Model {
    typedef typename TT<T>::store S;
    Ext ext;
    std::vector<S> cells;
    std::vector<char> written;       // since the cell exists
    std::vector<double> poly;
    bool has_origin = false;
    double origin = 0.0;

    void init(const Ext &e) { ext = e; cells.assign(nelms(e), TT<T>::zero()); written.assign(nelms(e), 0); }
    bool calibrated() const { return !poly.empty() || has_origin; }
    void resize(const Ext &ne) {
        std::vector<S> nc(nelms(ne), TT<T>::zero());
        std::vector<char> nw(nelms(ne), 0);
        Ext common(ext.size());
        for (size_t i = 0; i < ext.size(); i++) common[i] = std::min(ext[i], ne[i]);
        for_each_pos(common, [&](const Ext &pos) { size_t a = flat_index(ext, pos), b = flat_index(ne, pos); nc[b] = cells[a]; nw[b] = written[a]; });
        ext = ne; cells.swap(nc); written.swap(nw);
    }
    void write(const Ext &off, const Ext &cnt, const std::vector<S> &vals) {
        size_t k = 0; Ext p(ext.size());
        for_each_pos(cnt, [&](const Ext &pos) { for (size_t i = 0; i < pos.size(); i++) p[i] = off[i] + pos[i]; size_t c = flat_index(ext, p); cells[c] = vals[k++]; written[c] = 1; });
    }
    // the calibrated value of a stored value x (exact for "simple" x)
    double calibrate(double x) const {
        const double xo = x - (has_origin ? origin : 0.0);
        if (poly.empty()) return xo;
        double value = 0.0, term = 1.0;
        for (double c : poly) { value += c * term; term *= xo; }
        return value;
    }
    std::string cal_class() const { return !poly.empty() && has_origin ? "polynomial and origin" : !poly.empty() ? "polynomial" : has_origin ? "origin" : "no calibration"; }
    std::string key(const std::string &cfg) const {
        std::string k = cfg + "|" + ext_str(ext) + "|";
        for (char w : written) k += w ? 'w' : 'u';
        k += "|p" + std::to_string(poly.size()) + (has_origin ? "o" : "-");
        return k;
    }
};

// ------------------------------------------------------------------------------------------------ configuration
static const char *COMPR_NAME[] = {"Compression::None", "Compression::DeflateNormal", "Compression::Auto in a DeflateNormal file"};
struct Config {
    int type;        // index in TYPE_ORDER
    int rank;
    int compr;       // 0 None, 1 DeflateNormal, 2 Auto (file opened with DeflateNormal)
    Ext init;
    int depth;
    int level;       // alphabet level
    std::string family;
};

// what HDF5 says about the dataset's layout (chunk size, filters): coverage information only
static std::string storage_info(const std::string &path) {
    std::string out = "?";
    hid_t f = H5Fopen(path.c_str(), H5F_ACC_RDONLY, H5P_DEFAULT);
    if (f < 0) return out;
    hid_t d = H5Dopen2(f, "/data/blk/data_arrays/arr/data", H5P_DEFAULT);
    if (d >= 0) {
        hid_t p = H5Dget_create_plist(d);
        if (p >= 0) {
            hsize_t ch[8] = {0};
            int r = H5Pget_layout(p) == H5D_CHUNKED ? H5Pget_chunk(p, 8, ch) : 0;
            out = "chunk=[";
            for (int i = 0; i < r; i++) out += (i ? "," : "") + std::to_string((unsigned long long)ch[i]);
            out += "] filters=" + std::to_string(H5Pget_nfilters(p));
            H5Pclose(p);
        }
        H5Dclose(d);
    }
    H5Fclose(f);
    return out;
}

// ------------------------------------------------------------------------------------------------ runner
template <typename T>
struct Runner {
    typedef TT<T> X;
    typedef typename X::store S;
    typedef std::integral_constant<bool, X::numeric> is_num;
    typedef std::integral_constant<bool, std::is_same<T, bool>::value> is_bool;

    const Config cfg;
    const size_t rank;
    const std::string path;
    const std::string tn;            // type name
    const std::string cfgkey;
    Runner(const Config &c) : cfg(c), rank((size_t)c.rank), path(vf::scratch_file("c01.h5")), tn(X::name()),
                              cfgkey(tn + "|r" + std::to_string(c.rank) + "|c" + std::to_string(c.compr) + "|" + ext_str(c.init)) {}

    bool quiet = false;
    long nviol = 0;
    void viol(const std::string &sig, const std::string &what) { nviol++; if (!quiet) vf::violation(sig, what); }
    void tally(const char *name, long n = 1) { if (!quiet) vf::count(name, n); }
    void dst(const char *bucket, const std::string &v) { if (!quiet) vf::distinct(bucket, v); }

    uint64_t rot = 0;
    std::string trace;
    std::string lastop;

    Compression file_compr() const { return cfg.compr == 2 ? Compression::DeflateNormal : Compression::Auto; }
    Compression array_compr() const { return cfg.compr == 0 ? Compression::None : cfg.compr == 1 ? Compression::DeflateNormal : Compression::Auto; }
    NDSize ones() const { return NDSize(rank, 1); }

    // ---------------------------------------------------------------- typed containers
    template <size_t N> static void ma_write(DataArray &h, const Ext &cnt, const Ext *off, const std::vector<S> &vals) {
        boost::array<typename boost::multi_array<T, N>::index, N> sh;
        for (size_t i = 0; i < N; i++) sh[i] = (typename boost::multi_array<T, N>::index)cnt[i];
        boost::multi_array<T, N> a(sh);
        for (size_t i = 0; i < vals.size(); i++) a.data()[i] = X::typed(vals[i]);
        if (off) h.setData(a, nd(*off)); else h.setData(a);
    }
    static void vec_write(DataArray &h, const Ext *off, const std::vector<S> &vals, std::false_type) {
        std::vector<T> v;
        for (auto &x : vals) v.push_back(X::typed(x));
        if (off) h.setData(v, nd(*off)); else h.setData(v);
    }
    static void vec_write(DataArray &, const Ext *, const std::vector<S> &, std::true_type) {}   // std::vector<bool> has no data()
    // the container a typed access goes through: wish 0 = multi_array, 1 = std::vector, 2 = native array T[2] / T[3]; vectors and
    // native arrays at rank 1 only (native arrays for 2 or 3 elements), multi_array otherwise
    enum CK { CK_MA = 0, CK_VEC = 1, CK_NAT = 2 };
    CK container_kind(int wish, const Ext &cnt) const {
        if (rank == 1 && wish == 1 && !is_bool::value) return CK_VEC;
        if (rank == 1 && wish == 2 && (cnt[0] == 2 || cnt[0] == 3)) return CK_NAT;
        return CK_MA;
    }
    static const char *ck_name(CK k) { return k == CK_VEC ? "std::vector" : k == CK_NAT ? "native array" : "multi_array"; }
    template <size_t N> static void nat_write(DataArray &h, const Ext *off, const std::vector<S> &vals) {
        T a[N];
        for (size_t i = 0; i < N; i++) a[i] = X::typed(vals[i]);
        if (off) h.setData(a, nd(*off)); else h.setData(a);
    }
    template <size_t N> static void nat_read(const DataArray &h, int mode, const Slab &s, const std::vector<S> &prefill, std::vector<S> &out, Ext &shape) {
        T a[N];
        for (size_t i = 0; i < N; i++) a[i] = X::typed(prefill[i]);
        if (mode == 0) h.getData(a); else if (mode == 1) h.getData(a, nd(s.cnt), nd(s.off)); else h.getData(a, nd(s.off));
        shape.assign(1, N);
        out.resize(N);
        for (size_t i = 0; i < N; i++) out[i] = X::load(a + i);
    }
    void container_write(DataArray &h, const Ext &cnt, const Ext *off, const std::vector<S> &vals, int wish) {
        const CK ck = container_kind(wish, cnt);
        if (ck == CK_VEC) { vec_write(h, off, vals, is_bool()); return; }
        if (ck == CK_NAT) { if (cnt[0] == 2) nat_write<2>(h, off, vals); else nat_write<3>(h, off, vals); return; }
        switch (rank) {
        case 1: ma_write<1>(h, cnt, off, vals); break;
        case 2: ma_write<2>(h, cnt, off, vals); break;
        case 3: ma_write<3>(h, cnt, off, vals); break;
        case 4: ma_write<4>(h, cnt, off, vals); break;
        }
    }
    // mode 0: getData(container) (whole array); 1: getData(container, count, offset); 2: getData(pre-sized container, offset)
    template <size_t N> static void ma_read(const DataArray &h, int mode, const Slab &s, const std::vector<S> &prefill, std::vector<S> &out, Ext &shape) {
        boost::array<typename boost::multi_array<T, N>::index, N> sh;
        for (size_t i = 0; i < N; i++) sh[i] = (typename boost::multi_array<T, N>::index)s.cnt[i];
        boost::multi_array<T, N> a(sh);
        for (size_t i = 0; i < prefill.size(); i++) a.data()[i] = X::typed(prefill[i]);
        if (mode == 0) h.getData(a); else if (mode == 1) h.getData(a, nd(s.cnt), nd(s.off)); else h.getData(a, nd(s.off));
        shape.assign(a.shape(), a.shape() + N);
        out.resize(a.num_elements());
        for (size_t i = 0; i < out.size(); i++) out[i] = X::load(a.data() + i);
    }
    static void vec_read(const DataArray &h, int mode, const Slab &s, const std::vector<S> &prefill, std::vector<S> &out, Ext &shape, std::false_type) {
        std::vector<T> v;
        for (auto &x : prefill) v.push_back(X::typed(x));
        if (mode == 0) h.getData(v); else if (mode == 1) h.getData(v, nd(s.cnt), nd(s.off)); else h.getData(v, nd(s.off));
        shape.assign(1, v.size());
        out.resize(v.size());
        for (size_t i = 0; i < out.size(); i++) out[i] = X::load(v.data() + i);
    }
    static void vec_read(const DataArray &, int, const Slab &, const std::vector<S> &, std::vector<S> &, Ext &, std::true_type) {}
    void container_read(const DataArray &h, int mode, const Slab &s, const std::vector<S> &prefill, std::vector<S> &out, Ext &shape, int wish) {
        const CK ck = container_kind(wish, s.cnt);
        if (ck == CK_VEC) { vec_read(h, mode, s, prefill, out, shape, is_bool()); return; }
        if (ck == CK_NAT) { if (s.cnt[0] == 2) nat_read<2>(h, mode, s, prefill, out, shape); else nat_read<3>(h, mode, s, prefill, out, shape); return; }
        switch (rank) {
        case 1: ma_read<1>(h, mode, s, prefill, out, shape); break;
        case 2: ma_read<2>(h, mode, s, prefill, out, shape); break;
        case 3: ma_read<3>(h, mode, s, prefill, out, shape); break;
        case 4: ma_read<4>(h, mode, s, prefill, out, shape); break;
        }
    }

    // ---------------------------------------------------------------- one trace
    // executes the steps on a fresh file; with report: counts, and checks every read path after the LAST step.
    // returns true iff nothing was wrong (the trace may be extended)
    bool run(const std::vector<Letter> &steps, bool report, bool quietly = false) {
        vf::set_clock(1500000000);
        quiet = quietly; nviol = 0;
        Model<T> m; m.init(cfg.init);
        long k = 0; int nwrites = 0; uint64_t h = 7;
        trace = "create(" + tn + ", extent " + ext_str(cfg.init) + ", " + COMPR_NAME[cfg.compr] + ")";
        lastop = "createDataArray";
        std::string what, exc;
        File f = File::open(path, FileMode::Overwrite, "hdf5", file_compr());
        Block b = f.createBlock("blk", "t");
        DataArray K;
        exc = vf::guarded([&] { K = b.createDataArray("arr", "t", X::dt(), nd(cfg.init), array_compr()); }, &what);
        if (!exc.empty() || !K) {
            if (report) viol("C01|createDataArray|" + tn + "|creation succeeds|" + (exc.empty() ? "uninitialised handle" : exc), trace + ": " + what);
            K = nix::none; b = nix::none; f.close();
            return false;
        }
        bool readonly = false;
        for (size_t si = 0; si < steps.size(); si++) {
            const Letter &l = steps[si];
            const bool last = si + 1 == steps.size();
            const bool rep = last && report;
            vf::set_clock(1500000000 + (long)si + 1);
            h = h * 31 + (uint64_t)l.ai + 1;
            if (!enabled(l, m.ext)) { K = nix::none; b = nix::none; f.close(); return false; }
            const bool typed = ((si + (size_t)l.ai) & 1) != 0;
            const int wish = (int)((h >> 4) % 3);
            const bool variant = (nwrites & 1) != 0;
            Ext off(rank, 0), cnt = m.ext, newext = m.ext;
            std::vector<S> vals;
            std::string ops, how;
            bool single = false;
            switch (l.kind) {
            case W_FULL: ops = "W_full"; break;
            case W_EXTREMES: ops = "W_extremes"; break;
            case W_CELL_FIRST: ops = "W_cell"; cnt.assign(rank, 1); single = true; break;
            case W_CELL_LAST: ops = "W_cell"; cnt.assign(rank, 1); for (size_t i = 0; i < rank; i++) off[i] = m.ext[i] - 1; single = true; break;
            case W_SLAB: ops = "W_slab"; cnt[l.axis] = 1; off[l.axis] = m.ext[l.axis] - 1; break;
            case APPEND: ops = "appendData"; cnt[l.axis] = 1; newext[l.axis]++; break;
            case SETWHOLE_PLUS: ops = "setData(container) with a larger shape"; for (size_t &x : cnt) x++; newext = cnt; break;
            case SETWHOLE_MINUS: ops = "setData(container) with a smaller shape"; for (size_t &x : cnt) x--; newext = cnt; break;
            case SETWHOLE_PERM: ops = "setData(container) with the shape reversed (same number of elements)"; std::reverse(cnt.begin(), cnt.end()); newext = cnt; break;
            case GROW: ops = "dataExtent(grow)"; newext[l.axis]++; break;
            case SHRINK: ops = "dataExtent(shrink)"; newext[l.axis]--; break;
            case POLY12: case POLY001: ops = "polynomCoefficients(c)"; break;
            case ORIGIN1: ops = "expansionOrigin(o)"; break;
            case UNSET_POLY: ops = "polynomCoefficients(none)"; break;
            case UNSET_ORIGIN: ops = "expansionOrigin(none)"; break;
            case REOPEN: ops = "REOPEN"; break;
            }
            const bool is_write = l.kind <= W_SLAB || l.kind == APPEND || l.kind == SETWHOLE_PLUS || l.kind == SETWHOLE_MINUS || l.kind == SETWHOLE_PERM;
            if (is_write) {
                const size_t n = nelms(cnt);
                const std::vector<S> &E = X::extremes();
                for (size_t i = 0; i < n; i++) {
                    if (l.kind == W_EXTREMES) vals.push_back(E[((size_t)k + i) % E.size()]);
                    else vals.push_back(X::ordinary(k + (long)i, variant));
                }
                k += (long)n;
                nwrites++;
                if (l.kind == APPEND) how = "untyped";
                else if (l.kind == SETWHOLE_PLUS || l.kind == SETWHOLE_MINUS || l.kind == SETWHOLE_PERM) how = ck_name(container_kind(wish, cnt));
                else if (!typed) how = "untyped";
                else how = single ? "scalar" : ck_name(container_kind(wish, cnt));
                if (l.kind <= W_SLAB) ops += "(" + how + ")";
            }
            trace += " ; " + letter_str(l);
            if (is_write) {
                trace += "@" + how + "<-[";
                for (size_t i = 0; i < vals.size() && i < 4; i++) trace += (i ? "," : "") + X::show(vals[i]);
                trace += vals.size() > 4 ? ",...(" + std::to_string(vals.size()) + " values)]" : "]";
            }
            if (l.kind == REOPEN) {
                readonly = last && ((h >> 5) & 1);
                if (readonly) trace += "(ReadOnly)";
                K = nix::none; b = nix::none;
                f.close();
                f = File::open(path, readonly ? FileMode::ReadOnly : FileMode::ReadWrite, "hdf5", file_compr());
                exc = vf::guarded([&] { b = f.getBlock("blk"); K = b.getDataArray("arr"); }, &what);
                if (!exc.empty() || !K) {
                    if (rep) viol("C01|REOPEN|" + tn + "|the array is found after reopen|" + (exc.empty() ? "not found" : exc), trace + ": " + what);
                    K = nix::none; b = nix::none; f.close();
                    return false;
                }
                lastop = ops;
                if (rep) {
                    tally("steps_checked");
                    dst("outcomes", ops + (readonly ? "(ReadOnly)" : "(ReadWrite)") + "|" + tn + "|accepted");
                    if (vf::opt.verbose) fprintf(stderr, "C01 %strace: %s => accepted\n", quiet ? "(quiet) " : "", trace.c_str());
                }
                continue;
            }
            // writer: the kept handle at even positions, a freshly fetched one at odd positions
            DataArray W = K;
            if (si % 2 == 1) {
                exc = vf::guarded([&] { W = b.getDataArray("arr"); }, &what);
                if (!exc.empty() || !W) {
                    if (rep) viol("C01|Block::getDataArray|" + tn + "|the array is found by name|" + (exc.empty() ? "not found" : exc), trace);
                    W = nix::none; K = nix::none; b = nix::none; f.close();
                    return false;
                }
            }
            exc = vf::guarded([&] {
                switch (l.kind) {
                case W_FULL: case W_EXTREMES: case W_SLAB:
                    if (typed) container_write(W, cnt, &off, vals, wish);
                    else W.setData(X::dt(), vals.data(), nd(cnt), nd(off));
                    break;
                case W_CELL_FIRST: case W_CELL_LAST:
                    if (typed) { T x = X::typed(vals[0]); W.setData(x, nd(off)); }
                    else W.setData(X::dt(), vals.data(), nd(cnt), nd(off));
                    break;
                case APPEND: W.appendData(X::dt(), vals.data(), nd(cnt), (size_t)l.axis); break;
                case SETWHOLE_PLUS: case SETWHOLE_MINUS: case SETWHOLE_PERM: container_write(W, cnt, nullptr, vals, wish); break;
                case GROW: case SHRINK: W.dataExtent(nd(newext)); break;
                case POLY12: W.polynomCoefficients(std::vector<double>{1.0, 2.0}); break;
                case POLY001: W.polynomCoefficients(std::vector<double>{0.0, 0.0, 1.0}); break;
                case ORIGIN1: W.expansionOrigin(1.0); break;
                case UNSET_POLY: W.polynomCoefficients(nix::none); break;
                case UNSET_ORIGIN: W.expansionOrigin(nix::none); break;
                default: break;
                }
            }, &what);
            W = nix::none;
            lastop = ops;
            if (rep) {
                tally("steps_checked");
                dst("outcomes", ops + "|" + tn + "|" + (exc.empty() ? "accepted" : exc));
                if (is_write) dst("values", tn + "|" + (l.kind == W_EXTREMES ? "extremes" : variant ? "ordinary, variant" : "ordinary"));
                if (vf::opt.verbose) fprintf(stderr, "C01 %strace: %s => %s %s\n", quiet ? "(quiet) " : "", trace.c_str(), exc.empty() ? "accepted" : exc.c_str(), exc.empty() ? "" : what.c_str());
            }
            if (!exc.empty()) {
                if (rep) viol("C01|" + ops + "|" + tn + "|legal operation rejected|" + exc, trace + " threw " + exc + ": " + what);
                K = nix::none; b = nix::none; f.close();
                return false;      // the trace is not extended past the first failing step
            }
            // the model
            switch (l.kind) {
            case W_FULL: case W_EXTREMES: case W_SLAB: case W_CELL_FIRST: case W_CELL_LAST: m.write(off, cnt, vals); break;
            case APPEND: { Ext o(rank, 0); o[l.axis] = m.ext[l.axis]; m.resize(newext); m.write(o, cnt, vals); break; }
            case SETWHOLE_PLUS: case SETWHOLE_MINUS: case SETWHOLE_PERM: m.resize(newext); m.write(Ext(rank, 0), cnt, vals); break;
            case GROW: case SHRINK: m.resize(newext); break;
            case POLY12: m.poly = {1.0, 2.0}; break;
            case POLY001: m.poly = {0.0, 0.0, 1.0}; break;
            case ORIGIN1: m.has_origin = true; m.origin = 1.0; break;
            case UNSET_POLY: m.poly.clear(); break;
            case UNSET_ORIGIN: m.has_origin = false; m.origin = 0.0; break;
            default: break;
            }
        }
        rot = h >> 1;
        if (report) {
            check(b, K, m);
            dst("states", m.key(cfgkey));
        }
        K = nix::none; b = nix::none;
        f.close();
        return nviol == 0;
    }

    // ---------------------------------------------------------------- the oracle
    struct Wrong { bool kept; std::string path; S got; };
    struct CellStat { int reads = 0; std::vector<Wrong> wrong; };
    std::vector<CellStat> stat;

    std::string ctx() const { return trace; }
    static const char *who(bool kept) { return kept ? "kept handle" : "fresh handle"; }

    void see(const Model<T> &m, bool kept, const std::string &p, size_t cell, const S &got) {
        CellStat &c = stat[cell];
        c.reads++;
        if (!X::same(got, m.cells[cell])) c.wrong.push_back(Wrong{kept, p, got});
    }
    void read_throws(bool kept, const std::string &p, const std::string &exc, const std::string &what, const Slab &s) {
        viol("C01|" + p + "|" + tn + "|read of existing cells throws|" + exc,
             ctx() + " ; then " + who(kept) + " " + p + "(offset " + ext_str(s.off) + ", count " + ext_str(s.cnt) + ") threw " + exc + ": " + what);
    }
    // raw comparison of a read result (the first s.idx.size() elements) with the model's cells
    void verify_raw(const Model<T> &m, bool kept, const std::string &p, const Slab &s, const std::vector<S> &got) {
        for (size_t i = 0; i < s.idx.size(); i++) see(m, kept, p, s.idx[i], got[i]);
        tally("cell_reads", (long)s.idx.size());
    }
    void check_guards(bool kept, const std::string &p, const Slab &s, const std::vector<S> &buf) {
        for (size_t i = s.idx.size(); i < buf.size(); i++)
            if (!X::same(buf[i], X::sentinel()))
                viol("C01|" + p + "|" + tn + "|elements beyond the requested count are untouched|overwritten",
                     ctx() + " ; then " + who(kept) + " " + p + "(offset " + ext_str(s.off) + ", count " + ext_str(s.cnt) + ") changed element " + std::to_string(i) + " of a buffer of " + std::to_string(s.idx.size()) + " requested elements to " + X::show(buf[i]));
    }
    // the value class of a stored numeric value under the current calibration, as type U: expected value or don't-care
    template <typename U> bool expected_as(const Model<T> &m, size_t cell, long double &want) const {
        long double x;
        if (!X::to_num(m.cells[cell], x)) return false;
        if (m.calibrated()) {
            if (std::isnan(x) || std::isinf(x) || fabsl(x) > 1048576.0L || 4.0L * x != truncl(4.0L * x)) return false;   // exact only for small dyadic values
            want = (long double)m.calibrate((double)x);
        } else want = x;
        return representable<U>(want);
    }
    // comparison of a read as numeric type U (cross-type and / or calibrated) with the model
    template <typename U> void verify_conv(const Model<T> &m, bool kept, const std::string &p, const Slab &s, const std::vector<U> &got) {
        const std::string un = TT<U>::name();
        size_t bad = 0; std::string first_sig, first_what;
        for (size_t i = 0; i < s.idx.size(); i++) {
            long double want;
            if (!stat[s.idx[i]].wrong.empty()) continue;      // the raw reads already found the stored value wrong: reported there
            if (!expected_as<U>(m, s.idx[i], want)) { tally("conv_cells_dontcare"); continue; }
            tally("conv_cells_checked");
            if (num_equal((long double)got[i], want)) continue;
            if (bad++) continue;
            long double x = 0; X::to_num(m.cells[s.idx[i]], x);
            std::string dev = TT<U>::same(got[i], TT<U>::sentinel()) ? "sentinel left in the buffer"
                              : (m.calibrated() && num_equal((long double)got[i], x)) ? "stored value, calibration not applied" : "different value";
            // the class of the failure: requested type, element type, calibrated or not (the read path and the kind of calibration are part of the instance)
            first_sig = "C01|getData as " + un + "|" + tn + " array, " + (m.calibrated() ? "calibrated" : "no calibration") + "|" +
                        (m.calibrated() ? "calibrated read equals the polynomial at (stored - origin) converted to the requested type" : "read as another numeric type equals the stored value") + "|" + dev;
            first_what = who(kept) + std::string(" ") + p + " as " + un + " (offset " + ext_str(s.off) + ", count " + ext_str(s.cnt) + ") element " + std::to_string(i) + " = " + TT<U>::show(got[i]) +
                         ", stored " + X::show(m.cells[s.idx[i]]) + ", " + m.cal_class() + ", expected " + std::to_string((double)want);
        }
        if (bad) viol(first_sig, ctx() + " ; then " + first_what + (bad > 1 ? " (first of " + std::to_string(bad) + " such elements)" : ""));
    }
    // typed reads return T: raw when there is no calibration, else calibrated values as T (numeric T only)
    void verify_typed(const Model<T> &m, bool kept, const std::string &p, const Slab &s, const std::vector<S> &got) {
        if (!m.calibrated()) verify_raw(m, kept, p, s, got);
        else verify_typed_conv(m, kept, p, s, got, is_num());
    }
    void verify_typed_conv(const Model<T> &m, bool kept, const std::string &p, const Slab &s, const std::vector<S> &got, std::true_type) { verify_conv<T>(m, kept, p, s, got); }
    void verify_typed_conv(const Model<T> &, bool, const std::string &, const Slab &, const std::vector<S> &, std::false_type) {}

    // untyped read of a slab as the array's own type: getData or getDataDirect
    void read_own(const DataArray &h, const Model<T> &m, bool kept, bool direct, const Slab &s) {
        const std::string p = direct ? "getDataDirect(untyped)" : "getData(untyped)";
        std::vector<S> buf(s.idx.size() + 2, X::sentinel());
        std::string what;
        std::string exc = vf::guarded([&] { if (direct) h.getDataDirect(X::dt(), buf.data(), nd(s.cnt), nd(s.off)); else h.getData(X::dt(), buf.data(), nd(s.cnt), nd(s.off)); }, &what);
        tally("read_calls");
        if (!exc.empty()) { read_throws(kept, p, exc, what, s); return; }
        check_guards(kept, p, s, buf);
        if (direct || !m.calibrated()) verify_raw(m, kept, p, s, buf);
        else verify_typed_conv(m, kept, p, s, buf, is_num());
    }
    // untyped read of a slab as numeric type U
    template <typename U> void read_as(const DataArray &h, const Model<T> &m, bool kept, const Slab &s) {
        const std::string p = "getData(untyped)";
        std::vector<U> buf(s.idx.size() + 2, TT<U>::sentinel());
        std::string what;
        std::string exc = vf::guarded([&] { h.getData(TT<U>::dt(), buf.data(), nd(s.cnt), nd(s.off)); }, &what);
        tally("read_calls");
        if (!exc.empty()) {
            viol("C01|" + p + " as " + TT<U>::name() + "|" + tn + " array, " + m.cal_class() + "|read of a numeric array as a numeric type throws|" + exc, ctx() + " ; then " + who(kept) + " threw " + exc + ": " + what);
            return;
        }
        for (size_t i = s.idx.size(); i < buf.size(); i++)
            if (!TT<U>::same(buf[i], TT<U>::sentinel()))
                viol("C01|" + p + " as " + TT<U>::name() + "|" + tn + " array|elements beyond the requested count are untouched|overwritten", ctx() + " ; then " + who(kept) + " guard element " + std::to_string(i) + " changed");
        verify_conv<U>(m, kept, p, s, buf);
    }
    void read_as_all(const DataArray &h, const Model<T> &m, bool kept, const Slab &s, std::true_type) {
        // without calibration the own type is covered by the raw reads
        const bool cal = m.calibrated();
        if (cal || X::dt() != DataType::Int8) read_as<int8_t>(h, m, kept, s);
        if (cal || X::dt() != DataType::Int16) read_as<int16_t>(h, m, kept, s);
        if (cal || X::dt() != DataType::Int32) read_as<int32_t>(h, m, kept, s);
        if (cal || X::dt() != DataType::Int64) read_as<int64_t>(h, m, kept, s);
        if (cal || X::dt() != DataType::UInt8) read_as<uint8_t>(h, m, kept, s);
        if (cal || X::dt() != DataType::UInt16) read_as<uint16_t>(h, m, kept, s);
        if (cal || X::dt() != DataType::UInt32) read_as<uint32_t>(h, m, kept, s);
        if (cal || X::dt() != DataType::UInt64) read_as<uint64_t>(h, m, kept, s);
        if (cal || X::dt() != DataType::Float) read_as<float>(h, m, kept, s);
        if (cal || X::dt() != DataType::Double) read_as<double>(h, m, kept, s);
    }
    void read_as_all(const DataArray &, const Model<T> &, bool, const Slab &, std::false_type) {}

    // pre-fill of a typed container: the sentinel; for bool (no spare value) the opposite of what is expected
    void invert_expected(std::vector<S> &p, const Model<T> &m, const Slab &s, std::true_type) const { for (size_t i = 0; i < p.size(); i++) p[i] = m.cells[s.idx[i]] ? 0 : 1; }
    void invert_expected(std::vector<S> &, const Model<T> &, const Slab &, std::false_type) const {}
    std::vector<S> prefill_for(const Model<T> &m, const Slab &s) const {
        std::vector<S> p(s.idx.size(), X::sentinel());
        invert_expected(p, m, s, is_bool());
        return p;
    }
    void typed_container(const DataArray &h, const Model<T> &m, bool kept, int mode, const Slab &s, int wish) {
        const CK ck = container_kind(wish, s.cnt);
        const bool vec = ck != CK_MA;
        const std::string p = std::string(mode == 0 ? "getData(" : mode == 1 ? "getData(count, offset, " : "getData(offset, pre-sized ") + ck_name(ck) + ")";
        std::vector<S> got; Ext shape;
        std::string what;
        std::string exc = vf::guarded([&] { container_read(h, mode, s, prefill_for(m, s), got, shape, wish); }, &what);
        tally("read_calls");
        if (!exc.empty()) { read_throws(kept, p, exc, what, s); return; }
        Ext want_shape = vec ? Ext(1, s.idx.size()) : s.cnt;
        if (shape != want_shape || got.size() != s.idx.size()) {
            viol("C01|" + p + "|" + tn + "|shape of the result container|differs", ctx() + " ; then " + who(kept) + " " + p + " left a container of shape " + ext_str(shape) + ", expected " + ext_str(want_shape));
            return;
        }
        verify_typed(m, kept, p, s, got);
    }
    void typed_line(const DataArray &h, const Model<T> &m, bool kept, const Slab &s, std::false_type) {
        const std::string p = "getData(count, offset, std::vector line)";
        std::vector<S> got; Ext shape;
        std::string what;
        std::string exc = vf::guarded([&] { vec_read(h, 1, s, prefill_for(m, s), got, shape, std::false_type()); }, &what);
        tally("read_calls");
        if (!exc.empty()) { read_throws(kept, p, exc, what, s); return; }
        if (got.size() != s.idx.size()) { viol("C01|" + p + "|" + tn + "|shape of the result container|differs", ctx() + " ; then " + who(kept) + " " + p + " left " + std::to_string(got.size()) + " elements, expected " + std::to_string(s.idx.size())); return; }
        verify_typed(m, kept, p, s, got);
    }
    void typed_line(const DataArray &, const Model<T> &, bool, const Slab &, std::true_type) {}
    void typed_scalar(const DataArray &h, const Model<T> &m, bool kept, int mode, const Slab &s) {
        const std::string p = mode == 0 ? "getData(offset, scalar)" : "getData(count, offset, scalar)";
        std::vector<S> got(1);
        std::vector<S> pre = prefill_for(m, s);
        std::string what;
        std::string exc = vf::guarded([&] {
            T x = X::typed(pre[0]);
            if (mode == 0) h.getData(x, nd(s.off)); else h.getData(x, ones(), nd(s.off));
            got[0] = X::load(&x);
        }, &what);
        tally("read_calls");
        if (!exc.empty()) { read_throws(kept, p, exc, what, s); return; }
        verify_typed(m, kept, p, s, got);
    }

    void check_handle(const DataArray &h, bool kept, bool full, const Model<T> &m) {
        const std::string after = "after " + lastop;
        std::string what, exc;
        // ---- extent and type ----
        tally("shape_checks");
        NDSize e;
        exc = vf::guarded([&] { e = h.dataExtent(); }, &what);
        tally("read_calls");
        bool ext_ok = exc.empty() && e.size() == rank;
        if (ext_ok) for (size_t i = 0; i < rank; i++) if (e[i] != (ndsize_t)m.ext[i]) ext_ok = false;
        if (!ext_ok) {
            std::string got = "?";
            if (exc.empty()) { Ext g; for (size_t i = 0; i < e.size(); i++) g.push_back((size_t)e[i]); got = ext_str(g); }
            viol("C01|dataExtent()|" + after + ", " + tn + "|extent equals the model's|" + (exc.empty() ? "differs" : exc), ctx() + " ; then " + who(kept) + " dataExtent() = " + got + " expected " + ext_str(m.ext) + " " + what);
            return;
        }
        DataType t = DataType::Nothing;
        exc = vf::guarded([&] { t = h.dataType(); }, &what);
        tally("read_calls");
        if (!exc.empty() || t != X::dt())
            viol("C01|dataType()|" + after + ", " + tn + "|element type equals the creation type|" + (exc.empty() ? std::string("reports ") + dtname(t) : exc), ctx() + " ; then " + who(kept) + " dataType() = " + dtname(t));
        const size_t n = nelms(m.ext);
        if (n == 0) {
            // no cell exists.  Whether a read of nothing is served is not part of the statement; if the typed whole-array read
            // returns, the container must be empty
            if (!full) return;
            Slab s = make_slab(m.ext, Ext(rank, 0), m.ext);
            std::vector<S> got; Ext shape;
            exc = vf::guarded([&] { container_read(h, 0, s, std::vector<S>(), got, shape, (int)(rot & 1)); }, &what);
            tally("read_calls");
            dst("outcomes", "typed whole read of an array without cells|" + tn + "|" + (exc.empty() ? "returns" : exc));
            if (exc.empty() && !got.empty())
                viol("C01|getData(container)|" + tn + ", array without cells|the result container is empty|has elements", ctx() + " ; then " + who(kept) + " returned " + std::to_string(got.size()) + " elements for extent " + ext_str(m.ext));
            return;
        }
        bool all = false;
        std::vector<Slab> slabs = enumerate_slabs(m.ext, &all);
        if (!kept || full) dst("slab_sets", (all ? "all " : "whole+faces+corners ") + std::to_string(slabs.size()));
        const Slab &whole = slabs[0];
        if (!full) {
            read_own(h, m, kept, true, whole);
            read_own(h, m, kept, false, whole);
            return;
        }
        // ---- every sub-hyperslab through the untyped getData; getDataDirect on the whole array and a rotating quarter ----
        for (size_t si = 0; si < slabs.size(); si++) {
            if (si == 0 || si % 4 == rot % 4) read_own(h, m, kept, true, slabs[si]);
            read_own(h, m, kept, false, slabs[si]);
        }
        // ---- typed reads ----
        const int wv = (int)(rot % 3);
        typed_container(h, m, kept, 0, whole, wv);
        if (slabs.size() > 1) {
            const Slab &a = slabs[1 + (rot >> 1) % (slabs.size() - 1)];
            const Slab &c = slabs[1 + (rot >> 5) % (slabs.size() - 1)];
            typed_container(h, m, kept, 1, a, (wv + 1) % 3);
            typed_container(h, m, kept, 2, c, (wv + 2) % 3);
            // a line: a slab with at most one axis longer than 1
            for (size_t j = 0; j < slabs.size(); j++) {
                const Slab &ln = slabs[(j + (rot >> 9)) % slabs.size()];
                size_t longaxes = 0; for (size_t x : ln.cnt) if (x > 1) longaxes++;
                if (longaxes > 1) continue;
                typed_line(h, m, kept, ln, is_bool());
                break;
            }
        } else {
            typed_container(h, m, kept, 1, whole, (wv + 1) % 3);
        }
        {
            Ext lastpos(rank); for (size_t i = 0; i < rank; i++) lastpos[i] = m.ext[i] - 1;
            Slab first = make_slab(m.ext, Ext(rank, 0), Ext(rank, 1)), lastc = make_slab(m.ext, lastpos, Ext(rank, 1));
            typed_scalar(h, m, kept, 0, first);
            typed_scalar(h, m, kept, (int)(rot >> 2) & 1, lastc);
        }
        // ---- the whole array as every numeric type ----
        read_as_all(h, m, kept, whole, is_num());
    }

    std::string deviation(const Model<T> &m, size_t cell, const S &got) const {
        if (X::same(got, X::sentinel())) return "sentinel left in the buffer";
        return deviation2(m, cell, got, is_bool());
    }
    std::string deviation2(const Model<T> &, size_t, const S &got, std::true_type) const { return got > 1 ? "byte that is neither 0 nor 1" : "wrong truth value"; }
    std::string deviation2(const Model<T> &m, size_t cell, const S &got, std::false_type) const {
        const bool zero = X::same(got, X::zero());
        if (!zero) {
            // the value of another cell?
            Ext pos(rank); size_t c = cell;
            for (size_t i = rank; i-- > 0;) { pos[i] = c % m.ext[i]; c /= m.ext[i]; }
            for (size_t o = 0; o < m.cells.size(); o++) {
                if (o == cell || !m.written[o] || !X::same(m.cells[o], got)) continue;
                Ext po(rank); size_t cc = o;
                for (size_t i = rank; i-- > 0;) { po[i] = cc % m.ext[i]; cc /= m.ext[i]; }
                size_t diffaxes = 0, dist = 0;
                for (size_t i = 0; i < rank; i++) if (po[i] != pos[i]) { diffaxes++; dist = po[i] > pos[i] ? po[i] - pos[i] : pos[i] - po[i]; }
                if (diffaxes == 1 && dist == 1) return "value of a neighbouring cell";
                return "value of another cell";
            }
        }
        if (zero) return "zero/empty instead of the written value";
        if (!m.written[cell]) return "non-zero value in a never-written cell";
        return "neither the value written last nor another cell's";
    }

    void check(Block &b, DataArray &kept, const Model<T> &m) {
        stat.assign(m.cells.size(), CellStat());
        tally("invariant_checks");
        const bool kept_full = ((rot >> 3) & 1) == 0;
        check_handle(kept, true, kept_full, m);
        DataArray fresh;
        std::string what;
        std::string exc = vf::guarded([&] { fresh = b.getDataArray("arr"); }, &what);
        if (!exc.empty() || !fresh) viol("C01|Block::getDataArray|after " + lastop + ", " + tn + "|the array is found by name|" + (exc.empty() ? "not found" : exc), ctx());
        else check_handle(fresh, false, !kept_full, m);
        fresh = nix::none;
        // ---- verdict per cell: the FIRST cell that every raw read returns wrongly in the same way (what is stored is not what
        // the history says), and for every read path that disagrees with the others its first deviating cell ----
        size_t stored_wrong = 0; std::string stored_sig, stored_what;
        std::map<std::string, std::pair<std::string, std::string>> path_first;
        std::map<std::string, size_t> path_cells;
        for (size_t c = 0; c < stat.size(); c++) {
            const CellStat &cs = stat[c];
            if (cs.wrong.empty()) continue;
            const std::string vc = m.written[c] ? "written cell" : "never-written cell";
            Ext pos(rank); size_t cc = c;
            for (size_t i = rank; i-- > 0;) { pos[i] = cc % m.ext[i]; cc /= m.ext[i]; }
            const std::string cell = "cell " + ext_str(pos) + " of extent " + ext_str(m.ext);
            bool same = true;
            for (auto &w : cs.wrong) if (!X::same(w.got, cs.wrong[0].got)) same = false;
            if ((int)cs.wrong.size() == cs.reads && same) {
                if (!stored_wrong++) {
                    stored_sig = "C01|" + lastop + "|" + tn + ", " + vc + "|every read path returns the same value, but not the one the history defines|" + deviation(m, c, cs.wrong[0].got);
                    stored_what = cell + " reads " + X::show(cs.wrong[0].got) + " through all " + std::to_string(cs.reads) + " raw reads, expected " + X::show(m.cells[c]);
                }
                continue;
            }
            std::set<std::string> done;
            for (auto &w : cs.wrong) {
                if (!done.insert(w.path).second) continue;
                if (path_cells[w.path]++) continue;
                path_first[w.path] = std::make_pair(
                    "C01|" + w.path + "|" + tn + ", " + vc + "|read path disagrees with the other read paths and the model|" + deviation(m, c, w.got),
                    std::string(who(w.kept)) + " " + w.path + " returns " + X::show(w.got) + " for " + cell + ", expected " + X::show(m.cells[c]) +
                    " (" + std::to_string(cs.reads - (int)cs.wrong.size()) + " of " + std::to_string(cs.reads) + " raw reads of the cell are right)");
            }
        }
        if (stored_wrong) viol(stored_sig, ctx() + " ; then " + stored_what + (stored_wrong > 1 ? " (first of " + std::to_string(stored_wrong) + " such cells)" : ""));
        for (auto &pf : path_first)
            viol(pf.second.first, ctx() + " ; then " + pf.second.second + (path_cells[pf.first] > 1 ? " (first of " + std::to_string(path_cells[pf.first]) + " such cells)" : ""));
    }
};

// ------------------------------------------------------------------------------------------------ DFS over one configuration
static long g_caseno = 0;
static long g_sampled = 0;

template <typename T> static void explore(const Config &cfg) {
    const std::vector<Letter> alpha = make_alphabet(cfg.rank, TT<T>::numeric, cfg.level);
    const int depth = cfg.depth;
    const int plen = depth >= 4 ? 2 : 1;       // deep trees: one case per pair of leading letters
    std::vector<std::vector<Letter>> prefixes;
    if (plen == 1) for (const Letter &a : alpha) prefixes.push_back({a});
    else for (const Letter &a : alpha) for (const Letter &b : alpha) { if (a.kind == REOPEN && b.kind == REOPEN) continue; prefixes.push_back({a, b}); }
    const std::string base = cfg.family + ": " + TT<T>::name() + ", rank " + std::to_string(cfg.rank) + ", " + COMPR_NAME[cfg.compr] + ", initial extent " + ext_str(cfg.init) +
                             ", depth " + std::to_string(depth) + ", alphabet of " + std::to_string(alpha.size());
    bool first_case = true;
    for (size_t pi = 0; pi < prefixes.size(); pi++) {
        const std::vector<Letter> &pre = prefixes[pi];
        if (!is_trace(cfg.init, pre)) continue;           // a letter that is not enabled where it stands: no trace, no case
        const bool first_of_config = first_case;
        first_case = false;
        long cid = g_caseno++;
        if (!vf::take_case(cid)) continue;
        Runner<T> R(cfg);
        const double t0 = vf::wall();
        struct Timer { double t0; std::string key; ~Timer() { vf::count(key, (long)((vf::wall() - t0) * 1000.0)); } } timer{t0, "wall_ms_family_" + cfg.family + "_rank" + std::to_string(cfg.rank)};
        std::string lead;
        for (const Letter &l : pre) lead += (lead.empty() ? "" : " ; ") + letter_str(l);
        const std::string cdesc = base + ", sequences starting with " + lead;
        vf::case_desc(cdesc);
        std::vector<Letter> seq;
        auto mark = [&](const char *how) {
            std::string q;
            for (const Letter &s : seq) q += (q.empty() ? "" : " ; ") + letter_str(s);
            vf::case_desc(cdesc + " | " + how + ": " + (q.empty() ? "(no step)" : q));
        };
        // the shorter sequences: the empty one belongs to the first case of the configuration; with two-letter prefixes the
        // sequence {a} is reported by the first case {a, *} and re-run quietly by the others (a failing trace is not extended)
        if (first_of_config) {
            mark("running");
            bool ok = R.run(seq, true);
            vf::count("traces");
            if (!ok) continue;
        }
        if (plen == 2) {
            bool reporter = true;
            for (size_t pj = 0; pj < pi; pj++) if (prefixes[pj][0].ai == pre[0].ai && is_trace(cfg.init, prefixes[pj])) { reporter = false; break; }
            seq = {pre[0]};
            mark(reporter ? "running" : "re-checking the leading step quietly");
            bool ok = R.run(seq, true, !reporter);
            if (reporter) { vf::count("traces"); if (ok) vf::count("transitions"); }
            if (!ok) continue;
        }
        seq = pre;
        std::function<void()> rec = [&]() {
            if (vf::deadline_hit()) return;
            mark("running");
            bool ok = R.run(seq, true);
            vf::count("traces");
            if (ok) vf::count("transitions");
            if (!ok || (int)seq.size() >= depth) return;
            for (const Letter &s : alpha) {
                if (s.kind == REOPEN && seq.back().kind == REOPEN) continue;
                seq.push_back(s);
                if (is_trace(cfg.init, seq)) rec();
                seq.pop_back();
            }
        };
        rec();
        if (first_of_config) {
            const std::string si = std::string(TT<T>::name()) + " rank " + std::to_string(cfg.rank) + " " + COMPR_NAME[cfg.compr] + " init " + ext_str(cfg.init) + ": " + storage_info(R.path);
            vf::distinct("storage", si);
            if (vf::opt.verbose) fprintf(stderr, "C01 storage: %s\n", si.c_str());
        }
        if (g_sampled < 6 && cid % 41 == 7) {
            g_sampled++;
            vf::sample("{\"config\":" + vf::jstr(base) + ",\"last_trace_of_case\":" + vf::jstr(R.trace) + "}", 6);
        }
    }
}

static void explore_config(const Config &c) {
    switch (c.type) {
    case 0: explore<bool>(c); break;
    case 1: explore<int8_t>(c); break;
    case 2: explore<int16_t>(c); break;
    case 3: explore<int32_t>(c); break;
    case 4: explore<int64_t>(c); break;
    case 5: explore<uint8_t>(c); break;
    case 6: explore<uint16_t>(c); break;
    case 7: explore<uint32_t>(c); break;
    case 8: explore<uint64_t>(c); break;
    case 9: explore<float>(c); break;
    case 10: explore<double>(c); break;
    case 11: explore<std::string>(c); break;
    }
}
enum { TY_BOOL = 0, TY_INT8, TY_INT16, TY_INT32, TY_INT64, TY_UINT8, TY_UINT16, TY_UINT32, TY_UINT64, TY_FLOAT, TY_DOUBLE, TY_STRING, TY_COUNT };

// ------------------------------------------------------------------------------------------------ large arrays
template <typename T> static void large_case(int compr, size_t created) {
    typedef TT<T> X;
    const std::string tn = X::name();
    const size_t N = 3000;
    static const size_t BLOCKS[][2] = {{1000, 100}, {1020, 10}, {1490, 20}, {2040, 16}, {2999, 1}};
    static const size_t READS[] = {100, 1024, 1500, 3000};
    const Compression fc = compr == 2 ? Compression::DeflateNormal : Compression::Auto;
    const Compression ac = compr == 0 ? Compression::None : compr == 1 ? Compression::DeflateNormal : Compression::Auto;
    const std::string path = vf::scratch_file("c01large.h5");
    long k = 0;
    for (size_t bi = 0; bi < 5; bi++) for (int epi = 0; epi < 4; epi++) for (size_t ri = 0; ri < 4; ri++) {
        if (vf::deadline_hit()) return;
        const size_t b0 = BLOCKS[bi][0], bl = BLOCKS[bi][1], B = READS[ri];
        // epilogue 0: nothing; 1: REOPEN; 2: grow to 3500; 3: shrink into the block, grow back to 3000, REOPEN
        std::string tr = "create(" + tn + ", extent [" + std::to_string(created) + "], " + COMPR_NAME[compr] + ")";
        std::vector<T> model(N, T(0));
        size_t len = N;
        vf::set_clock(1500000000);
        File f = File::open(path, FileMode::Overwrite, "hdf5", fc);
        Block b = f.createBlock("blk", "t");
        DataArray K;
        std::string what;
        const bool typed = ((bi + (size_t)epi + ri) & 1) != 0;
        std::string exc = vf::guarded([&] {
            K = b.createDataArray("arr", "t", X::dt(), NDSize{(ndsize_t)created}, ac);
            if (created != N) { K.dataExtent(NDSize{(ndsize_t)N}); tr += " ; dataExtent([3000])"; }
            std::vector<T> blk;
            for (size_t i = 0; i < bl; i++) { blk.push_back(X::ordinary(k + (long)i, false)); model[b0 + i] = blk.back(); }
            k += (long)bl;
            tr += std::string(" ; write ") + (typed ? "std::vector" : "untyped") + " block [" + std::to_string(b0) + "," + std::to_string(b0 + bl) + ")";
            if (typed) K.setData(blk, NDSize{(ndsize_t)b0}); else K.setData(X::dt(), blk.data(), NDSize{(ndsize_t)bl}, NDSize{(ndsize_t)b0});
            if (epi == 2) { len = 3500; K.dataExtent(NDSize{(ndsize_t)len}); model.resize(len, T(0)); tr += " ; dataExtent([3500])"; }
            if (epi == 3) {
                size_t cut = b0 + bl / 2;
                K.dataExtent(NDSize{(ndsize_t)cut}); K.dataExtent(NDSize{(ndsize_t)N});
                for (size_t i = cut; i < N; i++) model[i] = T(0);
                tr += " ; dataExtent([" + std::to_string(cut) + "]) ; dataExtent([3000])";
            }
            if (epi == 1 || epi == 3) {
                K = nix::none; b = nix::none; f.close();
                const bool ro = ((bi + ri) & 1) != 0;
                f = File::open(path, ro ? FileMode::ReadOnly : FileMode::ReadWrite, "hdf5", fc);
                b = f.getBlock("blk"); K = b.getDataArray("arr");
                tr += ro ? " ; REOPEN(ReadOnly)" : " ; REOPEN";
            }
        }, &what);
        vf::count("traces");
        vf::count("large_traces");
        if (!exc.empty()) {
            vf::violation("C01|large 1-D array, preparation|" + tn + "|legal operation rejected|" + exc, tr + " threw " + exc + ": " + what);
        } else {
            vf::count("transitions");
            // block-wise read with ONE reused buffer, filled with a non-zero sentinel before every read
            std::vector<T> buf(B + 2);
            size_t blocks_read = 0, wrong = 0;
            bool z_seen = false, v_seen = false;
            DataArray F = b.getDataArray("arr");
            for (size_t o = 0; o < len && !wrong; o += B, blocks_read++) {
                const size_t c = std::min(B, len - o);
                std::fill(buf.begin(), buf.end(), X::sentinel());
                const DataArray &h = (blocks_read & 1) ? F : K;
                const bool direct = ((blocks_read >> 1) & 1) != 0;
                exc = vf::guarded([&] { if (direct) h.getDataDirect(X::dt(), buf.data(), NDSize{(ndsize_t)c}, NDSize{(ndsize_t)o}); else h.getData(X::dt(), buf.data(), NDSize{(ndsize_t)c}, NDSize{(ndsize_t)o}); }, &what);
                vf::count("read_calls");
                if (!exc.empty()) {
                    vf::violation("C01|large 1-D array, block-wise read|" + tn + "|read of existing cells throws|" + exc, tr + " ; then read [" + std::to_string(o) + "," + std::to_string(o + c) + ") threw " + exc + ": " + what);
                    wrong++;
                    break;
                }
                for (size_t i = 0; i < c + 2 && !wrong; i++) {
                    const bool guard = i >= c;
                    const T want = guard ? X::sentinel() : model[o + i];
                    if (!guard) { vf::count("cell_reads"); if (X::same(want, T(0))) z_seen = true; else v_seen = true; }
                    if (X::same(buf[i], want)) continue;
                    wrong++;
                    const bool inblock = !guard && o + i >= b0 && o + i < b0 + bl;
                    const std::string cls = guard ? "guard element behind the requested count" : inblock ? "element of the written block" : "never-written element";
                    const std::string dev = guard ? "overwritten" : X::same(buf[i], X::sentinel()) ? "sentinel left in the buffer" : X::same(buf[i], T(0)) ? "zero instead of the written value" : inblock ? "different value" : "non-zero";
                    vf::violation("C01|large 1-D array, block-wise read|" + tn + ", " + cls + "|" + (inblock ? "a written element reads as written" : guard ? "elements beyond the requested count are untouched" : "never-written regions read as zero") + "|" + dev,
                                  tr + " ; then " + (direct ? "getDataDirect" : "getData") + " of [" + std::to_string(o) + "," + std::to_string(o + c) + ") into the reused buffer: element " + std::to_string(o + i) + " = " + X::show(buf[i]) + " expected " + X::show(want));
                }
            }
            F = nix::none;
            vf::distinct("outcomes", "large|" + tn + "|epilogue " + std::to_string(epi) + "|" + (wrong ? "wrong" : "right") + (z_seen && v_seen ? "|zeros and values" : "|one kind"));
            vf::distinct("states", "large|" + tn + "|c" + std::to_string(compr) + "|created " + std::to_string(created) + "|block " + std::to_string(bi) + "|epilogue " + std::to_string(epi));
        }
        K = nix::none; b = nix::none;
        f.close();
        if (bi == 0 && epi == 0 && ri == 0) {
            const std::string si = "large " + tn + " " + COMPR_NAME[compr] + " created " + std::to_string(created) + ": " + storage_info(path);
            vf::distinct("storage", si);
            if (vf::opt.verbose) fprintf(stderr, "C01 storage: %s\n", si.c_str());
        }
    }
}

// ------------------------------------------------------------------------------------------------ large regions, read as other types
// Arrays of 3000 (rank 1) and 40 x 60 (rank 2) elements holding their linear index; every region of a fixed list (whole array, regions of
// more than 1024 elements starting at / behind the first row, with full and partial rows, a region of exactly 1024 and of 1025 elements) is
// read raw and calibrated (polynomial 1 + 2x, origin 3: every expected value is a small integer, exact in every target type) as Double,
// Float, Int64, Int32, Int16 and UInt16 into a sentinel-filled buffer with two guard elements.
static std::string ndstr(const NDSize &n) { std::string r = "["; for (size_t i = 0; i < n.size(); i++) r += (i ? "," : "") + std::to_string(n[i]); return r + "]"; }
template <typename S, typename T> static void large_region_reads(int rank, bool calibrated) {
    typedef TT<S> XS; typedef TT<T> XT;
    const std::string path = vf::scratch_file("c01region.h5");
    const std::string tn = XS::name() + std::string(" read as ") + XT::name();
    vf::set_clock(1500000000);
    File f = File::open(path, FileMode::Overwrite);
    Block b = f.createBlock("blk", "t");
    const NDSize ext = rank == 1 ? NDSize{3000} : NDSize{40, 60};
    const size_t N = rank == 1 ? 3000 : 2400, W = rank == 1 ? 1 : 60;
    DataArray K = b.createDataArray("arr", "t", XS::dt(), ext);
    std::vector<S> stored(N);
    for (size_t i = 0; i < N; i++) stored[i] = S(i);
    K.setData(XS::dt(), stored.data(), ext, rank == 1 ? NDSize{0} : NDSize{0, 0});
    if (calibrated) { K.polynomCoefficients(std::vector<double>{1.0, 2.0}); K.expansionOrigin(3.0); }
    std::vector<std::pair<NDSize, NDSize>> regions;   // (offset, count)
    if (rank == 1) regions = {{NDSize{0}, NDSize{3000}}, {NDSize{7}, NDSize{2000}}, {NDSize{1000}, NDSize{1024}}, {NDSize{1000}, NDSize{1025}}, {NDSize{1975}, NDSize{1025}}, {NDSize{5}, NDSize{10}}};
    else regions = {{NDSize{0, 0}, NDSize{40, 60}}, {NDSize{5, 10}, NDSize{30, 50}}, {NDSize{1, 0}, NDSize{39, 60}}, {NDSize{3, 7}, NDSize{32, 32}}, {NDSize{3, 7}, NDSize{25, 41}}, {NDSize{10, 0}, NDSize{30, 60}}, {NDSize{39, 59}, NDSize{1, 1}}};
    for (int session = 0; session < 2; session++) {
        if (session == 1) { K = nix::none; b = nix::none; f.close(); f = File::open(path, FileMode::ReadOnly); b = f.getBlock("blk"); K = b.getDataArray("arr"); }
        for (auto &rg : regions) {
            const NDSize &off = rg.first, &cnt = rg.second;
            const size_t n = (size_t)cnt.nelms();
            std::vector<T> buf(n + 2, XT::sentinel());
            std::string what;
            std::string exc = vf::guarded([&] { K.getData(XT::dt(), buf.data(), cnt, off); }, &what);
            vf::count("read_calls"); vf::count("large_region_reads");
            const std::string rs = std::string(rank == 1 ? "rank 1" : "rank 2") + (n > 1024 ? ", more than 1024 elements" : ", at most 1024 elements") + (off[0] ? ", offset behind the first row" : ", offset 0") + (session ? ", after REOPEN" : "");
            vf::distinct("outcomes", "region|" + tn + "|" + (calibrated ? "calibrated|" : "raw|") + rs + "|" + (exc.empty() ? "ok" : exc));
            const std::string ctx = std::string("array ") + (rank == 1 ? "[3000]" : "[40,60]") + " of " + XS::name() + " holding its linear index" + (calibrated ? ", polynomial {1,2}, origin 3" : "") +
                                    "; getData as " + XT::name() + " offset " + ndstr(off) + " count " + ndstr(cnt) + (session ? " after REOPEN" : "");
            if (!exc.empty()) { vf::violation("C01|getData as <U>|<T> array, large region|read of existing cells throws|" + exc, ctx + ": " + what); continue; }
            size_t bad = 0, first = 0; T g = T(), w = T();
            for (size_t i = 0; i < n + 2; i++) {
                T want;
                if (i >= n) want = XT::sentinel();
                else {
                    size_t r = rank == 1 ? 0 : i / (size_t)cnt[1], c = rank == 1 ? i : i % (size_t)cnt[1];
                    size_t lin = rank == 1 ? (size_t)off[0] + c : ((size_t)off[0] + r) * W + (size_t)off[1] + c;
                    double v = (double)lin;
                    if (calibrated) v = 1.0 + 2.0 * (v - 3.0);
                    // a value the requested type cannot represent converts to a don't-care (the first samples are negative when calibrated)
                    if (v < (double)std::numeric_limits<T>::lowest() || v > (double)std::numeric_limits<T>::max()) { vf::count("cells_outside_the_target_range"); continue; }
                    want = T(v);
                }
                vf::count("cell_reads");
                if (!XT::same(buf[i], want)) { if (!bad) { first = i; g = buf[i]; w = want; } bad++; }
            }
            if (bad)
                vf::violation(std::string("C01|getData as <U>|<T> array, large region, ") + (calibrated ? "calibrated" : "raw") + "|" + (first >= n ? "elements beyond the requested count are untouched" : calibrated ? "calibrated read equals the polynomial at (stored - origin) converted to the requested type" : "element reads as written, converted") + "|" + (first >= n ? "overwritten" : "different value"),
                              ctx + ": " + std::to_string(bad) + " of " + std::to_string(n) + " elements wrong, first at " + std::to_string(first) + ": " + XT::show(g) + " expected " + XT::show(w));
        }
    }
    K = nix::none; b = nix::none; f.close();
}
// Large blocks of ZEROS written over stored non-zero data (a write path must not take "all zero" for "nothing to write"): arrays of 3000
// (rank 1) and 64 x 100 (rank 2) elements holding i + 1, three compression settings; a block of zeros of 1100 / 4500 elements (more than
// 8 KiB for every element type wider than one byte) is written at an offset, raw or through the typed vector overload; the whole array is
// read back before and after REOPEN.  Also: zeros over zeros-never-written, and the value -0.0.
template <typename T> static void zero_overwrite_case(int compr) {
    typedef TT<T> X;
    const std::string tn = X::name();
    const std::string path = vf::scratch_file("c01zero.h5");
    const Compression fc = compr == 2 ? Compression::DeflateNormal : Compression::Auto;
    const Compression ac = compr == 0 ? Compression::None : compr == 1 ? Compression::DeflateNormal : Compression::Auto;
    for (int rank = 1; rank <= 2; rank++) for (int typed = 0; typed < 2; typed++) {
        vf::set_clock(1500000000);
        File f = File::open(path, FileMode::Overwrite, "hdf5", fc);
        Block b = f.createBlock("blk", "t");
        const NDSize ext = rank == 1 ? NDSize{3000} : NDSize{64, 100};
        const size_t N = rank == 1 ? 3000 : 6400;
        DataArray K = b.createDataArray("arr", "t", X::dt(), ext, ac);
        std::vector<T> model(N);
        for (size_t i = 0; i < N; i++) model[i] = T((i % 100) + 1);
        K.setData(X::dt(), model.data(), ext, rank == 1 ? NDSize{0} : NDSize{0, 0});
        // the block of zeros
        const NDSize zoff = rank == 1 ? NDSize{700} : NDSize{10, 0}, zcnt = rank == 1 ? NDSize{1100} : NDSize{45, 100};
        const size_t zn = (size_t)zcnt.nelms();
        std::vector<T> zeros(zn, T(0));
        std::string what;
        std::string exc = vf::guarded([&] {
            if (typed && rank == 1) K.setData(zeros, zoff); else K.setData(X::dt(), zeros.data(), zcnt, zoff);
        }, &what);
        vf::count("traces"); vf::count("zero_block_writes");
        const std::string tr = std::string("array ") + (rank == 1 ? "[3000]" : "[64,100]") + " of " + tn + " (" + COMPR_NAME[compr] + ") holding (i % 100) + 1; write " + std::to_string(zn) + " zeros at offset " + ndstr(zoff) + (typed && rank == 1 ? " (std::vector overload)" : " (untyped)");
        if (!exc.empty()) { vf::violation("C01|setData(block of zeros)|" + tn + "|legal operation rejected|" + exc, tr + ": " + what); f.close(); continue; }
        if (rank == 1) for (size_t i = 0; i < zn; i++) model[700 + i] = T(0); else for (size_t i = 0; i < zn; i++) model[1000 + i] = T(0);
        for (int session = 0; session < 2; session++) {
            if (session == 1) { K = nix::none; b = nix::none; f.close(); f = File::open(path, FileMode::ReadOnly); b = f.getBlock("blk"); K = b.getDataArray("arr"); }
            std::vector<T> buf(N + 2, X::sentinel());
            exc = vf::guarded([&] { K.getData(X::dt(), buf.data(), ext, rank == 1 ? NDSize{0} : NDSize{0, 0}); }, &what);
            vf::count("read_calls");
            if (!exc.empty()) { vf::violation("C01|getData|" + tn + ", after a block of zeros was written|read of existing cells throws|" + exc, tr + ": " + what); break; }
            size_t bad = 0, first = 0;
            for (size_t i = 0; i < N; i++) { vf::count("cell_reads"); if (!X::same(buf[i], model[i])) { if (!bad) first = i; bad++; } }
            vf::distinct("outcomes", "zero block|" + tn + "|rank " + std::to_string(rank) + "|" + (bad ? "wrong" : "right") + (session ? "|after REOPEN" : ""));
            if (bad)
                vf::violation("C01|setData(block of zeros)|" + tn + ", block of more than 8 KiB over stored non-zero data|a written element reads as written|" + (X::same(buf[first], T((first % 100) + 1)) ? "old value" : "different value"),
                              tr + (session ? " ; REOPEN" : "") + ": " + std::to_string(bad) + " elements wrong, first at " + std::to_string(first) + ": " + X::show(buf[first]) + " expected " + X::show(model[first]));
        }
        K = nix::none; b = nix::none; f.close();
    }
}

template <typename S> static void large_region_case(int rank, bool calibrated) {
    large_region_reads<S, double>(rank, calibrated); large_region_reads<S, float>(rank, calibrated); large_region_reads<S, int64_t>(rank, calibrated);
    large_region_reads<S, int32_t>(rank, calibrated); large_region_reads<S, int16_t>(rank, calibrated); large_region_reads<S, uint16_t>(rank, calibrated);
}

// ------------------------------------------------------------------------------------------------ main
static const std::vector<std::vector<Ext>> &init_lists() {
    // per rank: the initial extents, values from {0,1,2,3} per axis; the tiers take a prefix of the list
    static const std::vector<std::vector<Ext>> L = {
        {},
        {{2}, {0}, {3}, {1}},
        {{2, 3}, {0, 2}, {3, 1}, {1, 0}},
        {{2, 1, 2}, {1, 3, 0}, {3, 2, 1}, {0, 2, 2}},
        {{2, 1, 2, 1}, {1, 0, 2, 3}, {1, 2, 1, 3}, {3, 1, 0, 2}},
    };
    return L;
}

int main(int argc, char **argv) {
    vf::init(argc, argv, "C01");
    H5Eset_auto2(H5E_DEFAULT, nullptr, nullptr);
    const bool thorough = vf::opt.tier == "thorough";
    auto optint = [&](const char *key, int dflt) { return vf::opt.extra.count(key) ? atoi(vf::opt.extra[key].c_str()) : dflt; };
    const int depth3 = optint("depth", 3);

    std::vector<Config> configs;
    auto add = [&](const std::string &fam, int type, int rank, int compr, size_t ninit, int depth, int level) {
        const std::vector<Ext> &L = init_lists()[(size_t)rank];
        for (size_t i = 0; i < ninit && i < L.size(); i++) configs.push_back(Config{type, rank, compr, L[i], depth, level, fam});
    };
    if (!thorough) {
        // A: all 12 T x rank {1,2} x None; B: Double x rank {3,4}; C: {Double, String, Int8} x {DeflateNormal, Auto} x rank {1,2}
        for (int t = 0; t < TY_COUNT; t++) { add("A", t, 1, 0, (size_t)optint("inits1", 2), depth3, 0); add("A", t, 2, 0, (size_t)optint("inits2", 1), depth3, 0); }
        add("B", TY_DOUBLE, 3, 0, 1, depth3, 0);
        add("B", TY_DOUBLE, 4, 0, 1, depth3, 0);
        for (int t : {TY_DOUBLE, TY_STRING, TY_INT8}) for (int c = 1; c <= 2; c++) { add("C", t, 1, c, 1, depth3, 0); add("C", t, 2, c, 1, depth3, 0); }
    } else {
        // A: full T x rank 1-4 x 3 compressions at depth 3 (full alphabet at rank <= 2, reduced above);
        // D: {Double, Int8, UInt64, Bool, String}, None: depth 4 (full alphabet at rank 1, reduced at rank 2); depth 5 (reduced alphabet, rank 1)
        //    for {Double, Bool, String}
        for (int t = 0; t < TY_COUNT; t++) for (int c = 0; c < 3; c++) {
            add("A", t, 1, c, c == 0 ? 4 : 1, depth3, 1);
            add("A", t, 2, c, c == 0 ? 2 : 1, depth3, 1);
            add("A", t, 3, c, 1, depth3, 0);
            add("A", t, 4, c, 1, depth3, 0);
        }
        for (int t : {TY_DOUBLE, TY_INT8, TY_UINT64, TY_BOOL, TY_STRING}) {
            add("D", t, 1, 0, 1, optint("depth-deep1", 4), 1);
            add("D", t, 2, 0, 1, optint("depth-deep2", 4), 0);
            if (t == TY_DOUBLE || t == TY_BOOL || t == TY_STRING) add("D", t, 1, 0, 1, optint("depth-deepest", 5), 0);
        }
    }
    for (const Config &c : configs) {
        explore_config(c);
        if (vf::deadline_hit()) break;
    }
    // large arrays: {Double, Int32} x three compression settings x created extent {3000, 0, 1000}
    for (int t = 0; t < 2; t++) for (int compr = 0; compr < 3; compr++) for (size_t created : {(size_t)3000, (size_t)0, (size_t)1000}) {
        long cid = g_caseno++;
        if (!vf::take_case(cid)) continue;
        vf::case_desc(std::string("large 1-D array: ") + (t == 0 ? "Double" : "Int32") + ", " + COMPR_NAME[compr] + ", created with extent " + std::to_string(created) +
                      ", resized to 3000, one block written, read block-wise into a reused non-zero buffer");
        if (t == 0) large_case<double>(compr, created); else large_case<int32_t>(compr, created);
    }
    // blocks of zeros over stored non-zero data: {Double, Int32, Int16, UInt8} x three compression settings
    for (int t = 0; t < 4; t++) for (int compr = 0; compr < 3; compr++) {
        long cid = g_caseno++;
        if (!vf::take_case(cid)) continue;
        vf::case_desc(std::string("blocks of zeros written over stored data: ") + (t == 0 ? "Double" : t == 1 ? "Int32" : t == 2 ? "Int16" : "UInt8") + ", " + COMPR_NAME[compr]);
        if (t == 0) zero_overwrite_case<double>(compr); else if (t == 1) zero_overwrite_case<int32_t>(compr); else if (t == 2) zero_overwrite_case<int16_t>(compr); else zero_overwrite_case<uint8_t>(compr);
    }
    // large regions read as other numeric types, raw and calibrated: {Double, Int32, Int16} stored x rank {1,2}
    for (int t = 0; t < 3; t++) for (int rank = 1; rank <= 2; rank++) for (int cal = 0; cal < 2; cal++) {
        long cid = g_caseno++;
        if (!vf::take_case(cid)) continue;
        vf::case_desc(std::string("large regions of a rank-") + std::to_string(rank) + " array of " + (t == 0 ? "Double" : t == 1 ? "Int32" : "Int16") + " read " + (cal ? "calibrated" : "raw") + " as six numeric types");
        if (t == 0) large_region_case<double>(rank, cal); else if (t == 1) large_region_case<int32_t>(rank, cal); else large_region_case<int16_t>(rank, cal);
    }
    vf::note("depth", std::to_string(depth3));
    vf::note("configurations", std::to_string(configs.size()));
    {
        std::string al = "{";
        for (int r = 1; r <= 4; r++) for (int lvl = 0; lvl < 2; lvl++)
            al += std::string(al.size() > 1 ? "," : "") + "\"rank " + std::to_string(r) + (lvl ? " full" : " reduced") + "\":[" + std::to_string(make_alphabet(r, true, lvl).size()) + "," + std::to_string(make_alphabet(r, false, lvl).size()) + "]";
        vf::note("alphabet_sizes_numeric_nonnumeric", al + "}");
    }
    return vf::finish();
}
