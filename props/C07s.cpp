// C07 (part 2) — the conversion rules hold in every state a dimension can be brought into, through every live handle.
//
// The grid of C07.cpp is stateless.  Here short histories change the axis (ticks, sampling interval, offset, labels, data-
// frame rows, the data of an aliased array) through one handle or through the array, and after EVERY step the conversion
// grid is evaluated through every live handle (the one returned by append*, a second one from getDimension(1), a fresh
// one) against the reference computed from the model's current coordinates.  This is what exposes axis data cached in a
// handle and not invalidated.
#include <nix.hpp>
#include <nix/util/dataAccess.hpp>
#include <cmath>
#include "vf.hpp"

using namespace nix;
typedef boost::optional<ndsize_t> OptIdx;
typedef boost::optional<std::pair<ndsize_t, ndsize_t>> OptRange;

static const PositionMatch MATCHES[] = {PositionMatch::Less, PositionMatch::LessOrEqual, PositionMatch::Equal, PositionMatch::GreaterOrEqual, PositionMatch::Greater};
static const char *MN[] = {"Less", "LessOrEqual", "Equal", "GreaterOrEqual", "Greater"};

static OptIdx ref_index(const std::vector<double> &x, double p, PositionMatch m) {
    size_t lo = std::lower_bound(x.begin(), x.end(), p) - x.begin(), up = std::upper_bound(x.begin(), x.end(), p) - x.begin();
    switch (m) {
    case PositionMatch::Less: if (lo == 0) return boost::none; return ndsize_t(lo - 1);
    case PositionMatch::LessOrEqual: if (up == 0) return boost::none; return ndsize_t(up - 1);
    case PositionMatch::GreaterOrEqual: if (lo == x.size()) return boost::none; return ndsize_t(lo);
    case PositionMatch::Greater: if (up == x.size()) return boost::none; return ndsize_t(up);
    default: if (lo < x.size() && x[lo] == p) return ndsize_t(lo); return boost::none;
    }
}
static OptRange ref_range(const std::vector<double> &x, double s, double e, RangeMatch rm) {
    if (!(s <= e)) return boost::none;
    OptIdx a = ref_index(x, s, PositionMatch::GreaterOrEqual), b = ref_index(x, e, rm == RangeMatch::Inclusive ? PositionMatch::LessOrEqual : PositionMatch::Less);
    if (a && b && *a <= *b) return std::make_pair(*a, *b);
    return boost::none;
}
static std::string os(const OptIdx &o) { return o ? std::to_string(*o) : "none"; }

// model of one axis: coordinates (a prefix for unbounded axes) + bounded flag
struct Axis { std::vector<double> x; bool bounded; };
static std::vector<double> candidates(const Axis &ax) {
    std::vector<double> c;
    if (ax.x.empty()) return c;
    c.push_back(ax.x[0] - 1.0);
    size_t n = ax.bounded ? ax.x.size() : ax.x.size() - 2;
    for (size_t i = 0; i < n; i++) { c.push_back(ax.x[i]); c.push_back(std::nextafter(ax.x[i], -INFINITY)); c.push_back(std::nextafter(ax.x[i], INFINITY)); if (i + 1 < ax.x.size()) c.push_back(ax.x[i] + (ax.x[i + 1] - ax.x[i]) / 2); }
    if (ax.bounded) c.push_back(ax.x.back() + 1.0);
    return c;
}

template <typename Dim> static void grid(const std::string &kind, const std::string &handle, const std::string &lastop, const Axis &ax, const Dim &d, const std::string &ctx) {
    std::vector<double> c = candidates(ax);
    for (double p : c) for (int m = 0; m < 5; m++) {
        OptIdx want = ref_index(ax.x, p, MATCHES[m]), got;
        std::string e = vf::guarded([&] { got = d.indexOf(p, MATCHES[m]); });
        vf::count("conversions");
        if (!e.empty() || got != want)
            vf::violation("C07|" + kind + "::indexOf after " + lastop + "|through " + handle + "|" + MN[m] + "|" + (e.empty() ? "answer is for another axis state" : "throws " + e),
                          ctx + ": p=" + vf::hexd(p) + " " + MN[m] + " got " + (e.empty() ? os(got) : e) + " expected " + os(want));
    }
    std::vector<double> ss, ee;
    for (size_t i = 0; i < c.size(); i += 2) for (size_t j = 0; j < c.size(); j += 3) { ss.push_back(c[i]); ee.push_back(c[j]); }
    for (RangeMatch rm : {RangeMatch::Inclusive, RangeMatch::Exclusive}) {
        std::vector<OptRange> got;
        std::string e = vf::guarded([&] { got = d.indexOf(ss, ee, rm); });
        vf::count("conversions", (long)ss.size());
        for (size_t k = 0; k < ss.size() && e.empty(); k++)
            if (got[k] != ref_range(ax.x, ss[k], ee[k], rm))
                vf::violation("C07|" + kind + "::indexOf(starts,ends) after " + lastop + "|through " + handle + "|answer is for another axis state", ctx + ": start=" + vf::hexd(ss[k]) + " end=" + vf::hexd(ee[k]));
        if (!e.empty()) vf::violation("C07|" + kind + "::indexOf(starts,ends) after " + lastop + "|through " + handle + "|throws " + e, ctx);
    }
    vf::distinct("outcomes", kind + "|" + handle + "|" + lastop);
}

struct Step { std::string name; int code; };
struct ops_skip : std::exception { const char *what() const noexcept override { return "skip"; } };

int main(int argc, char **argv) {
    vf::init(argc, argv, "C07");
    const bool thorough = vf::opt.tier == "thorough";
    const int depth = thorough ? 4 : 3;
    const std::string path = vf::scratch_file("c07s.h5");
    long caseno = 0;

    // tick / data vectors, label sets, intervals
    const std::vector<std::vector<double>> TV = {{0.5, 1.0, 4.0}, {0.1, 0.2, 0.3, 0.4, 0.5}, {-3.0, 7.5}};
    const std::vector<std::vector<std::string>> LV = {{"a", "b", "c"}, {"p"}, {}};
    const double IV[] = {0.5, 0.1, 2.0};
    const boost::optional<double> OV[] = {boost::none, 1.5, -0.25};

    // kind 0 range, 1 alias, 2 sampled, 3 set, 4 data-frame
    for (int kind = 0; kind < 5; kind++) {
        std::vector<Step> alpha;
        if (kind == 0) for (int h = 1; h <= 2; h++) for (int j = 0; j < 3; j++) alpha.push_back({"ticks(T" + std::to_string(j) + ") via handle " + std::to_string(h), h * 10 + j});
        if (kind == 1) { for (int j = 0; j < 3; j++) alpha.push_back({"array.setData(T" + std::to_string(j) + ")", 10 + j}); for (int j = 0; j < 3; j++) alpha.push_back({"dimension.ticks(T" + std::to_string(j) + ")", 20 + j});
                         alpha.push_back({"array.dataExtent(-1)", 30}); alpha.push_back({"array.appendData(+1)", 31}); }
        if (kind == 2) for (int h = 1; h <= 2; h++) { for (int j = 0; j < 3; j++) alpha.push_back({"samplingInterval(I" + std::to_string(j) + ") via handle " + std::to_string(h), h * 10 + j}); for (int j = 0; j < 3; j++) alpha.push_back({"offset(O" + std::to_string(j) + ") via handle " + std::to_string(h), h * 10 + 5 + j}); }
        if (kind == 3) for (int h = 1; h <= 2; h++) for (int j = 0; j < 3; j++) alpha.push_back({"labels(L" + std::to_string(j) + ") via handle " + std::to_string(h), h * 10 + j});
        if (kind == 4) for (int n : {0, 1, 4}) alpha.push_back({"frame.rows(" + std::to_string(n) + ")", 10 + n});
        alpha.push_back({"REOPEN", 99});
        const char *KN[] = {"RangeDimension", "alias RangeDimension", "SampledDimension", "SetDimension", "DataFrameDimension"};

        // one case per first step: all sequences below it
        for (size_t first = 0; first < alpha.size(); first++) {
            long cid = caseno++;
            if (!vf::take_case(cid)) continue;
            vf::case_desc(std::string(KN[kind]) + ": sequences starting with " + alpha[first].name + ", depth " + std::to_string(depth));
            std::vector<int> seq = {(int)first};
            std::function<void()> rec = [&]() {
                // ---- replay the sequence on a fresh file, grid after every step (handles stay alive across steps) ----
                vf::set_clock(1500000000);
                File f = File::open(path, FileMode::Overwrite);
                Block b = f.createBlock("b", "t");
                DataArray a = b.createDataArray("a", "t", DataType::Double, NDSize({3}));
                a.setData(TV[0]);
                DataFrame df;
                Axis ax; ax.bounded = true;
                RangeDimension r1, r2; SampledDimension s1, s2; SetDimension t1, t2; DataFrameDimension d1, d2;
                double interval = 1.0; boost::optional<double> offset;
                auto sampled_axis = [&] { ax.bounded = false; ax.x.clear(); for (int i = 0; i < 12; i++) ax.x.push_back(i * interval + (offset ? *offset : 0.0)); };
                auto set_axis = [&](size_t nl) { ax.bounded = nl > 0; ax.x.clear(); for (size_t i = 0; i < (nl > 0 ? nl : 12); i++) ax.x.push_back((double)i); };
                if (kind == 0) { r1 = a.appendRangeDimension(TV[0]); r2 = a.getDimension(1).asRangeDimension(); ax.x = TV[0]; }
                if (kind == 1) { r1 = a.appendAliasRangeDimension(); r2 = a.getDimension(1).asRangeDimension(); ax.x = TV[0]; }
                if (kind == 2) { s1 = a.appendSampledDimension(interval); s2 = a.getDimension(1).asSampledDimension(); sampled_axis(); }
                if (kind == 3) { t1 = a.appendSetDimension(LV[0]); t2 = a.getDimension(1).asSetDimension(); set_axis(3); }
                if (kind == 4) { df = b.createDataFrame("fr", "t", std::vector<Column>{{"c", "", DataType::Double}}); df.rows(3); d1 = a.appendDataFrameDimension(df, 0u); d2 = a.getDimension(1).asDataFrameDimension(); ax.x = {0, 1, 2}; }
                // warm the handles: a cache is filled by the first query
                auto all_grids = [&](const std::string &lastop, const std::string &ctx) {
                    if (kind <= 1) { grid(KN[kind], "the handle returned by append", lastop, ax, r1, ctx); grid(KN[kind], "a second handle obtained earlier", lastop, ax, r2, ctx); grid(KN[kind], "a fresh handle", lastop, ax, a.getDimension(1).asRangeDimension(), ctx);
                        std::vector<double> tk; std::string e = vf::guarded([&] { tk = r1.ticks(); }); if (!e.empty() || tk != ax.x) vf::violation(std::string("C07|") + KN[kind] + "::ticks after " + lastop + "|through the handle returned by append|differs from the axis", ctx); }
                    if (kind == 2) { grid(KN[kind], "the handle returned by append", lastop, ax, s1, ctx); grid(KN[kind], "a second handle obtained earlier", lastop, ax, s2, ctx); grid(KN[kind], "a fresh handle", lastop, ax, a.getDimension(1).asSampledDimension(), ctx); }
                    if (kind == 3) { grid(KN[kind], "the handle returned by append", lastop, ax, t1, ctx); grid(KN[kind], "a second handle obtained earlier", lastop, ax, t2, ctx); grid(KN[kind], "a fresh handle", lastop, ax, a.getDimension(1).asSetDimension(), ctx); }
                    if (kind == 4) { grid(KN[kind], "the handle returned by append", lastop, ax, d1, ctx); grid(KN[kind], "a second handle obtained earlier", lastop, ax, d2, ctx); grid(KN[kind], "a fresh handle", lastop, ax, a.getDimension(1).asDataFrameDimension(), ctx); }
                };
                std::string ctx = KN[kind];
                all_grids("append", ctx + ": after append");
                bool ok = true;
                for (size_t si = 0; si < seq.size() && ok; si++) {
                    const Step &st = alpha[seq[si]];
                    ctx += " ; " + st.name;
                    int h = st.code / 10, j = st.code % 10;
                    std::string e = vf::guarded([&] {
                        if (st.code == 99) { f.close(); f = File::open(path, FileMode::ReadWrite); b = f.getBlock("b"); a = b.getDataArray("a");
                            if (kind <= 1) { r1 = a.getDimension(1).asRangeDimension(); r2 = a.getDimension(1).asRangeDimension(); }
                            if (kind == 2) { s1 = a.getDimension(1).asSampledDimension(); s2 = a.getDimension(1).asSampledDimension(); }
                            if (kind == 3) { t1 = a.getDimension(1).asSetDimension(); t2 = a.getDimension(1).asSetDimension(); }
                            if (kind == 4) { df = b.getDataFrame("fr"); d1 = a.getDimension(1).asDataFrameDimension(); d2 = a.getDimension(1).asDataFrameDimension(); } }
                        else if (kind == 0) { (h == 1 ? r1 : r2).ticks(TV[j]); ax.x = TV[j]; }
                        else if (kind == 1) {
                            if (h == 1) { a.setData(TV[j]); ax.x = TV[j]; } else if (h == 2) { r1.ticks(TV[j]); ax.x = TV[j]; }
                            else if (st.code == 30) { if (ax.x.size() < 2) throw ops_skip(); NDSize e2 = a.dataExtent(); e2[0] -= 1; a.dataExtent(e2); ax.x.pop_back(); }
                            else { double v = ax.x.back() + 2.0; a.appendData(DataType::Double, &v, NDSize({1}), 0); ax.x.push_back(v); } }
                        else if (kind == 2) { SampledDimension &s = h == 1 ? s1 : s2; if (j < 5) { s.samplingInterval(IV[j]); interval = IV[j]; } else { if (OV[j - 5]) s.offset(*OV[j - 5]); else s.offset(boost::none); offset = OV[j - 5]; } sampled_axis(); }
                        else if (kind == 3) { SetDimension &s = h == 1 ? t1 : t2; if (LV[j].empty()) s.labels(boost::none); else s.labels(LV[j]); set_axis(LV[j].size()); }
                        else if (kind == 4) { size_t n = st.code - 10; df.rows(n); ax.x.clear(); for (size_t i = 0; i < n; i++) ax.x.push_back((double)i); if (n == 0) { ax.bounded = true; } }
                    });
                    if (!e.empty()) { if (e != "exc:ops_skip") vf::violation(std::string("C07|") + KN[kind] + "|step fails|" + st.name + "|" + e, ctx); ok = false; break; }
                    vf::count("steps");
                    if (kind == 4 && ax.x.empty()) continue;   // a data-frame dimension over zero rows: 'including none' is left to the stateless grid
                    if (si + 1 == seq.size()) all_grids(st.name.substr(0, st.name.find(" via")), ctx); else { // intermediate steps: query once through every live handle so that caches are warm
                        if (kind <= 1) { vf::guarded([&] { r1.indexOf(0.0, PositionMatch::GreaterOrEqual); r2.indexOf(0.0, PositionMatch::GreaterOrEqual); r1.ticks(); r2.ticks(); }); }
                        if (kind == 2) vf::guarded([&] { s1.indexOf(0.0, PositionMatch::GreaterOrEqual); s2.indexOf(0.0, PositionMatch::GreaterOrEqual); });
                        if (kind == 3) vf::guarded([&] { t1.indexOf(0.0, PositionMatch::GreaterOrEqual); t2.indexOf(0.0, PositionMatch::GreaterOrEqual); });
                        if (kind == 4) vf::guarded([&] { d1.indexOf(0.0, PositionMatch::GreaterOrEqual); d2.indexOf(0.0, PositionMatch::GreaterOrEqual); });
                    }
                }
                r1 = none; r2 = none; s1 = none; s2 = none; t1 = none; t2 = none; d1 = none; d2 = none;
                vf::guarded([&] { f.close(); });
                vf::count("traces");
                if (!ok || (int)seq.size() >= depth || vf::deadline_hit()) return;
                for (size_t k = 0; k < alpha.size(); k++) { if (alpha[k].code == 99 && alpha[seq.back()].code == 99) continue; seq.push_back((int)k); rec(); seq.pop_back(); }
            };
            rec();
            if (first == 0) vf::sample(vf::jstr(std::string(KN[kind]) + ": " + alpha[first].name + " ; <every second step> ; <every third step>, grid through 3 handles after the last step"), 5);
        }
    }
    return vf::finish();
}
