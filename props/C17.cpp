// C17 — position-based slices and DataView windows address exactly their region.
//
// Part (a), exhaustive grid (E2): util::dataSlice(array, start, end, units, match) on arrays of rank 1..3
// (extent <= 5 per axis, element value = its linear index, so WHICH elements came back is visible), every
// combination of descriptor kinds per axis (sampled / range / set / data-frame) with a family of parameter sets,
// start/end vectors of every length 0..rank (+1: must be rejected), per axis the candidates on / one ulp beside /
// between / below / beyond the coordinates, both RangeMatch modes and the default, without units and with units
// equal to the dimensions' units.  Reference (transcribed from the statement): per specified axis the indices whose
// coordinate (as reported by the library: positionAt / ticks / 0..n-1) lies in [start,end] resp. [start,end), by
// linear scan; unspecified axes in full; start > end, an empty region or a region that contains an axis index
// outside the data -> throws and returns nothing.  Compared with DataView::dataExtent() and the full content.
// Start and end vectors of DIFFERENT lengths (appended cases): every (Ls, Le), 0 <= Ls, Le <= rank, Ls != Le (rank 1
// and 2: every configuration; rank 3: a subset), plus configurations whose sampled axes have NEGATIVE offsets (and
// positive ones larger than the axis is long).  A dimension for which only the start is given runs from the start to
// the LAST coordinate of the data (Inclusive: last element included; Exclusive: the statement is silent on the very
// last element, so the first index is asserted and the count must be the full one or one less); a dimension for
// which only the end is given starts at the FIRST coordinate of the data; a dimension with neither is taken in full.
//
// Part (b), request grid + histories (E1): DataView on a 3x4 and a 2x3x2 Double array: every window inside the
// array (and every (offset,count) violating the constructor's checks), for every window every request
// (count 0..w+1 per axis, w = window extent; offset 0..N per axis, N = ARRAY extent: inside, touching, crossing the
// window edge, starting on the far edge and starting strictly BEHIND it -- inside the array but outside the window,
// the requests whose origin + offset + count still fits the array included; wrong rank; offset omitted)
// through getData and setData, raw pointer interface and typed containers (boost::multi_array), and for the 3x4
// array all PAIRS of requests in sequence (write, then read).  Reference model: a plain copy of the array.
// A read returns exactly the cells at window origin + offset; a write changes exactly those cells (the WHOLE
// array is compared with the model after every operation); a request exceeding the window throws and transfers
// nothing (array unchanged, sentinel-filled output buffer untouched).
#include <nix.hpp>
#include <nix/util/dataAccess.hpp>
#include <boost/multi_array.hpp>
#include <nix/hydra/multiArray.hpp>
#include <cmath>
#include <cfloat>
#include <memory>
#include "vf.hpp"

using namespace nix;

typedef std::vector<size_t> Idx;
static const double SENT = -777.25;

static size_t prod(const Idx &v) { size_t p = 1; for (size_t x : v) p *= x; return p; }
static NDSize nds(const Idx &v) { NDSize n(v.size()); for (size_t i = 0; i < v.size(); i++) n[i] = v[i]; return n; }
static std::string istr(const Idx &v) { return vf::jvec(v); }
// odometer over the box [0,lim_0) x ... x [0,lim_r); last axis fastest; false when wrapped around
static bool next(Idx &cur, const Idx &lim) {
    for (size_t k = cur.size(); k-- > 0;) {
        if (++cur[k] < lim[k]) return true;
        cur[k] = 0;
    }
    return false;
}
static bool empty_box(const Idx &lim) { for (size_t x : lim) if (x == 0) return true; return false; }
// linear (row-major) indices of the block off/cnt of an array with extents ext, in row-major order of the block
static std::vector<size_t> block_cells(const Idx &ext, const Idx &off, const Idx &cnt) {
    std::vector<size_t> cells;
    if (empty_box(cnt)) return cells;
    Idx cur(cnt.size(), 0);
    do {
        size_t lin = 0;
        for (size_t k = 0; k < ext.size(); k++) lin = lin * ext[k] + off[k] + cur[k];
        cells.push_back(lin);
    } while (next(cur, cnt));
    return cells;
}
static std::string dstr(double d) { std::ostringstream o; o.precision(17); o << d; return o.str(); }
static std::string dvec(const std::vector<double> &v) {
    std::string s = "[";
    for (size_t i = 0; i < v.size(); i++) s += (i ? "," : "") + dstr(v[i]);
    return s + "]";
}

// =====================================================================================================
// Part (a): util::dataSlice
// =====================================================================================================
enum Kind { K_SAMPLED = 0, K_RANGE, K_SET, K_FRAME };
static const char *KNAME[] = {"sampled", "range", "set", "dataframe"};

struct Desc {
    Kind kind;
    double interval; int offk;   // sampled: interval, offset OFFS[offk] (0: absent)
    int variant;                 // range: 0 equidistant, 1 irregular with negative start; set: 0 without labels, 1 with labels
};
static const double OFFS[] = {0.0, 0.25, 1.5, /* only in the configurations appended later: */ -0.75, -3.0, 7.0};
static std::string dname(const Desc &d) {
    switch (d.kind) {
    case K_SAMPLED: return "sampled(interval=" + dstr(d.interval) + ",offset=" + (d.offk ? dstr(OFFS[d.offk]) : std::string("absent")) + ")";
    case K_RANGE: return d.variant ? "range(irregular)" : "range(equidistant)";
    case K_SET: return d.variant ? "set(labels)" : "set(no labels)";
    default: return "dataframe";
    }
}
static std::vector<Desc> all_descs() {
    std::vector<Desc> v;
    const double ivs[] = {1.0, 0.5, 0.1, 0.3, 2.5};
    for (double iv : ivs) for (int o = 0; o < 3; o++) v.push_back(Desc{K_SAMPLED, iv, o, 0});
    v.push_back(Desc{K_RANGE, 0, 0, 0}); v.push_back(Desc{K_RANGE, 0, 0, 1});
    v.push_back(Desc{K_SET, 0, 0, 0}); v.push_back(Desc{K_SET, 0, 0, 1});
    v.push_back(Desc{K_FRAME, 0, 0, 0});
    return v;
}
static std::vector<Desc> descs_of(const std::vector<Desc> &all, Kind k) {
    std::vector<Desc> v; for (const Desc &d : all) if (d.kind == k) v.push_back(d); return v;
}

struct Axis {
    Desc d; size_t n = 0;
    std::string unit = "none";   // the unit the dimension carries ("none": no unit)
    bool bounded = true;         // false: the axis continues beyond the data (sampled, set without labels)
    std::vector<double> c;       // the coordinates the library reports: n for bounded axes, n+2 otherwise
};

struct Config { std::vector<Desc> descs; Idx ext; bool unit_flavour; };
static std::string cname(const Config &c) {
    std::string s = "array " + istr(c.ext) + " axes:";
    for (const Desc &d : c.descs) s += " " + dname(d);
    return s + (c.unit_flavour ? " [dimensions carry units]" : " [no units]");
}

static const double EQUI[] = {1.0, 1.5, 2.0, 2.5, 3.0};
static const double IRRE[] = {-2.5, -1.0, 0.125, 3.0, 10.5};

// creates the array with its descriptors; fills axes[k].c/unit/bounded from what the library reports
static DataArray make_array(Block &b, const std::string &name, const Config &cfg, std::vector<Axis> &axes, std::vector<std::string> &frames) {
    size_t total = prod(cfg.ext);
    DataArray da = b.createDataArray(name, "t", DataType::Double, nds(cfg.ext));
    std::vector<double> vals(total);
    for (size_t i = 0; i < total; i++) vals[i] = (double)i;
    da.setData(DataType::Double, vals.data(), nds(cfg.ext), NDSize(cfg.ext.size(), 0));
    axes.clear();
    for (size_t k = 0; k < cfg.descs.size(); k++) {
        Axis ax; ax.d = cfg.descs[k]; ax.n = cfg.ext[k];
        switch (ax.d.kind) {
        case K_SAMPLED: {
            SampledDimension sd = da.appendSampledDimension(ax.d.interval, "", cfg.unit_flavour ? "ms" : "", OFFS[ax.d.offk]);
            for (size_t i = 0; i < ax.n + 2; i++) ax.c.push_back(sd.positionAt(i));
            ax.unit = cfg.unit_flavour ? "ms" : "none"; ax.bounded = false;
            break; }
        case K_RANGE: {
            std::vector<double> t(ax.d.variant ? IRRE : EQUI, (ax.d.variant ? IRRE : EQUI) + ax.n);
            RangeDimension rd = da.appendRangeDimension(t, "", cfg.unit_flavour ? "s" : "");
            ax.c = rd.ticks();
            ax.unit = cfg.unit_flavour ? "s" : "none";
            break; }
        case K_SET: {
            std::vector<std::string> labels;
            if (ax.d.variant) for (size_t i = 0; i < ax.n; i++) labels.push_back("l" + std::to_string(i));
            da.appendSetDimension(labels);
            ax.bounded = ax.d.variant != 0;
            for (size_t i = 0; i < ax.n + (ax.bounded ? 0 : 2); i++) ax.c.push_back((double)i);
            break; }
        default: {
            std::vector<Column> cols = {{"c0", "", DataType::Double}, {"c1", "mV", DataType::Int64}};
            std::string fn = name + "_df" + std::to_string(k);
            DataFrame df = b.createDataFrame(fn, "t", cols);
            df.rows(ax.n);
            frames.push_back(fn);
            da.appendDataFrameDimension(df, cfg.unit_flavour ? 1u : 0u);
            for (size_t i = 0; i < ax.n; i++) ax.c.push_back((double)i);
            ax.unit = cfg.unit_flavour ? "mV" : "none";
            break; }
        }
        axes.push_back(ax);
    }
    return da;
}

// ---- candidates ----
static double step_of(const Axis &ax) { return ax.n > 1 ? ax.c[ax.n - 1] - ax.c[ax.n - 2] : (ax.c.size() > ax.n ? ax.c[ax.n] - ax.c[ax.n - 1] : 1.0); }
static void uniq(std::vector<double> &v) { std::sort(v.begin(), v.end()); v.erase(std::unique(v.begin(), v.end()), v.end()); }

// every coordinate, +-1 ulp, midpoints, below the first, between the last data coordinate and the next axis position,
// (unbounded axes) the first axis coordinate outside the data, far beyond
static std::vector<double> cands_full(const Axis &ax) {
    std::vector<double> c;
    double h = step_of(ax);
    c.push_back(ax.c[0] - 1.0);
    for (size_t i = 0; i < ax.n; i++) {
        c.push_back(ax.c[i]); c.push_back(std::nextafter(ax.c[i], -INFINITY)); c.push_back(std::nextafter(ax.c[i], INFINITY));
        if (i + 1 < ax.n) c.push_back(ax.c[i] + (ax.c[i + 1] - ax.c[i]) / 2);
    }
    c.push_back(ax.c[ax.n - 1] + h / 2);
    if (!ax.bounded) c.push_back(ax.c[ax.n]);
    c.push_back(ax.c[ax.n - 1] + 3 * h);
    uniq(c);
    return c;
}
// reduced set: below / first / one sample with its ulp neighbours / a midpoint / last / beyond
static std::vector<double> cands_reduced(const Axis &ax) {
    std::vector<double> c;
    double h = step_of(ax);
    size_t k = ax.n / 2;
    c.push_back(ax.c[0] - 1.0);
    c.push_back(ax.c[0]);
    c.push_back(std::nextafter(ax.c[k], -INFINITY)); c.push_back(ax.c[k]); c.push_back(std::nextafter(ax.c[k], INFINITY));
    c.push_back(k + 1 < ax.n ? ax.c[k] + (ax.c[k + 1] - ax.c[k]) / 2 : ax.c[k] + h / 2);
    c.push_back(ax.c[ax.n - 1]);
    c.push_back(ax.c[ax.n - 1] + 3 * h);
    uniq(c);
    return c;
}
typedef std::vector<std::pair<double, double>> Pairs;
static Pairs pairs_full(const Axis &ax) {
    Pairs p; std::vector<double> c = cands_full(ax);
    for (double s : c) for (double e : c) p.push_back(std::make_pair(s, e));
    return p;
}
static Pairs pairs_reduced(const Axis &ax) {
    Pairs p; std::vector<double> c = cands_reduced(ax);
    for (size_t i = 0; i < c.size(); i++) for (size_t j = i; j < c.size(); j++) p.push_back(std::make_pair(c[i], c[j]));
    p.push_back(std::make_pair(c.back(), c.front()));                                                    // reversed, far apart
    size_t k = ax.n / 2;
    p.push_back(std::make_pair(std::nextafter(ax.c[k], INFINITY), ax.c[k]));                            // reversed by one ulp
    return p;
}
static Pairs pairs_three(const Axis &ax, bool more) {
    double h = step_of(ax);
    size_t k = ax.n / 2;
    double a = ax.c[0], m = k + 1 < ax.n ? ax.c[k] + (ax.c[k + 1] - ax.c[k]) / 2 : ax.c[k] + h / 2, z = ax.c[ax.n - 1];
    Pairs p;
    p.push_back(std::make_pair(a, m)); p.push_back(std::make_pair(a, z)); p.push_back(std::make_pair(m, m)); p.push_back(std::make_pair(m, z));
    p.push_back(std::make_pair(ax.n > 1 ? z : m, a));                                                   // reversed
    if (more) {
        p.push_back(std::make_pair(a, a)); p.push_back(std::make_pair(z, z));                            // points on coordinates
        p.push_back(std::make_pair(a, z + 3 * h));                                                       // end beyond the data
    }
    // (n == 1: a == z; duplicates are removed)
    std::sort(p.begin(), p.end()); p.erase(std::unique(p.begin(), p.end()), p.end());
    return p;
}

// position class relative to the DATA coordinates c[0..n)
static std::string pclass(const Axis &ax, double p) {
    if (p < ax.c[0]) return "below-first";
    if (p > ax.c[ax.n - 1]) {
        if (std::nextafter(p, -INFINITY) == ax.c[ax.n - 1]) return "1ulp-above-coordinate";
        if (!ax.bounded && p == ax.c[ax.n]) return "on-first-axis-position-outside-the-data";
        if (!ax.bounded && p > ax.c[ax.n]) return "beyond-first-axis-position-outside-the-data";
        return "beyond-last";
    }
    std::vector<double>::const_iterator b = ax.c.begin(), e = ax.c.begin() + ax.n;
    size_t lo = std::lower_bound(b, e, p) - b;
    if (lo < ax.n && ax.c[lo] == p) return "on-coordinate";
    if (lo < ax.n && std::nextafter(p, INFINITY) == ax.c[lo]) return "1ulp-below-coordinate";
    if (lo > 0 && std::nextafter(p, -INFINITY) == ax.c[lo - 1]) return "1ulp-above-coordinate";
    return "between-coordinates";
}
static std::string relclass(const Axis &ax, double s, double e) {
    if (s > e) return "start > end";
    if (s == e) return std::string("start == end ") + (pclass(ax, s) == "on-coordinate" ? "on a coordinate" : "off the coordinates");
    if (e - s <= DBL_EPSILON) return "0 < end-start <= DBL_EPSILON";
    return "start < end, start " + pclass(ax, s) + ", end " + pclass(ax, e);
}

// ---- reference ----
struct Ref {
    bool thr = false; std::string why; int axis = -1;   // expected: throws (why, first axis responsible)
    Idx off, cnt;                                       // else: the block
    std::vector<char> loose;                            // per axis of the block: count cnt or cnt-1 are both accepted (cnt-1 == 0: an error too)
    std::vector<double> es, ee;                         // per axis the effective start / end (given, or first / last coordinate of the data)
};
// s and e may have different lengths: axis k has its start given iff k < s.size(), its end given iff k < e.size()
static Ref reference(const std::vector<Axis> &axes, const std::vector<double> &s, const std::vector<double> &e, bool inclusive) {
    Ref r;
    if (s.size() > axes.size() || e.size() > axes.size()) { r.thr = true; r.why = "more entries than dimensions"; return r; }
    r.es.assign(axes.size(), 0.0); r.ee.assign(axes.size(), 0.0);
    for (size_t k = 0; k < axes.size(); k++) {
        const Axis &ax = axes[k];
        const bool hs = k < s.size(), he = k < e.size();
        if (!hs && !he) { r.off.push_back(0); r.cnt.push_back(ax.n); r.loose.push_back(0); continue; }   // unspecified: in full
        // only the end given: from the FIRST coordinate of the data; only the start given: up to the LAST coordinate of
        // the data.  Whether that last element itself belongs to an Exclusive region is not asserted (loose).
        const double sk = hs ? s[k] : ax.c[0], ek = he ? e[k] : ax.c[ax.n - 1];
        const bool incl = inclusive || !he, lo = !he && !inclusive;
        r.es[k] = sk; r.ee[k] = ek;
        if (sk > ek) { if (!r.thr) { r.thr = true; r.why = "start > end"; r.axis = (int)k; } continue; }
        std::vector<size_t> S;
        for (size_t i = 0; i < ax.c.size(); i++)                                       // linear scan
            if (sk <= ax.c[i] && (incl ? ax.c[i] <= ek : ax.c[i] < ek)) S.push_back(i);
        if (S.empty()) { if (!r.thr) { r.thr = true; r.why = "empty region"; r.axis = (int)k; } continue; }
        if (S.back() >= ax.n) { if (!r.thr) { r.thr = true; r.why = "region leaves the data"; r.axis = (int)k; } continue; }
        r.off.push_back(S.front()); r.cnt.push_back(S.size()); r.loose.push_back(lo ? 1 : 0);
    }
    return r;
}

// ---- the call ----
struct Outcome {
    bool thrown = false; std::string exc, what;
    bool have_ext = false; Idx ext; std::vector<double> data;
    std::string defect;   // problems of the returned view itself (rank, type, read failure, buffer overrun)
};
static const char *MODE[] = {"Inclusive", "Exclusive", "default(Exclusive)"};

static Outcome run_slice(const DataArray &da, size_t rank, const std::vector<double> &s, const std::vector<double> &e,
                         const std::vector<std::string> *units, int mode) {
    Outcome o; std::unique_ptr<DataView> v;
    const std::vector<std::string> none;
    o.exc = vf::guarded([&] {
        if (mode == 2) {
            if (units) v.reset(new DataView(util::dataSlice(da, s, e, *units)));
            else v.reset(new DataView(util::dataSlice(da, s, e)));
        } else {
            v.reset(new DataView(util::dataSlice(da, s, e, units ? *units : none, mode == 0 ? RangeMatch::Inclusive : RangeMatch::Exclusive)));
        }
    }, &o.what);
    o.thrown = !o.exc.empty();
    vf::count("slices");
    if (!v) return o;
    NDSize ext = v->dataExtent();
    o.have_ext = true;
    for (size_t i = 0; i < ext.size(); i++) o.ext.push_back((size_t)ext[i]);
    if (ext.size() != rank) { o.defect = "view rank " + std::to_string(ext.size()) + " != array rank"; return o; }
    if (v->dataType() != DataType::Double) { o.defect = "view dataType differs from the array's"; return o; }
    size_t total = prod(o.ext);
    if (total == 0 || total > 4096) { o.defect = "view extent " + istr(o.ext) + " is empty or larger than the array"; return o; }
    std::vector<double> buf(total + 3, SENT);
    std::string w;
    std::string rexc = vf::guarded([&] { v->getData(DataType::Double, buf.data(), ext, NDSize(rank, 0)); }, &w);
    if (!rexc.empty()) { o.defect = "reading the returned view failed: " + rexc + " " + w; return o; }
    for (size_t i = total; i < buf.size(); i++) if (buf[i] != SENT) o.defect = "reading the returned view wrote past count elements";
    o.data.assign(buf.begin(), buf.begin() + total);
    return o;
}

// if data is the block (off, ext) of the array for some off: return off
static bool derive_block(const Idx &aext, const Outcome &o, Idx &off) {
    double v0 = o.data[0];
    if (!(v0 >= 0) || v0 != std::floor(v0) || v0 >= (double)prod(aext)) return false;
    size_t lin = (size_t)v0;
    off.assign(aext.size(), 0);
    for (size_t k = aext.size(); k-- > 0;) { off[k] = lin % aext[k]; lin /= aext[k]; }
    for (size_t k = 0; k < aext.size(); k++) if (off[k] + o.ext[k] > aext[k]) return false;
    std::vector<size_t> cells = block_cells(aext, off, o.ext);
    for (size_t i = 0; i < cells.size(); i++) if (o.data[i] != (double)cells[i]) return false;
    return true;
}

static std::string ostr(const Outcome &o) {
    if (o.thrown) return o.exc + " (" + o.what + ")";
    return "view extent " + istr(o.ext) + (o.data.empty() ? "" : " content " + dvec(o.data)) + (o.defect.empty() ? "" : " [" + o.defect + "]");
}

struct SliceCtx {
    const Config *cfg; const std::vector<Axis> *axes; const DataArray *da; int mode; long ci;
    long samples = 0; std::string kinds;
};

static void check_slice(SliceCtx &cx, const std::vector<double> &s, const std::vector<double> &e, bool with_units_too) {
    const std::vector<Axis> &axes = *cx.axes;
    const size_t rank = axes.size(), Ls = s.size(), Le = e.size(), L = std::max(Ls, Le), Lmin = std::min(Ls, Le);
    const bool inclusive = cx.mode == 0;
    const std::string mode = inclusive ? "Inclusive" : "Exclusive";
    Ref ref = reference(axes, s, e, inclusive);
    Outcome o = run_slice(*cx.da, rank, s, e, nullptr, cx.mode);
    auto ctx = [&]() { return cname(*cx.cfg) + "; dataSlice(start=" + dvec(s) + ", end=" + dvec(e) + ", units={}, " + MODE[cx.mode] + ") [start=" + vf::jvecd(s) + " end=" + vf::jvecd(e) + "]"; };
    std::string lclass = L > rank ? "more start/end entries than dimensions" : Ls != Le ? "start and end vectors of different lengths" : L < rank ? "fewer start/end entries than dimensions" : "one start/end entry per dimension";
    // how axis k is specified
    auto given = [&](size_t k) { return k < Lmin ? "" : k < Ls ? "only the start given (region runs to the last coordinate of the data)" : k < Le ? "only the end given (region starts at the first coordinate of the data)" : "not specified"; };
    auto expect = [&]() {
        if (ref.thr) return "throws (" + ref.why + (ref.axis >= 0 ? " on axis " + std::to_string(ref.axis) + ((size_t)ref.axis >= Lmin ? std::string(", ") + given(ref.axis) : "") : "") + ")";
        std::string x = "block offset " + istr(ref.off) + " count " + istr(ref.cnt);
        for (size_t k = 0; k < ref.loose.size(); k++) if (ref.loose[k]) x += " (axis " + std::to_string(k) + ": count " + std::to_string(ref.cnt[k]) + " or " + std::to_string(ref.cnt[k] - 1) + ")";
        return x;
    };
    vf::distinct("outcomes", "slice|" + cx.kinds + "|L=" + (Ls == Le ? std::to_string(L) : std::to_string(Ls) + "/" + std::to_string(Le)) + "|" + mode + "|" + (ref.thr ? ref.why : "region") + "|" + (o.thrown ? o.exc : "view"));
    if (ref.thr) vf::count("slices_expected_to_throw"); else vf::count("slices_expected_region");
    if (Ls != Le) vf::count("slices_start_end_of_different_lengths");

    if (!o.defect.empty()) {
        vf::violation("C17|dataSlice|" + lclass + "|returned view is readable and has the array's rank and type|" + o.defect.substr(0, o.defect.find(':')), ctx() + ": " + ostr(o));
    } else if (ref.thr && !o.thrown) {
        std::string ic = mode + ", " + lclass;
        if (ref.axis >= 0) {
            const Axis &ax = axes[ref.axis];
            ic = mode + ", " + relclass(ax, ref.es[ref.axis], ref.ee[ref.axis]);   // effective start / end (given or first / last coordinate)
            if (ref.why == "region leaves the data") ic += std::string(", ") + KNAME[ax.d.kind] + " axis";
        }
        vf::violation("C17|dataSlice|" + ic + "|" + ref.why + " raises an error|a view is returned", ctx() + ": got " + ostr(o) + ", expected " + expect());
    } else if (!ref.thr && o.thrown) {
        // Exclusive, only the start given and the last element is the only candidate: whether it belongs to the region is not asserted
        bool tolerated = false;
        for (size_t k = 0; k < rank; k++) if (ref.loose[k] && ref.cnt[k] == 1) tolerated = true;
        if (tolerated) vf::count("slices_not_asserted_exclusive_start_only_on_last_element");
        else vf::violation("C17|dataSlice|" + mode + ", " + lclass + "|a region inside the data is returned|" + o.exc, ctx() + ": got " + ostr(o) + ", expected " + expect());
    } else if (!ref.thr) {
        Idx goff;
        if (!derive_block(cx.cfg->ext, o, goff)) {
            vf::violation("C17|dataSlice|" + mode + ", " + lclass + "|content of the view is the addressed block of the array|content is not a block of the array", ctx() + ": got " + ostr(o) + ", expected " + expect());
        } else {
          auto axis_ok = [&](size_t k) { return goff[k] == ref.off[k] && (o.ext[k] == ref.cnt[k] || (ref.loose[k] && o.ext[k] + 1 == ref.cnt[k])); };
          size_t k = 0;
          while (k < rank && axis_ok(k)) k++;
          if (k < rank) {
            const Axis &ax = axes[k];
            long gs = (long)goff[k], ge = (long)(goff[k] + o.ext[k]) - 1, ws = (long)ref.off[k], we = (long)(ref.off[k] + ref.cnt[k]) - 1;
            std::string dev;
            if (gs != ws) dev += gs > ws ? "start index too large" : "start index too small";
            if (ge != we) dev += std::string(dev.empty() ? "" : ", ") + (ge > we ? "end index too large" : "end index too small");
            std::string got = "block offset " + istr(goff) + " count " + istr(o.ext);
            if (k >= Lmin && k < L) {
                const bool only_start = k < Ls;
                const double p = only_start ? s[k] : e[k];
                vf::violation("C17|dataSlice|" + std::string(KNAME[ax.d.kind]) + " axis, " + mode + (only_start ? ", only the start given, start " : ", only the end given, end ") + pclass(ax, p) + "|" +
                                  (only_start ? "region runs from the start to the last coordinate of the data" : "region runs from the first coordinate of the data to the end") + "|" + dev,
                              ctx() + ": axis " + std::to_string(k) + " (" + dname(ax.d) + ", coordinates " + dvec(ax.c) + ", data extent " + std::to_string(ax.n) + ") " + given(k) + "; got " + got + ", expected " + expect());
            } else if (k >= L) {
                if (gs == ws && ge == we - 1) dev = "last element of the unspecified dimension dropped";
                vf::violation("C17|dataSlice|" + std::string(Ls != Le ? "start and end vectors of different lengths" : "fewer start/end entries than dimensions") + ", " + mode + "|unspecified dimension returned in full|" + dev,
                              ctx() + ": axis " + std::to_string(k) + " (" + dname(ax.d) + ", extent " + std::to_string(ax.n) + ") is not specified; got " + got + ", expected " + expect());
            } else {
                vf::violation("C17|dataSlice|" + std::string(KNAME[ax.d.kind]) + " axis, " + mode + ", " + relclass(ax, s[k], e[k]) + "|exactly the elements with coordinate in the interval|" + dev,
                              ctx() + ": axis " + std::to_string(k) + " (" + dname(ax.d) + ", coordinates " + dvec(ax.c) + ", data extent " + std::to_string(ax.n) + "); got " + got + ", expected " + expect());
            }
          }
        }
    }
    if (cx.samples < 2 && !ref.thr && L > 0 && cx.ci % 37 == 0) {
        cx.samples++;
        vf::sample("{\"part\":\"a\",\"array\":" + vf::jstr(cname(*cx.cfg)) + ",\"start\":" + vf::jvecd(s) + ",\"end\":" + vf::jvecd(e) + ",\"mode\":" + vf::jstr(MODE[cx.mode]) +
                   ",\"expected\":" + vf::jstr(expect()) + ",\"got\":" + vf::jstr(ostr(o)) + "}", 6);
    }
    // units equal to the dimensions' units: same result as without units
    if (with_units_too && L <= rank) {
        std::vector<std::string> units;
        for (size_t k = 0; k < L; k++) units.push_back(axes[k].unit);
        Outcome u = run_slice(*cx.da, rank, s, e, &units, cx.mode);
        vf::count("slices_with_units");
        bool same = u.thrown == o.thrown && u.ext == o.ext && u.data == o.data && u.defect == o.defect;
        if (!same)
            vf::violation("C17|dataSlice|units equal to the dimensions' units, " + mode + "|same result as without units|" + (u.thrown != o.thrown ? (u.thrown ? u.exc + " instead of a view" : "view instead of an error") : "different region"),
                          ctx() + " units=" + vf::jvecs(units) + ": got " + ostr(u) + ", without units " + ostr(o));
    }
    // one unit per DIMENSION although fewer start / end entries are given: the dimensions without entries are still unspecified
    if (with_units_too && L < rank) {
        std::vector<std::string> units;
        for (size_t k = 0; k < rank; k++) units.push_back(axes[k].unit);
        Outcome u = run_slice(*cx.da, rank, s, e, &units, cx.mode);
        vf::count("slices_with_units");
        bool same = u.thrown == o.thrown && u.ext == o.ext && u.data == o.data && u.defect == o.defect;
        if (!same)
            vf::violation("C17|dataSlice|one unit per dimension but fewer start/end entries, " + mode + "|same result as without units|" + (u.thrown != o.thrown ? (u.thrown ? u.exc + " instead of a view" : "view instead of an error") : "different region"),
                          ctx() + " units=" + vf::jvecs(units) + ": got " + ostr(u) + ", without units " + ostr(o));
    }
}

// single candidates for the rank-3 plans: first coordinate, a midpoint, last coordinate (more: below the first, beyond the last)
static std::vector<double> singles_three(const Axis &ax, bool more) {
    double h = step_of(ax);
    size_t k = ax.n / 2;
    std::vector<double> c;
    c.push_back(ax.c[0]); c.push_back(k + 1 < ax.n ? ax.c[k] + (ax.c[k + 1] - ax.c[k]) / 2 : ax.c[k] + h / 2); c.push_back(ax.c[ax.n - 1]);
    if (more) { c.push_back(ax.c[0] - 1.0); c.push_back(ax.c[ax.n - 1] + 3 * h); }
    uniq(c);
    return c;
}

// start and end vectors of different lengths: every (Ls, Le) with 0 <= Ls, Le <= rank, Ls != Le.  Axes below both
// lengths get (start,end) pairs, the axes between the two lengths get single positions (only their start resp. only
// their end is given), the rest is unspecified.
static void mixed_lengths(SliceCtx &cx, int rank_plan, bool thorough, bool units_too) {
    const std::vector<Axis> &axes = *cx.axes;
    const size_t rank = axes.size();
    std::vector<Pairs> pp; std::vector<std::vector<double>> ss;
    for (const Axis &ax : axes) {
        pp.push_back(rank_plan == 1 ? pairs_full(ax) : rank_plan == 2 ? (thorough ? pairs_reduced(ax) : pairs_three(ax, true)) : pairs_three(ax, rank_plan == 4));
        ss.push_back(rank_plan == 1 ? cands_full(ax) : rank_plan == 2 ? cands_reduced(ax) : singles_three(ax, rank_plan == 4));
    }
    for (size_t Ls = 0; Ls <= rank; Ls++) for (size_t Le = 0; Le <= rank; Le++) {
        if (Ls == Le) continue;
        const size_t lo = std::min(Ls, Le), hi = std::max(Ls, Le);
        Idx lim, cur(hi, 0);
        for (size_t k = 0; k < hi; k++) lim.push_back(k < lo ? pp[k].size() : ss[k].size());
        do {
            std::vector<double> s, e;
            for (size_t k = 0; k < hi; k++) {
                if (k < lo) { s.push_back(pp[k][cur[k]].first); e.push_back(pp[k][cur[k]].second); }
                else if (k < Ls) s.push_back(ss[k][cur[k]]);
                else e.push_back(ss[k][cur[k]]);
            }
            check_slice(cx, s, e, units_too);
        } while (next(cur, lim));
        if (vf::deadline_hit()) return;
    }
    // one of the two vectors longer than the rank: must be rejected
    std::vector<double> s, e;
    for (const Axis &ax : axes) { s.push_back(ax.c[0]); e.push_back(ax.c[ax.n - 1]); }
    s.push_back(0.0);
    check_slice(cx, s, e, false);
    s.pop_back(); e.push_back(1.0);
    check_slice(cx, s, e, false);
}

// one case: one array configuration, one mode; start/end vectors of every length 0..rank+1
// (mixed: the start and end vectors of different lengths instead)
static void slice_case(Block &b, const Config &cfg, int mode, long ci, int rank_plan, bool mixed = false, bool thorough = false) {
    std::vector<Axis> axes; std::vector<std::string> frames;
    std::string name = "a" + std::to_string(ci);
    DataArray da = make_array(b, name, cfg, axes, frames);
    bool ok = true;
    for (const Axis &ax : axes) {
        if (ax.c.size() < ax.n) ok = false;
        for (size_t i = 0; i + 1 < ax.c.size(); i++) if (!(ax.c[i] < ax.c[i + 1])) ok = false;
    }
    if (!ok) {
        vf::violation("C17|dimension descriptor|coordinates reported by the library|strictly ascending, one per element|not so", cname(cfg));
    } else {
        vf::count("arrays");
        SliceCtx cx; cx.cfg = &cfg; cx.axes = &axes; cx.da = &da; cx.mode = mode; cx.ci = ci;
        for (const Axis &ax : axes) cx.kinds += std::string(cx.kinds.empty() ? "" : ",") + KNAME[ax.d.kind];
        const size_t rank = axes.size();
        const bool units_too = mode != 2;   // the default-argument call is made without units only
        if (mixed) { mixed_lengths(cx, rank_plan, thorough, units_too); b.deleteDataArray(name); for (const std::string &fn : frames) b.deleteDataFrame(fn); return; }
        std::vector<Pairs> pp;
        for (const Axis &ax : axes) pp.push_back(rank_plan == 1 ? pairs_full(ax) : rank_plan == 2 ? pairs_reduced(ax) : pairs_three(ax, rank_plan == 4));
        for (size_t L = 0; L <= rank; L++) {
            Idx lim, cur(L, 0);
            for (size_t k = 0; k < L; k++) lim.push_back(pp[k].size());
            do {
                std::vector<double> s, e;
                for (size_t k = 0; k < L; k++) { s.push_back(pp[k][cur[k]].first); e.push_back(pp[k][cur[k]].second); }
                check_slice(cx, s, e, units_too);
            } while (L > 0 && next(cur, lim));
            if (vf::deadline_hit()) break;
        }
        // length rank+1: must be rejected (valid entries for the existing axes, anything for the extra one)
        {
            std::vector<double> s, e;
            for (const Axis &ax : axes) { s.push_back(ax.c[0]); e.push_back(ax.c[ax.n - 1]); }
            s.push_back(0.0); e.push_back(0.0);
            check_slice(cx, s, e, false);
            s.back() = 0.0; e.back() = 1.0;
            check_slice(cx, s, e, false);
            // rank entries but rank+1 units
            s.pop_back(); e.pop_back();
            std::vector<std::string> units; for (const Axis &ax : axes) units.push_back(ax.unit);
            units.push_back("none");
            Outcome u = run_slice(da, rank, s, e, &units, mode);
            vf::distinct("outcomes", "slice|units rank+1|" + (u.thrown ? u.exc : std::string("view")));
            if (!u.thrown)
                vf::violation("C17|dataSlice|more unit entries than dimensions|more entries than dimensions raises an error|a view is returned", cname(cfg) + " units=" + vf::jvecs(units) + ": " + ostr(u));
        }
    }
    b.deleteDataArray(name);
    for (const std::string &fn : frames) b.deleteDataFrame(fn);
}

// =====================================================================================================
// Part (b): DataView
// =====================================================================================================
struct Req { Idx cnt, off; bool no_offset = false; };
static std::string rstr(const Req &r) { return "count " + istr(r.cnt) + " offset " + (r.no_offset ? std::string("{}") : istr(r.off)); }

// class of a request against a window with counts w: "wrong-rank", "zero-count", "starting-behind-the-window" (some
// offset strictly larger than the window extent), "crossing" (starts inside or on the far edge, ends outside),
// "touching", "inside"
static std::string rclass(const Idx &w, const Req &r) {
    if (r.cnt.size() != w.size() || (!r.no_offset && r.off.size() != w.size())) return "wrong-rank";
    for (size_t k = 0; k < w.size(); k++) if (r.cnt[k] == 0) return "zero-count";
    if (!r.no_offset) for (size_t k = 0; k < w.size(); k++) if (r.off[k] > w[k]) return "starting-behind-the-window";
    bool touch = false;
    for (size_t k = 0; k < w.size(); k++) {
        size_t o = r.no_offset ? 0 : r.off[k];
        if (o + r.cnt[k] > w[k]) return "crossing";
        if (o + r.cnt[k] == w[k]) touch = true;
    }
    return touch ? "touching" : "inside";
}

// every request with per-axis count 0..w+1 and offset 0..N (w: window extent, N: ARRAY extent): first those with all
// offsets in 0..w, then those with at least one offset behind the window's far edge (w+1..N; zero_behind = false: of
// these only the requests without a zero count -- used for the request PAIRS, to bound their number)
static std::vector<Req> requests_of(const Idx &w, const Idx &aext, bool zero_behind = true) {
    std::vector<Req> v;
    Idx clim, olim, alim;
    for (size_t x : w) { clim.push_back(x + 2); olim.push_back(x + 1); }
    for (size_t x : aext) alim.push_back(x + 1);
    Idx c(w.size(), 0);
    do {
        Idx o(w.size(), 0);
        do { Req r; r.cnt = c; r.off = o; v.push_back(r); } while (next(o, olim));
    } while (next(c, clim));
    c.assign(w.size(), 0);
    do {
        Idx o(w.size(), 0);
        do {
            bool behind = false;
            for (size_t k = 0; k < w.size(); k++) if (o[k] > w[k]) behind = true;
            if (behind && (zero_behind || !empty_box(c))) { Req r; r.cnt = c; r.off = o; v.push_back(r); }
        } while (next(o, alim));
    } while (next(c, clim));
    return v;
}
static std::vector<Req> extra_requests_of(const Idx &w) {
    std::vector<Req> v;
    // offset omitted (the API's "no offset" form): every count
    Idx clim; for (size_t x : w) clim.push_back(x + 2);
    Idx c(w.size(), 0);
    do { Req r; r.cnt = c; r.no_offset = true; v.push_back(r); } while (next(c, clim));
    // wrong rank of count and/or offset
    const size_t R = w.size();
    const size_t ranks[][2] = {{R + 1, R}, {R - 1, R}, {R, R + 1}, {R, R - 1}, {R + 1, R + 1}, {R - 1, R - 1}};
    for (auto &rk : ranks) { Req r; r.cnt = Idx(rk[0], 1); r.off = Idx(rk[1], 0); v.push_back(r); }
    { Req r; r.cnt = Idx(R + 1, 1); r.no_offset = true; v.push_back(r); }
    { Req r; r.cnt = Idx(R - 1, 1); r.no_offset = true; v.push_back(r); }
    return v;
}

template <size_t R> struct Grid {
    DataArray da; Idx ext; std::vector<double> model; double stamp = 1;
    std::string aname;

    void create(Block &b, const std::string &name, const Idx &e) {
        ext = e; aname = "array " + istr(e);
        da = b.createDataArray(name, "t", DataType::Double, nds(e));
        model.resize(prod(e));
        for (size_t i = 0; i < model.size(); i++) model[i] = (double)i;
        da.setData(DataType::Double, model.data(), nds(e), NDSize(R, 0));
    }

    // whole-array comparison with the model; classifies the difference relative to window and request; resynchronises
    void verify(const std::string &site, const std::string &rc, const Idx &worig, const Idx &w, const Req *rq, const std::function<std::string()> &ctx) {
        std::vector<double> cur(model.size() + 2, SENT);
        da.getData(DataType::Double, cur.data(), nds(ext), NDSize(R, 0));
        cur.resize(model.size());
        vf::count("whole_array_compares");
        if (cur == model) return;
        std::vector<size_t> win = block_cells(ext, worig, w);
        std::vector<size_t> reqc;
        if (rq && rq->cnt.size() == R && (rq->no_offset || rq->off.size() == R)) {
            Idx o = worig, c = rq->cnt; bool in = true;
            for (size_t k = 0; k < R; k++) { o[k] += rq->no_offset ? 0 : rq->off[k]; if (o[k] + c[k] > ext[k]) in = false; }
            if (in) reqc = block_cells(ext, o, c);
        }
        bool outside_window = false, outside_request = false, wrong_value = false;
        std::string cells;
        for (size_t i = 0; i < model.size(); i++) if (cur[i] != model[i]) {
            cells += (cells.empty() ? "" : ",") + std::to_string(i) + ":" + dstr(cur[i]) + "(model " + dstr(model[i]) + ")";
            if (std::find(win.begin(), win.end(), i) == win.end()) outside_window = true;
            else if (std::find(reqc.begin(), reqc.end(), i) == reqc.end()) outside_request = true;
            else wrong_value = true;
        }
        std::string dev = outside_window ? "cells outside the window differ" : outside_request ? "cells inside the window but outside the request differ" : wrong_value ? "request cells hold the wrong values" : "differs";
        vf::violation("C17|" + site + "|" + rc + "|underlying array equals the model after the operation|" + dev, ctx() + ": cells (linear index:value) " + cells);
        model = cur;
    }

    // values at window origin + request offset, in row-major order of the request
    std::vector<double> expect_read(const Idx &worig, const Req &r) const {
        Idx o = worig;
        for (size_t k = 0; k < R; k++) o[k] += r.no_offset ? 0 : r.off[k];
        std::vector<double> v;
        for (size_t c : block_cells(ext, o, r.cnt)) v.push_back(model[c]);
        return v;
    }
    void apply_write(const Idx &worig, const Req &r, const std::vector<double> &src) {
        Idx o = worig;
        for (size_t k = 0; k < R; k++) o[k] += r.no_offset ? 0 : r.off[k];
        std::vector<size_t> cells = block_cells(ext, o, r.cnt);
        for (size_t i = 0; i < cells.size(); i++) model[cells[i]] = src[i];
    }

    // one operation through the view. op: 0 getData raw, 1 getData typed, 2 setData raw, 3 setData typed
    void op(DataView &v, int opk, const Idx &worig, const Idx &w, const Req &r) {
        static const char *SITE[] = {"DataView::getData(raw)", "DataView::getData(multi_array)", "DataView::setData(raw)", "DataView::setData(multi_array)"};
        const std::string rc = rclass(w, r) + (r.no_offset ? ", offset omitted" : "");
        const bool wrong_rank = rc.compare(0, 10, "wrong-rank") == 0, zero = rc.compare(0, 10, "zero-count") == 0,
                   crossing = rc.compare(0, 8, "crossing") == 0 || rc.compare(0, 26, "starting-behind-the-window") == 0;
        const bool valid = !wrong_rank && !zero && !crossing;
        const std::string site = SITE[opk];
        auto ctx = [&]() { return aname + ", window offset " + istr(worig) + " count " + istr(w) + ", " + site + " " + rstr(r); };
        const size_t total = prod(r.cnt);   // 0 for zero-count requests
        NDSize ncnt = nds(r.cnt), noff = r.no_offset ? NDSize() : nds(r.off);
        std::string what, exc;
        const bool is_read = opk < 2, typed = opk == 1 || opk == 3;
        std::vector<double> src;
        if (!is_read) { for (size_t i = 0; i < total; i++) src.push_back(stamp * 1000 + (double)i); stamp += 1; }
        vf::count(is_read ? "view_reads" : "view_writes");

        bool buffer_touched = false; std::vector<double> got;
        if (!typed) {
            std::vector<double> buf(total + 4, SENT);
            if (!is_read) std::copy(src.begin(), src.end(), buf.begin());
            if (is_read) exc = vf::guarded([&] { v.getData(DataType::Double, buf.data(), ncnt, noff); }, &what);
            else exc = vf::guarded([&] { v.setData(DataType::Double, buf.data(), ncnt, noff); }, &what);
            if (is_read) {
                for (size_t i = exc.empty() && valid ? total : 0; i < buf.size(); i++) if (buf[i] != SENT) buffer_touched = true;
                got.assign(buf.begin(), buf.begin() + total);
            }
        } else {
            boost::array<size_t, R> shape;
            for (size_t k = 0; k < R; k++) shape[k] = r.cnt[k];
            boost::multi_array<double, R> ma(shape);
            if (is_read) std::fill(ma.data(), ma.data() + ma.num_elements(), SENT);
            else std::copy(src.begin(), src.end(), ma.data());
            if (is_read) exc = vf::guarded([&] { v.getData(ma, ncnt, noff); }, &what);
            else exc = vf::guarded([&] { v.setData(ma, noff); }, &what);
            if (is_read) {
                bool shape_ok = true;
                for (size_t k = 0; k < R; k++) if (ma.shape()[k] != r.cnt[k]) shape_ok = false;
                if (exc.empty() && valid && !shape_ok) buffer_touched = true;
                if (!(exc.empty() && valid)) for (size_t i = 0; i < ma.num_elements(); i++) if (ma.data()[i] != SENT) buffer_touched = true;
                got.assign(ma.data(), ma.data() + ma.num_elements());
            }
        }
        vf::distinct("outcomes", "view|R=" + std::to_string(R) + "|" + site + "|" + rc + "|" + (exc.empty() ? "ok" : exc));
        vf::count(exc.empty() ? "view_ops_returned" : "view_ops_thrown");
        if (valid) {
            if (!exc.empty()) {
                vf::violation("C17|" + site + "|" + rc + "|request inside the window succeeds|" + exc, ctx() + ": " + exc + " " + what);
            } else if (is_read) {
                std::vector<double> want = expect_read(worig, r);
                if (got != want || buffer_touched)
                    vf::violation("C17|" + site + "|" + rc + "|read returns the cells at window origin + offset|" + (got != want ? "wrong cells" : "buffer written beyond the requested elements"),
                                  ctx() + ": got " + dvec(got) + " expected " + dvec(want));
            } else {
                apply_write(worig, r, src);
            }
        } else if (zero) {
            // nothing can be transferred; returning or throwing are both acceptable
            vf::count(exc.empty() ? "zero_count_requests_returned" : "zero_count_requests_thrown");
            if (buffer_touched) vf::violation("C17|" + site + "|" + rc + "|nothing is transferred|output buffer modified", ctx());
        } else {
            if (exc.empty())
                vf::violation("C17|" + site + "|" + rc + "|request exceeding the window raises an error|returned normally", ctx() + (is_read ? ": got " + dvec(got) : ""));
            if (buffer_touched)
                vf::violation("C17|" + site + "|" + rc + "|rejected request transfers nothing|output buffer modified", ctx() + ": buffer " + dvec(got));
        }
        verify(site, rc, worig, w, &r, ctx);
    }

    // all single requests on one window
    void window_case(const Idx &worig, const Idx &w, bool typed_too) {
        std::unique_ptr<DataView> v;
        std::string what, ctx = aname + ", window offset " + istr(worig) + " count " + istr(w);
        std::string exc = vf::guarded([&] { v.reset(new DataView(da, nds(w), nds(worig))); }, &what);
        vf::count("windows");
        if (!v) { vf::violation("C17|DataView::DataView|window inside the array|constructed|" + exc, ctx + ": " + what); return; }
        NDSize de = v->dataExtent();
        if (de != nds(w)) vf::violation("C17|DataView::dataExtent|window inside the array|equals the window count|differs", ctx);
        if (v->dataType() != da.dataType() || v->dataType() != DataType::Double) vf::violation("C17|DataView::dataType|window inside the array|equals the array's type|differs", ctx);
        // whole-view read through the typed interface (resizes the container to the window)
        {
            boost::multi_array<double, R> ma;
            std::string e2 = vf::guarded([&] { v->getData(ma); }, &what);
            Req whole; whole.cnt = w; whole.off = Idx(R, 0);
            std::vector<double> want = expect_read(worig, whole), got(ma.data(), ma.data() + ma.num_elements());
            vf::count("view_reads");
            bool shape_ok = true; for (size_t k = 0; k < R; k++) if (ma.shape()[k] != w[k]) shape_ok = false;
            if (!e2.empty() || !shape_ok || got != want)
                vf::violation("C17|DataView::getData(whole view)|window inside the array|read returns the cells of the window|" + (e2.empty() ? std::string("wrong cells") : e2), ctx + ": got " + dvec(got) + " expected " + dvec(want) + " " + what);
        }
        std::vector<Req> reqs = requests_of(w, ext), extra = extra_requests_of(w);
        for (const Req &r : reqs) {
            op(*v, 0, worig, w, r); op(*v, 2, worig, w, r);
            if (typed_too) { op(*v, 1, worig, w, r); op(*v, 3, worig, w, r); }
            vf::count("view_requests");
        }
        for (const Req &r : extra) {
            bool wr = rclass(w, r) == "wrong-rank";
            op(*v, 0, worig, w, r); op(*v, 2, worig, w, r);
            if (typed_too && !wr) { op(*v, 1, worig, w, r); op(*v, 3, worig, w, r); }
            vf::count("view_requests");
        }
    }

    // pairs on one window: write request A (fixed count vector, every offset), then read request B (every request);
    // requests: count 0..w+1, offset 0..w, and the requests with a non-zero count and an offset behind the window (up to N)
    void pair_case(const Idx &worig, const Idx &w, const Idx &acnt) {
        DataView v(da, nds(w), nds(worig));
        std::vector<Req> reqs = requests_of(w, ext, false);
        size_t ia = 0;
        for (const Req &a : reqs) {
            if (a.cnt != acnt) continue;
            size_t ib = 0;
            for (const Req &bq : reqs) {
                bool typed = (ia + ib) % 2 == 1;
                op(v, typed ? 3 : 2, worig, w, a);
                op(v, typed ? 1 : 0, worig, w, bq);
                vf::count("view_pairs");
                ib++;
            }
            ia++;
            if (vf::deadline_hit()) return;
        }
    }

    // every (offset,count) with per-axis offset 0..n and count 0..n+1, and wrong ranks: the constructor's checks
    void ctor_case() {
        Idx olim, clim;
        for (size_t x : ext) { olim.push_back(x + 1); clim.push_back(x + 2); }
        Idx o(R, 0);
        do {
            Idx c(R, 0);
            do {
                bool crossing = false, zero = false;
                for (size_t k = 0; k < R; k++) { if (o[k] + c[k] > ext[k]) crossing = true; if (c[k] == 0) zero = true; }
                std::unique_ptr<DataView> v; std::string what;
                std::string exc = vf::guarded([&] { v.reset(new DataView(da, nds(c), nds(o))); }, &what);
                vf::count("constructions");
                std::string cls = crossing ? "window crossing the array edge" : zero ? "window with a zero count" : "window inside the array";
                vf::distinct("outcomes", "ctor|R=" + std::to_string(R) + "|" + cls + "|" + (exc.empty() ? "ok" : exc));
                std::string ctx = aname + ", DataView(count " + istr(c) + ", offset " + istr(o) + ")";
                if (crossing && exc.empty()) vf::violation("C17|DataView::DataView|" + cls + "|constructor raises an error|constructed", ctx);
                if (!crossing && !zero) {
                    if (!exc.empty()) vf::violation("C17|DataView::DataView|" + cls + "|constructed|" + exc, ctx + ": " + what);
                    else if (v->dataExtent() != nds(c) || v->dataType() != DataType::Double) vf::violation("C17|DataView::dataExtent/dataType|" + cls + "|window count and the array's type|differs", ctx);
                }
            } while (next(c, clim));
        } while (next(o, olim));
        const size_t ranks[][2] = {{R + 1, R}, {R - 1, R}, {0, R}, {R, R + 1}, {R, R - 1}, {R, 0}, {R + 1, R + 1}, {R - 1, R - 1}, {0, 0}};
        for (auto &rk : ranks) {
            Idx c(rk[0], 1), of(rk[1], 0);
            std::unique_ptr<DataView> v; std::string what;
            std::string exc = vf::guarded([&] { v.reset(new DataView(da, nds(c), nds(of))); }, &what);
            vf::count("constructions");
            vf::distinct("outcomes", "ctor|R=" + std::to_string(R) + "|wrong rank|" + (exc.empty() ? "ok" : exc));
            if (exc.empty()) vf::violation("C17|DataView::DataView|wrong rank of count/offset|constructor raises an error|constructed", aname + ", DataView(count " + istr(c) + ", offset " + istr(of) + ")");
        }
        verify("DataView::DataView", "all constructions", Idx(R, 0), ext, nullptr, [&]() { return aname; });
    }

    // all windows (offset, count >= 1) inside the array, in a fixed order
    std::vector<std::pair<Idx, Idx>> windows() const {
        std::vector<std::pair<Idx, Idx>> v;
        Idx o(R, 0);
        do {
            Idx lim; for (size_t k = 0; k < R; k++) lim.push_back(ext[k] - o[k]);
            Idx c(R, 0);
            do { Idx w = c; for (size_t &x : w) x += 1; v.push_back(std::make_pair(o, w)); } while (next(c, lim));
        } while (next(o, ext));
        return v;
    }
};

// =====================================================================================================
int main(int argc, char **argv) {
    vf::init(argc, argv, "C17");
    vf::set_clock(1500000000);
    const bool thorough = vf::opt.tier == "thorough";

    File f = File::open(vf::scratch_file("c17.h5"), FileMode::Overwrite);
    Block b = f.createBlock("b", "t");
    long idx = 0;

    // ------------------------------------------------------------------ part (a)
    const std::vector<Desc> descs = all_descs();
    std::vector<std::pair<Config, int>> plans;   // configuration, candidate plan (1 full, 2 reduced, 3/4 three per axis)
    // rank 1: every descriptor, full product of the candidates
    {
        const std::vector<size_t> exts = thorough ? std::vector<size_t>{1, 2, 3, 4, 5} : std::vector<size_t>{1, 2, 5};
        for (size_t di = 0; di < descs.size(); di++) for (size_t n : exts)
            for (int uf = 0; uf < 2; uf++) {
                if (!thorough && (int)((di + n) % 2) != uf) continue;
                plans.push_back(std::make_pair(Config{{descs[di]}, {n}, uf == 1}, 1));
            }
    }
    // rank 2: every pair of kinds (thorough: six parameter picks each), reduced candidate set
    {
        const Idx exts[] = {{3, 4}, {5, 2}, {1, 5}, {4, 1}, {2, 3}};
        size_t n = 0;
        for (int pick = 0; pick < (thorough ? 6 : 1); pick++)
            for (int k0 = 0; k0 < 4; k0++) for (int k1 = 0; k1 < 4; k1++) {
                std::vector<Desc> a = descs_of(descs, (Kind)k0), c = descs_of(descs, (Kind)k1);
                plans.push_back(std::make_pair(Config{{a[(n * 7 + 2 + pick) % a.size()], c[(n * 11 + 5 + 3 * pick) % c.size()]}, exts[n % 5], n % 2 == 1}, 2)); n++;
            }
    }
    // rank 3: every triple of kinds (thorough: two parameter picks each), three candidates per axis
    {
        const Idx exts[] = {{2, 3, 2}, {3, 1, 4}, {1, 2, 5}, {5, 2, 1}, {2, 2, 3}};
        size_t n = 0;
        for (int pick = 0; pick < (thorough ? 2 : 1); pick++)
            for (int k0 = 0; k0 < 4; k0++) for (int k1 = 0; k1 < 4; k1++) for (int k2 = 0; k2 < 4; k2++) {
                std::vector<Desc> a = descs_of(descs, (Kind)k0), c = descs_of(descs, (Kind)k1), d = descs_of(descs, (Kind)k2);
                plans.push_back(std::make_pair(Config{{a[(n * 7 + 1 + pick) % a.size()], c[(n * 11 + 4 + 2 * pick) % c.size()], d[(n * 13 + 8 + 3 * pick) % d.size()]}, exts[n % 5], n % 2 == 0}, thorough ? 4 : 3));
                n++;
            }
    }
    for (const auto &pl : plans)
        for (int mode = 0; mode < 3; mode++) {
            long ci = idx++;
            if (!vf::take_case(ci)) continue;
            vf::case_desc("dataSlice grid: " + cname(pl.first) + ", " + MODE[mode]);
            slice_case(b, pl.first, mode, ci, pl.second);
            if (vf::deadline_hit()) break;
        }

    // ------------------------------------------------------------------ part (b)
    Grid<2> g2; Grid<3> g3;
    bool g2made = false, g3made = false;
    auto need2 = [&] { if (!g2made) { g2.create(b, "view3x4", {3, 4}); g2made = true; } };
    auto need3 = [&] { if (!g3made) { g3.create(b, "view2x3x2", {2, 3, 2}); g3made = true; } };
    Grid<2> shape2; shape2.ext = {3, 4};
    Grid<3> shape3; shape3.ext = {2, 3, 2};
    const std::vector<std::pair<Idx, Idx>> win2 = shape2.windows(), win3 = shape3.windows();

    { long ci = idx++; if (vf::take_case(ci)) { vf::case_desc("DataView constructor checks on the 3x4 array"); need2(); g2.ctor_case(); } }
    { long ci = idx++; if (vf::take_case(ci)) { vf::case_desc("DataView constructor checks on the 2x3x2 array"); need3(); g3.ctor_case(); } }
    for (const auto &w : win2) {
        long ci = idx++;
        if (!vf::take_case(ci)) continue;
        vf::case_desc("DataView requests: array [3,4], window offset " + istr(w.first) + " count " + istr(w.second));
        need2(); g2.window_case(w.first, w.second, true);
        if (ci % 7 == 0) vf::sample("{\"part\":\"b\",\"array\":[3,4],\"window_offset\":" + istr(w.first) + ",\"window_count\":" + istr(w.second) + ",\"requests\":" + std::to_string(requests_of(w.second, g2.ext).size() + extra_requests_of(w.second).size()) + ",\"ops\":\"getData/setData x raw/multi_array\"}", 6);
    }
    for (const auto &w : win3) {
        long ci = idx++;
        if (!vf::take_case(ci)) continue;
        vf::case_desc("DataView requests: array [2,3,2], window offset " + istr(w.first) + " count " + istr(w.second));
        need3(); g3.window_case(w.first, w.second, true);
        if (vf::deadline_hit()) break;
    }
    // pairs (write, then read) on the 3x4 array; one case per (window, count vector of the write)
    for (const auto &w : win2) {
        const bool selected = thorough || (w.first == Idx{1, 1} && prod(w.second) <= 4);
        if (!selected) continue;
        Idx clim; for (size_t x : w.second) clim.push_back(x + 2);
        Idx ac(2, 0);
        do {
            long ci = idx++;
            if (!vf::take_case(ci)) continue;
            vf::case_desc("DataView request pairs: array [3,4], window offset " + istr(w.first) + " count " + istr(w.second) + ", write count " + istr(ac) + " at every offset, then every read request");
            need2(); g2.pair_case(w.first, w.second, ac);
            if (vf::deadline_hit()) break;
        } while (next(ac, clim));
    }

    // ------------------------------------------------------------------ part (a), appended: start/end of different lengths
    {
        // the configurations of the grid above (rank 1 and 2: all; rank 3: quick every fourth, thorough all) ...
        std::vector<std::pair<Config, int>> mplans;
        size_t r3seen = 0;
        for (const auto &pl : plans) {
            if (pl.first.ext.size() == 3 && !thorough && r3seen++ % 4 != 1) continue;
            mplans.push_back(pl);
        }
        // ... and sampled axes with negative offsets (-0.75, -3) and an offset beyond the length of the axis (7)
        const double ivs[] = {1.0, 0.3, 2.5};
        const std::vector<size_t> exts1 = thorough ? std::vector<size_t>{1, 2, 3, 4, 5} : std::vector<size_t>{1, 2, 5};
        size_t n = 0;
        for (double iv : ivs) for (int o = 3; o < 6; o++) for (size_t e1 : exts1) { mplans.push_back(std::make_pair(Config{{Desc{K_SAMPLED, iv, o, 0}}, {e1}, n % 2 == 1}, 1)); n++; }
        const Desc neg1{K_SAMPLED, 1.0, 4, 0}, neg2{K_SAMPLED, 0.3, 3, 0}, neg3{K_SAMPLED, 2.5, 3, 0}, far{K_SAMPLED, 0.5, 5, 0}, pos{K_SAMPLED, 0.5, 2, 0},
                   rng{K_RANGE, 0, 0, 1}, set0{K_SET, 0, 0, 0}, set1{K_SET, 0, 0, 1}, frm{K_FRAME, 0, 0, 0};
        const std::vector<std::vector<Desc>> two = {{neg1, rng}, {rng, neg2}, {neg3, pos}, {pos, neg1}, {set0, neg2}, {neg1, frm}, {far, neg3}, {set1, far}};
        const Idx exts2[] = {{3, 4}, {5, 2}, {1, 5}, {4, 1}, {2, 3}};
        for (size_t i = 0; i < two.size(); i++) mplans.push_back(std::make_pair(Config{two[i], exts2[i % 5], i % 2 == 1}, 2));
        const std::vector<std::vector<Desc>> three = {{neg1, rng, set0}, {rng, neg2, pos}, {frm, set1, neg3}, {neg2, neg1, far}, {pos, far, neg1}, {set0, neg3, rng}};
        const Idx exts3[] = {{2, 3, 2}, {3, 1, 4}, {1, 2, 5}, {5, 2, 1}, {2, 2, 3}};
        for (size_t i = 0; i < three.size(); i++) mplans.push_back(std::make_pair(Config{three[i], exts3[i % 5], i % 2 == 0}, thorough ? 4 : 3));
        for (const auto &pl : mplans)
            for (int mode = 0; mode < 3; mode++) {
                long ci = idx++;
                if (!vf::take_case(ci)) continue;
                vf::case_desc("dataSlice grid, start and end vectors of different lengths: " + cname(pl.first) + ", " + MODE[mode]);
                slice_case(b, pl.first, mode, ci, pl.second, true, thorough);
                if (vf::deadline_hit()) break;
            }
    }

    f.close();
    vf::note("tier_bounds", vf::jstr(thorough ? "rank1: 20 descriptors x extents 1..5 x units on/off; rank2: 16 kind pairs x 6 parameter picks; rank3: 64 kind triples x 2 picks, 8 start/end pairs per axis; "
                                                "start/end of different lengths: every (Ls,Le), Ls != Le, on all of these configurations + 9 sampled descriptors with offsets -0.75/-3/7 x extents 1..5 + 8 rank-2 + 6 rank-3 configurations with such axes; "
                                                "view requests: count 0..w+1 x offset 0..N (array extent); view pairs: all windows (requests with an offset behind the window only with non-zero counts)"
                                              : "rank1: 20 descriptors x extents {1,2,5}; rank2: 16 kind pairs; rank3: 64 kind triples, 5 start/end pairs per axis; "
                                                "start/end of different lengths: every (Ls,Le), Ls != Le, on all rank-1 and rank-2 configurations, every fourth rank-3 configuration, + 9 sampled descriptors with offsets -0.75/-3/7 x extents {1,2,5} + 8 rank-2 + 6 rank-3 configurations with such axes; "
                                                "view requests: count 0..w+1 x offset 0..N (array extent); view pairs: windows at offset (1,1) with <= 4 cells (requests with an offset behind the window only with non-zero counts)"));
    return vf::finish();
}
