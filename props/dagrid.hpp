// dagrid — shared by C05 (Tag retrieval) and C06 (MultiTag retrieval).
//
//  * array builders: DataArrays of rank 1..3 whose cell value is (base + row-major linear index), with every
//    kind of dimension descriptor (sampled / range / set / data-frame) drawn from fixed parameter families;
//  * per-axis position / extent candidate sets at three levels (FULL for rank 1, REDUCED for rank 2, MINI for rank 3);
//  * the reference region, transcribed from the property statement: per specified axis
//        S_d = { i : p_d <= c_i <= p_d+e_d }   ('<' on the right for RangeMatch::Exclusive)
//    by linear scan over the coordinates the library itself reports for the axis; zero / absent extent ->
//    { min i : c_i >= p_d }; unspecified axes -> all indices; expected result = the block S_1 x ... x S_r with
//    exactly those cell values, or "raises, returns nothing" when some S_d is empty or not inside the stored data;
//  * comparison of a DataView / of getOffsetAndCount output with that reference, and the classification of a
//    deviation into a signature (call site | input class | assertion | deviation class).
//
// Nothing here looks at how the library computes indices (no floor/ceil/quotients): only comparisons of doubles.
#ifndef DAGRID_HPP
#define DAGRID_HPP

#include <nix.hpp>
#include <nix/util/dataAccess.hpp>
#include <cmath>
#include <cstdlib>
#include <cstdio>
#include <algorithm>
#include <functional>
#include "vf.hpp"

namespace dag {

using namespace nix;

// ------------------------------------------------------------------------------------------------ axis families
enum Kind { SAMPLED = 0, RANGE = 1, SET = 2, FRAME = 3 };
static const char *const KIND_NAME[] = {"sampled", "range", "set", "dataframe"};

static const double INTERVALS[] = {1.0, 0.5, 0.1, 0.3, 1.0 / 3.0, 0.001, 2.5};
static const int N_INTERVALS = 7;
static const double OFFSETS[] = {0.0 /* = absent */, 0.25, 1.5, 0.1};
static const int N_OFFSETS = 4;
static const int N_TICKFAM = 3; // equidistant / irregular with negative start / one ulp apart
static const int N_SETFAM = 2;  // no labels / labels matching the extent

inline int nparams(Kind k) { return k == SAMPLED ? N_INTERVALS * N_OFFSETS : k == RANGE ? N_TICKFAM : k == SET ? N_SETFAM : 1; }

struct AxisSpec {
    Kind kind;
    int param;  // index into the family of the kind
    size_t n;   // extent of the data along this axis
};

inline std::vector<double> family_ticks(int fam, size_t n) {
    std::vector<double> t;
    static const double irregular[] = {-10.5, -3.0, 0.0, 2.25, 1e3, 1e6, 1e7, 1e8};
    double v = 1.0;
    for (size_t i = 0; i < n; i++) {
        if (fam == 0) t.push_back(1.0 + 0.1 * static_cast<double>(i));
        else if (fam == 1) t.push_back(irregular[i]);
        else { t.push_back(v); v = std::nextafter(v, INFINITY); }
    }
    return t;
}

inline std::string spec_name(const AxisSpec &s) {
    std::string o = KIND_NAME[s.kind];
    if (s.kind == SAMPLED) {
        int ii = s.param / N_OFFSETS, oi = s.param % N_OFFSETS;
        o += "(interval=" + vf::hexd(INTERVALS[ii]) + ",offset=" + (oi == 0 ? std::string("absent") : vf::hexd(OFFSETS[oi])) + ")";
    } else if (s.kind == RANGE) {
        o += s.param == 0 ? "(equidistant 1+0.1i)" : s.param == 1 ? "(irregular,negative start)" : "(ticks 1ulp apart from 1.0)";
    } else if (s.kind == SET) {
        o += s.param == 0 ? "(no labels)" : "(labels=extent)";
    } else o += "(rows=extent)";
    return o + "[" + std::to_string(s.n) + "]";
}
inline std::string specs_name(const std::vector<AxisSpec> &v) {
    std::string o;
    for (size_t i = 0; i < v.size(); i++) o += (i ? " x " : "") + spec_name(v[i]);
    return o;
}

// an axis as the library reports it
struct Axis {
    AxisSpec spec;
    size_t n;               // number of stored elements along the axis
    bool bounded;           // false: the descriptor defines coordinates beyond the stored data (sampled, set without labels)
    std::vector<double> c;  // c[0..n) coordinates of the stored elements; c[n..) the next coordinates of an unbounded axis
};
static const size_t BEYOND = 3; // coordinates kept beyond the data for unbounded axes

struct Built {
    DataArray array;
    std::vector<Axis> axes;
    std::vector<size_t> shape;
    double base;
    bool ok;
};

// Creates <name> in block b: Double array of the shape given by the specs, cell value = base + linear index
// (row-major), one dimension descriptor per axis.  The coordinates are then read back from the library.
inline Built build_array(Block &b, const std::string &name, const std::vector<AxisSpec> &specs, double base, const std::string &prop) {
    Built r; r.base = base; r.ok = true;
    NDSize shape(specs.size(), 1);
    size_t total = 1;
    for (size_t d = 0; d < specs.size(); d++) { shape[d] = specs[d].n; total *= specs[d].n; r.shape.push_back(specs[d].n); }
    r.array = b.createDataArray(name, "t", DataType::Double, shape);
    std::vector<double> vals(total);
    for (size_t i = 0; i < total; i++) vals[i] = base + static_cast<double>(i);
    r.array.setData(DataType::Double, vals.data(), shape, NDSize(specs.size(), 0));
    for (size_t d = 0; d < specs.size(); d++) {
        const AxisSpec &s = specs[d];
        if (s.kind == SAMPLED) {
            int ii = s.param / N_OFFSETS, oi = s.param % N_OFFSETS;
            if (oi == 0) r.array.appendSampledDimension(INTERVALS[ii]);
            else r.array.appendSampledDimension(INTERVALS[ii], "", "", OFFSETS[oi]);
        } else if (s.kind == RANGE) {
            r.array.appendRangeDimension(family_ticks(s.param, s.n));
        } else if (s.kind == SET) {
            std::vector<std::string> labels;
            if (s.param == 1) for (size_t i = 0; i < s.n; i++) labels.push_back("l" + std::to_string(i));
            r.array.appendSetDimension(labels);
        } else {
            std::vector<Column> cols = {{"c0", "", DataType::Double}, {"c1", "", DataType::Int64}};
            DataFrame df = b.createDataFrame(name + "_df" + std::to_string(d), "t", cols);
            df.rows(s.n);
            r.array.appendDataFrameDimension(df, 0u);
        }
    }
    // read the axes back
    std::vector<Dimension> dims = r.array.dimensions();
    if (dims.size() != specs.size()) { vf::violation(prop + "|setup|dimension count differs from the appended descriptors", name); r.ok = false; return r; }
    for (size_t d = 0; d < specs.size(); d++) {
        Axis ax; ax.spec = specs[d]; ax.n = specs[d].n;
        DimensionType dt = dims[d].dimensionType();
        if (dt == DimensionType::Sample) {
            SampledDimension sd = dims[d].asSampledDimension();
            ax.bounded = false;
            for (size_t i = 0; i < ax.n + BEYOND; i++) ax.c.push_back(sd.positionAt(i));
        } else if (dt == DimensionType::Range) {
            ax.bounded = true;
            ax.c = dims[d].asRangeDimension().ticks();
        } else if (dt == DimensionType::Set) {
            size_t nl = dims[d].asSetDimension().labels().size();
            ax.bounded = nl > 0;
            size_t cnt = nl > 0 ? nl : ax.n + BEYOND;
            for (size_t i = 0; i < cnt; i++) ax.c.push_back(static_cast<double>(i));
        } else {
            ax.bounded = true;
            size_t rows = static_cast<size_t>(dims[d].asDataFrameDimension().size());
            for (size_t i = 0; i < rows; i++) ax.c.push_back(static_cast<double>(i));
        }
        bool asc = true;
        for (size_t i = 0; i + 1 < ax.c.size(); i++) if (!(ax.c[i] < ax.c[i + 1])) asc = false;
        if ((ax.bounded && ax.c.size() != ax.n) || !asc) {
            vf::violation(prop + "|setup|axis coordinates reported by the library are not n strictly ascending values",
                          name + " axis " + std::to_string(d) + " " + spec_name(specs[d]) + " reported " + vf::jvecd(ax.c));
            r.ok = false;
        }
        r.axes.push_back(ax);
    }
    return r;
}

// ------------------------------------------------------------------------------------------------ candidates
enum Level { FULL = 0, REDUCED = 1, MINI = 2, TINY = 3 };

inline void push_unique(std::vector<double> &v, double x) {
    for (double y : v) if (y == x) return;
    v.push_back(x);
}
inline double below_of(const Axis &a) { return a.c[0] - 1.0; }
inline double above_of(const Axis &a) { // one value above the last stored coordinate (between c_{n-1} and c_n on an unbounded axis)
    return a.bounded ? a.c[a.n - 1] + 1.0 : a.c[a.n - 1] + (a.c[a.n] - a.c[a.n - 1]) / 2;
}
inline double mid_of(const Axis &a, size_t i) { return a.c[i] + (a.c[i + 1] - a.c[i]) / 2; }

// position candidates of an axis
inline std::vector<double> position_candidates(const Axis &a, Level lv) {
    std::vector<double> p;
    const size_t n = a.n;
    const size_t s = n > 1 ? 1 : 0; // the sample around which the reduced sets are formed
    if (lv == FULL) {
        push_unique(p, below_of(a));
        for (size_t i = 0; i < n; i++) {
            push_unique(p, std::nextafter(a.c[i], -INFINITY));
            push_unique(p, a.c[i]);
            push_unique(p, std::nextafter(a.c[i], INFINITY));
            if (i + 1 < n) push_unique(p, mid_of(a, i));
        }
        push_unique(p, above_of(a));
        if (!a.bounded) push_unique(p, a.c[n]); // first coordinate the descriptor defines beyond the data
    } else if (lv == REDUCED) {
        push_unique(p, below_of(a));
        push_unique(p, std::nextafter(a.c[s], -INFINITY));
        push_unique(p, a.c[s]);
        push_unique(p, std::nextafter(a.c[s], INFINITY));
        if (s + 1 < n) push_unique(p, mid_of(a, s));
        push_unique(p, a.c[n - 1]);
        push_unique(p, above_of(a));
    } else if (lv == MINI) {
        push_unique(p, a.c[s]);                                                        // on
        push_unique(p, s + 1 < n ? mid_of(a, s) : std::nextafter(a.c[s], -INFINITY));  // between (or just below the only sample)
        push_unique(p, above_of(a));                                                   // outside
    } else {
        push_unique(p, a.c[s]);
        push_unique(p, s + 1 < n ? mid_of(a, s) : below_of(a));
    }
    return p;
}

// e with (p + e) == q evaluated in double, exactly as the library evaluates position + extent
inline bool extent_landing_on(double p, double q, double &e) {
    e = q - p;
    if (p + e == q) return true;
    // p + e is monotone in e: bisect between two extents that land below and above q
    double w = std::fabs(q - std::nextafter(q, INFINITY)) + std::fabs(p - std::nextafter(p, INFINITY));
    double lo = e - 2 * w, hi = e + 2 * w;
    if (!(p + lo < q) || !(p + hi > q)) return false;
    for (int k = 0; k < 200; k++) {
        double mid = lo + (hi - lo) / 2;
        double s = p + mid;
        if (s == q) { e = mid; return true; }
        if (s < q) lo = mid; else hi = mid;
        if (mid == lo && mid == hi) break;
    }
    return false;
}

struct PE { double p; bool has_e; double e; };

inline double negative_extent(const Axis &a) { return a.n > 1 ? -(a.c[1] - a.c[0]) : -1.0; }

// (position, extent) candidates of an axis: for every position candidate: extent 0, a negative extent and every
// extent that makes p+e land on a position candidate above p (FULL, REDUCED); three extents per position (MINI).
inline std::vector<PE> pe_candidates(const Axis &a, Level lv) {
    std::vector<PE> out;
    std::vector<double> pos = position_candidates(a, lv);
    for (double p : pos) {
        std::vector<double> ext;
        if (lv == FULL || lv == REDUCED) {
            ext.push_back(0.0);
            ext.push_back(negative_extent(a));
            for (double q : pos) {
                double e;
                if (q > p) { if (extent_landing_on(p, q, e)) push_unique(ext, e); else vf::count("extent_candidates_not_representable"); }
            }
        } else {
            double e;
            ext.push_back(0.0);
            double last = a.c[a.n - 1];
            if (last > p && extent_landing_on(p, last, e)) push_unique(ext, e); // ends on the last stored sample
            else push_unique(ext, negative_extent(a));
            if (lv == MINI) {
                double q = 0; bool found = false;
                for (size_t i = 0; i + 1 < a.n && !found; i++) if (mid_of(a, i) > p) { q = mid_of(a, i); found = true; }
                if (!found && above_of(a) > p) { q = above_of(a); found = true; }
                if (found && extent_landing_on(p, q, e)) push_unique(ext, e); // ends between two samples / above the data
                else push_unique(ext, 1.0);
            }
        }
        for (double e : ext) { PE x; x.p = p; x.has_e = true; x.e = e; out.push_back(x); }
    }
    return out;
}

// classification of a position relative to the stored coordinates of an axis
inline std::string pclass(const Axis &a, double p) {
    const size_t n = a.n;
    if (p < a.c[0]) return std::nextafter(p, INFINITY) == a.c[0] ? "1ulp-below-first" : "below-axis";
    for (size_t i = 0; i < n; i++) if (a.c[i] == p) return i + 1 == n ? "on-last-sample" : "on-sample";
    if (p > a.c[n - 1]) {
        if (std::nextafter(p, -INFINITY) == a.c[n - 1]) return "1ulp-above-last";
        if (!a.bounded && p == a.c[n]) return "on-first-coordinate-beyond-data";
        return "beyond-data";
    }
    for (size_t i = 0; i < n; i++) {
        if (std::nextafter(p, INFINITY) == a.c[i]) return "1ulp-below-sample";
        if (std::nextafter(p, -INFINITY) == a.c[i]) return "1ulp-above-sample";
    }
    return "between-samples";
}
inline std::string eclass(const Axis &a, double p, bool has_e, double e) {
    if (!has_e) return "no-extent";
    if (e == 0.0) return "zero-extent";
    if (e < 0.0) return "negative-extent";
    return "end:" + pclass(a, p + e);
}
inline std::string axis_kind_class(const Axis &a) {
    std::string o = KIND_NAME[a.spec.kind];
    if (a.spec.kind == SET) o += a.spec.param ? "(labelled)" : "(unlabelled)";
    return o;
}

inline const char *mode_name(RangeMatch m) { return m == RangeMatch::Inclusive ? "Inclusive" : "Exclusive"; }

// ------------------------------------------------------------------------------------------------ reference
struct Expect {
    bool throws;               // the statement demands an error and no data
    std::string why;           // "region empty" / "region reaches outside the stored data"
    int culprit;               // first axis whose S_d is empty / not inside the data (-1: none)
    int empty_axis;            // first axis whose S_d is empty (-1: none)
    bool block_defined;        // every S_d is non-empty (then off/cnt describe S_1 x ... x S_r, possibly reaching beyond the data)
    bool block_complete;       // no S_d touches the end of the coordinates kept for an unbounded axis
    std::vector<size_t> off, cnt;
    std::vector<double> values; // row-major content of the block (only when !throws)
    std::vector<bool> specified;
};

// S_d for one axis.  Statement: coordinate c with p <= c <= p+e (inclusive) / p <= c < p+e (exclusive); a zero or
// absent extent selects the single first element at or after the position; unspecified -> all elements.
// The axes of a built array are changed IN PLACE through freshly fetched dimension handles (range: every tick t becomes 2t + 0.75;
// sampled: interval doubled, offset + 0.75 - both keep the axis strictly ascending and exactly representable where the old one was);
// the coordinates are read back from the library.  Returns the number of axes changed.  Retrieval after such a change must
// answer for the NEW axis (nothing may remember the old one).
inline int mutate_axes(Built &r) {
    int changed = 0;
    for (size_t d = 0; d < r.axes.size(); d++) {
        Dimension dim = r.array.getDimension(d + 1);
        Axis &ax = r.axes[d];
        if (dim.dimensionType() == DimensionType::Range) {
            RangeDimension rd = dim.asRangeDimension();
            if (rd.alias()) continue;
            std::vector<double> t = rd.ticks();
            for (double &v : t) v = 2.0 * v + 0.75;
            rd.ticks(t);
            ax.c = r.array.getDimension(d + 1).asRangeDimension().ticks();
            changed++;
        } else if (dim.dimensionType() == DimensionType::Sample) {
            SampledDimension sd = dim.asSampledDimension();
            double off = sd.offset() ? *sd.offset() : 0.0;
            sd.samplingInterval(sd.samplingInterval() * 2.0);
            sd.offset(off + 0.75);
            SampledDimension again = r.array.getDimension(d + 1).asSampledDimension();
            size_t n = ax.c.size();
            ax.c.clear();
            for (size_t i = 0; i < n; i++) ax.c.push_back(again.positionAt(i));
            changed++;
        }
        for (size_t i = 0; i + 1 < ax.c.size(); i++) if (!(ax.c[i] < ax.c[i + 1])) return -1;   // not usable as a reference axis any more
    }
    return changed;
}

inline std::vector<size_t> ref_axis(const Axis &a, bool specified, double p, bool has_e, double e, RangeMatch m) {
    std::vector<size_t> S;
    if (!specified) { for (size_t i = 0; i < a.n; i++) S.push_back(i); return S; }
    if (!has_e || e == 0.0) {
        for (size_t i = 0; i < a.c.size(); i++) if (a.c[i] >= p) { S.push_back(i); break; }
        return S;
    }
    const double end = p + e; // evaluated in double exactly like the library's position + extent
    for (size_t i = 0; i < a.c.size(); i++) {
        bool in = p <= a.c[i] && (m == RangeMatch::Inclusive ? a.c[i] <= end : a.c[i] < end);
        if (in) S.push_back(i);
    }
    return S;
}

// pos / ext: the entries of the tag (ext empty = absent).  Entries beyond the rank are ignored, axes beyond the
// entries are unspecified.
inline Expect ref_block(const Built &arr, const std::vector<double> &pos, const std::vector<double> &ext, RangeMatch m) {
    Expect x; x.throws = false; x.culprit = -1; x.empty_axis = -1; x.block_defined = true; x.block_complete = true;
    const size_t r = arr.axes.size();
    for (size_t d = 0; d < r; d++) {
        const Axis &a = arr.axes[d];
        bool spec = d < pos.size();
        x.specified.push_back(spec);
        bool has_e = spec && d < ext.size();
        std::vector<size_t> S = ref_axis(a, spec, spec ? pos[d] : 0.0, has_e, has_e ? ext[d] : 0.0, m);
        for (size_t i = 0; i + 1 < S.size(); i++) if (S[i] + 1 != S[i + 1]) { fprintf(stderr, "dagrid: reference region not contiguous\n"); abort(); }
        if (S.empty()) {
            if (x.block_defined) x.empty_axis = static_cast<int>(d);
            x.block_defined = false;
            if (!x.throws) { x.throws = true; x.why = "region empty"; x.culprit = static_cast<int>(d); }
            x.off.push_back(0); x.cnt.push_back(0);
            continue;
        }
        if (S.back() >= a.n && !x.throws) { x.throws = true; x.why = "region reaches outside the stored data"; x.culprit = static_cast<int>(d); }
        if (!a.bounded && S.back() + 1 == a.c.size()) x.block_complete = false;
        x.off.push_back(S.front()); x.cnt.push_back(S.size());
    }
    if (!x.throws) {
        std::vector<size_t> idx(r, 0);
        size_t total = 1;
        for (size_t d = 0; d < r; d++) total *= x.cnt[d];
        for (size_t k = 0; k < total; k++) {
            size_t lin = 0;
            for (size_t d = 0; d < r; d++) lin = lin * arr.shape[d] + (x.off[d] + idx[d]);
            x.values.push_back(arr.base + static_cast<double>(lin));
            for (size_t d = r; d-- > 0;) { if (++idx[d] < x.cnt[d]) break; idx[d] = 0; }
        }
    }
    return x;
}

// the whole array (untagged / indexed features of a Tag, untagged features of a MultiTag)
inline Expect whole_array(const Built &arr) {
    Expect x; x.throws = false; x.culprit = -1; x.empty_axis = -1; x.block_defined = true; x.block_complete = true;
    size_t total = 1;
    for (size_t d = 0; d < arr.shape.size(); d++) { x.off.push_back(0); x.cnt.push_back(arr.shape[d]); x.specified.push_back(false); total *= arr.shape[d]; }
    for (size_t k = 0; k < total; k++) x.values.push_back(arr.base + static_cast<double>(k));
    return x;
}
// slice i along the first axis (indexed features of a MultiTag); raises when the array has fewer slices
inline Expect slice_of(const Built &arr, size_t i) {
    Expect x = whole_array(arr);
    if (i >= arr.shape[0]) { x.throws = true; x.why = "feature has fewer slices than the position index"; x.culprit = 0; x.values.clear(); return x; }
    size_t per = x.values.size() / arr.shape[0];
    std::vector<double> v(x.values.begin() + i * per, x.values.begin() + (i + 1) * per);
    x.values = v; x.off[0] = i; x.cnt[0] = 1;
    return x;
}

// ------------------------------------------------------------------------------------------------ observation
static const double SENTINEL = -77777.25;

struct Got {
    std::string exc, what;       // exception of the retrieval call ("" = returned)
    std::vector<size_t> shape;   // dataExtent of the view
    std::vector<double> data;    // full content
    std::string read_problem;    // exception / overrun / untouched cells while reading the view
};

inline Got observe_view(const DataView &v) {
    Got g;
    NDSize ext = v.dataExtent();
    size_t total = 1;
    for (size_t d = 0; d < ext.size(); d++) { g.shape.push_back(static_cast<size_t>(ext[d])); total *= static_cast<size_t>(ext[d]); }
    std::vector<double> buf(total + 2, SENTINEL);
    std::string w;
    std::string e = vf::guarded([&] { v.getData(DataType::Double, buf.data() + 1, ext, NDSize(ext.size(), 0)); }, &w);
    if (!e.empty()) g.read_problem = "reading the view raised " + e + " (" + w + ")";
    else if (buf[0] != SENTINEL || buf[total + 1] != SENTINEL) g.read_problem = "read wrote outside the buffer";
    g.data.assign(buf.begin() + 1, buf.begin() + 1 + total);
    if (g.read_problem.empty()) for (double x : g.data) if (x == SENTINEL) { g.read_problem = "read left cells of the buffer untouched"; break; }
    return g;
}
inline Got observe(const std::function<DataView()> &f) {
    Got g;
    boost::optional<DataView> v;
    g.exc = vf::guarded([&] { v = f(); }, &g.what);
    if (g.exc.empty()) { Got h = observe_view(*v); h.exc = ""; return h; }
    return g;
}
inline std::vector<Got> observe_list(const std::function<std::vector<DataView>()> &f, std::string &exc, std::string &what) {
    std::vector<DataView> vs;
    std::vector<Got> out;
    exc = vf::guarded([&] { vs = f(); }, &what);
    if (exc.empty()) for (const DataView &v : vs) out.push_back(observe_view(v));
    return out;
}

struct Goc { // result of a getOffsetAndCount call
    std::string exc, what;
    std::vector<size_t> off, cnt;
};
inline void ndsize_to(const NDSize &s, std::vector<size_t> &v) { v.clear(); for (size_t d = 0; d < s.size(); d++) v.push_back(static_cast<size_t>(s[d])); }

inline std::string vs(const std::vector<size_t> &v) { return vf::jvec(v); }
inline std::string head(const std::vector<double> &v) {
    std::string o = "[";
    for (size_t i = 0; i < v.size() && i < 12; i++) o += (i ? "," : "") + vf::hexd(v[i]);
    if (v.size() > 12) o += ",...";
    return o + "]";
}
inline std::string expect_str(const Expect &x) {
    if (x.throws) return "an error and no data (" + x.why + ")";
    return "block offset " + vs(x.off) + " count " + vs(x.cnt) + " values " + head(x.values);
}
inline std::string got_str(const Got &g) {
    if (!g.exc.empty()) return g.exc + " (" + g.what + ")";
    return "view of shape " + vs(g.shape) + " values " + head(g.data) + (g.read_problem.empty() ? "" : " [" + g.read_problem + "]");
}

// ------------------------------------------------------------------------------------------------ comparison
inline const char *rel(long got, long want) { return got == want ? "as expected" : got < want ? "earlier" : "later"; }
inline std::string edge_dev(size_t goff, size_t gcnt, size_t woff, size_t wcnt) {
    return std::string("first element ") + rel((long)goff, (long)woff) + ", last element " + rel((long)(goff + gcnt) - 1, (long)(woff + wcnt) - 1);
}

// the description of the input needed to build signatures
struct InputInfo {
    const Built *arr;
    std::vector<double> pos, ext;    // entries of the tag / of the row
    bool has_ext;
    std::string entries_class;       // "fewer position entries than dimensions" / "as many ..." / "more ..."
    std::string mode;                // "Inclusive" / "Exclusive" / "default(...)"
    RangeMatch match;                // the mode the expectation was computed for
    std::string family;              // family of the entry point ("taggedData(Tag)", ...) used for the coarse signature class
    bool plain;                      // true: the expectation does not depend on position/extent (whole array, slice i)
    std::string plain_class, plain_assertion;
    InputInfo() : arr(nullptr), has_ext(false), match(RangeMatch::Inclusive), plain(false) {}
};
inline std::string entries_class(size_t entries, size_t rank) {
    return entries < rank ? "fewer position entries than dimensions" : entries == rank ? "as many position entries as dimensions" : "more position entries than dimensions";
}
// fine class of the input on axis d (descriptor kind, position class, end class): used for coverage counting and in
// the written-out instance
inline std::string axis_input_class(const InputInfo &in, int d) {
    if (in.plain) return in.plain_class;
    if (d < 0) return "axis not identified";
    const Axis &a = in.arr->axes[d];
    if (static_cast<size_t>(d) >= in.pos.size()) return "unspecified " + axis_kind_class(a) + " axis";
    bool he = in.has_ext && static_cast<size_t>(d) < in.ext.size();
    return axis_kind_class(a) + " axis, position " + pclass(a, in.pos[d]) + ", " + eclass(a, in.pos[d], he, he ? in.ext[d] : 0.0);
}
// class of the input on axis d used in signatures: what the statement says about the region on that axis.  (Descriptor
// kind, mode, entry point and the fine position classes are part of the written-out instance, not of the signature:
// one behaviour of the library must not fan out into dozens of signatures.)
inline std::string axis_region_class(const InputInfo &in, int d) {
    if (in.plain) return in.plain_class;
    if (d < 0) return "axis not identified";
    const Axis &a = in.arr->axes[d];
    if (static_cast<size_t>(d) >= in.pos.size()) return "unspecified " + axis_kind_class(a) + " axis";
    bool he = in.has_ext && static_cast<size_t>(d) < in.ext.size();
    double p = in.pos[d], e = he ? in.ext[d] : 0.0;
    std::vector<size_t> S = ref_axis(a, true, p, he, e, in.match);
    std::string o;
    bool point = !he || e == 0.0;
    if (point) {
        o += he ? "point (zero extent)" : "point (no extent)";
        if (S.empty()) o += ", no coordinate at or after the position";
        else if (S.back() >= a.n) o += ", first coordinate at or after the position is beyond the data";
        else o += p < a.c[0] ? ", position below the axis" : ", inside the data";
    } else if (e < 0.0) o += "negative extent";
    else {
        if (S.empty()) o += "extent covers no coordinate";
        else if (S.back() >= a.n) o += "region reaches beyond the stored data";
        else {
            o += "region inside the data";
            if (p < a.c[0]) o += ", starts below the axis";
            if (a.bounded && p + e > a.c[a.n - 1]) o += ", ends above the last coordinate";
        }
    }
    return o;
}
inline std::string input_class(const InputInfo &in, int d) {
    if (in.plain) return in.plain_class;
    return axis_region_class(in, d);
}
inline std::string assertion_for(const InputInfo &in, int d, const Expect &x) {
    if (in.plain) return in.plain_assertion;
    if (d >= 0 && static_cast<size_t>(d) >= in.pos.size()) return "unspecified dimension returned in full";
    if (x.throws) return "empty or out-of-data region raises an out-of-bounds error and returns no data";
    return "returned block is exactly the reference region";
}
inline std::string input_str(const InputInfo &in) {
    std::string o = "position=" + vf::jvecd(in.pos) + " extent=" + (in.has_ext ? vf::jvecd(in.ext) : std::string("absent")) + " " + in.mode;
    if (!in.plain) {
        o += " {";
        for (size_t d = 0; d < in.arr->axes.size(); d++) o += (d ? "; " : "") + axis_input_class(in, static_cast<int>(d));
        o += "}";
    }
    return o;
}

// Signature = prop | call site (family of entry points) | input class | assertion | deviation class.
// Deviations on an axis the tag does not specify (or on an unidentified axis of a tag with fewer entries than
// dimensions) form one coarse class per entry-point family: they are all the same behaviour of the padding of
// unspecified dimensions, whatever the descriptor kind, the mode and the concrete entry point.
//
// When a retrieval with fewer entries than dimensions raises although data is expected, and the raise cannot be
// attributed to an axis (getOffsetAndCount raises too, or several unspecified axes deviate in different directions),
// it is filed in the same class: the same (position, extent) entries are also enumerated with as many entries as
// dimensions, where a wrong raise on a specified axis has its own signature.  The details of the raise (which
// computed edge is off) stay in the written-out instance, so the one behaviour has few signatures per family:
//   "... last element earlier" (elements missing), "... last element later" (getOffsetAndCount only), "raised ...".
inline std::string make_sig(const std::string &prop, const std::string &site, const InputInfo &in, int d, const std::string &assertion, const std::string &dev) {
    const size_t rank = in.arr->axes.size();
    (void)site; // the concrete entry point is part of the written-out instance
    if (!in.plain && in.pos.size() < rank && (d < 0 || static_cast<size_t>(d) >= in.pos.size())) {
        std::string coarse = dev;
        static const char *const raised[] = {"raised instead of returning data", "raised instead of returning offset and count"};
        for (const char *r : raised) if (dev.compare(0, std::string(r).size(), r) == 0) coarse = r;
        // the effective match mode is part of the class: the listed known finding is about Exclusive matching only
        return prop + "|" + in.family + "|fewer position entries than dimensions, " + (in.match == RangeMatch::Inclusive ? "Inclusive" : "Exclusive") + "|unspecified dimension returned in full|" + coarse;
    }
    (void)assertion;
    return prop + "|" + in.family + "|" + input_class(in, d) + "|" + assertion + "|" + dev;
}

// first axis on which a returned (offset,count) differs from the expected block
inline int first_diff_axis(const std::vector<size_t> &goff, const std::vector<size_t> &gcnt, const Expect &x) {
    for (size_t d = 0; d < x.off.size() && d < goff.size(); d++) if (goff[d] != x.off[d] || gcnt[d] != x.cnt[d]) return static_cast<int>(d);
    return -1;
}
// recover the offset of a returned view from its first cell (cells carry their linear index)
inline bool offset_from_content(const Built &arr, const Got &g, std::vector<size_t> &off) {
    if (g.data.empty()) return false;
    double v = g.data[0] - arr.base;
    size_t total = 1;
    for (size_t s : arr.shape) total *= s;
    if (!(v >= 0) || v >= static_cast<double>(total) || v != std::floor(v)) return false;
    size_t lin = static_cast<size_t>(v);
    off.assign(arr.shape.size(), 0);
    for (size_t d = arr.shape.size(); d-- > 0;) { off[d] = lin % arr.shape[d]; lin /= arr.shape[d]; }
    return true;
}

inline bool is_oob(const std::string &exc) { return exc.find("OutOfBounds") != std::string::npos; }

// Compare the result of one retrieval with the reference.  `diag` (optional) is the output of getOffsetAndCount for the
// same input, used only to identify the deviating axis when the retrieval raised although data was expected.
// Returns true when the result agrees.
typedef std::function<Goc()> Diag;
inline bool check_retrieval(const std::string &prop, const std::string &site, const InputInfo &in, const Expect &x, const Got &g, const Diag &diagf = Diag()) {
    std::string inst = site + " " + input_str(in) + ": got " + got_str(g) + ", expected " + expect_str(x);
    auto sig = [&](int d, const std::string &dev) { return make_sig(prop, site, in, d, assertion_for(in, d, x), dev); };
    const int solo = in.arr->axes.size() == 1 ? 0 : -1;
    if (x.throws) {
        if (g.exc.empty()) { vf::violation(sig(x.culprit, "returned data instead of raising (" + x.why + ")"), inst); return false; }
        if (!is_oob(g.exc)) { vf::violation(sig(x.culprit, "raised an error that is not an out-of-bounds error"), inst); return false; }
        return true;
    }
    if (!g.exc.empty()) {
        int d = solo; std::string dev = "raised instead of returning data";
        Goc dg; const Goc *diag = nullptr;
        if (diagf) { dg = diagf(); diag = &dg; }
        if (diag && diag->exc.empty()) {
            int dd = first_diff_axis(diag->off, diag->cnt, x);
            if (dd >= 0) { d = dd; dev += "; computed block: " + edge_dev(diag->off[dd], diag->cnt[dd], x.off[dd], x.cnt[dd]); }
        } else if (diag) {
            // getOffsetAndCount raised as well: unspecified axes cannot raise by themselves unless they are the culprit,
            // so on rank > 1 the axis stays unidentified
            dev += "; getOffsetAndCount raised too";
        }
        vf::violation(sig(d, dev), inst);
        return false;
    }
    if (!g.read_problem.empty()) { vf::violation(sig(solo, g.read_problem), inst); return false; }
    if (g.shape != x.cnt) {
        if (g.shape.size() != x.cnt.size()) { vf::violation(sig(solo, "view has a different rank"), inst); return false; }
        int d = -1;
        for (size_t k = 0; k < x.cnt.size(); k++) if (g.shape[k] != x.cnt[k]) { d = static_cast<int>(k); break; }
        std::vector<size_t> goff;
        std::string dev;
        if (offset_from_content(*in.arr, g, goff)) {
            for (size_t k = 0; k < x.cnt.size(); k++) if (goff[k] != x.off[k] || g.shape[k] != x.cnt[k]) { d = static_cast<int>(k); break; }
            dev = edge_dev(goff[d], g.shape[d], x.off[d], x.cnt[d]);
        } else dev = g.shape[d] < x.cnt[d] ? "fewer elements" : "more elements";
        vf::violation(sig(d, dev), inst);
        return false;
    }
    if (g.data != x.values) {
        std::vector<size_t> goff; int d = solo; std::string dev = "right shape, wrong elements";
        if (offset_from_content(*in.arr, g, goff)) {
            for (size_t k = 0; k < x.cnt.size(); k++) if (goff[k] != x.off[k]) { d = static_cast<int>(k); break; }
            if (d >= 0) dev = edge_dev(goff[d], g.shape[d], x.off[d], x.cnt[d]);
        }
        vf::violation(sig(d, dev), inst);
        return false;
    }
    return true;
}

// getOffsetAndCount: must report the reference block when every S_d is non-empty (the bounds check against the
// stored data belongs to taggedData), and must raise when some S_d is empty (no offset/count describes an empty set).
inline bool check_goc(const std::string &prop, const std::string &site, const InputInfo &in, const Expect &x, const Goc &g) {
    std::string gs = g.exc.empty() ? "offset " + vs(g.off) + " count " + vs(g.cnt) : g.exc + " (" + g.what + ")";
    std::string want = x.block_defined ? "offset " + vs(x.off) + " count " + vs(x.cnt) : "an error (" + x.why + ")";
    std::string inst = site + " " + input_str(in) + ": got " + gs + ", expected " + want;
    auto sig = [&](int d, const std::string &as, const std::string &dev) { return make_sig(prop, site, in, d, as, dev); };
    const int solo = in.arr->axes.size() == 1 ? 0 : -1;
    if (!x.block_defined) {
        const std::string as = in.plain ? in.plain_assertion : "empty region raises an out-of-bounds error";
        // (a count of zero on the empty axis would describe the empty set as well: the statement does not exclude it)
        if (g.exc.empty() && x.empty_axis >= 0 && static_cast<size_t>(x.empty_axis) < g.cnt.size() && g.cnt[x.empty_axis] == 0) return true;
        if (g.exc.empty()) { vf::violation(sig(x.empty_axis, as, "returned an offset and count instead of raising"), inst); return false; }
        if (!is_oob(g.exc)) { vf::violation(sig(x.empty_axis, as, "raised an error that is not an out-of-bounds error"), inst); return false; }
        return true;
    }
    if (!x.block_complete) return true; // the region extends past the coordinates kept for the unbounded axis: count not asserted
    if (!g.exc.empty()) {
        // a block that reaches outside the stored data may be refused here already
        if (x.throws && is_oob(g.exc)) return true;
        vf::violation(sig(solo, "offset and count describe the reference region", "raised instead of returning offset and count"), inst);
        return false;
    }
    if (g.off.size() != x.off.size() || g.cnt.size() != x.cnt.size()) { vf::violation(sig(solo, "offset and count describe the reference region", "rank differs"), inst); return false; }
    int d = first_diff_axis(g.off, g.cnt, x);
    if (d >= 0) {
        std::string as = static_cast<size_t>(d) >= in.pos.size() ? "unspecified dimension returned in full" : "offset and count describe the reference region";
        vf::violation(sig(d, as, edge_dev(g.off[d], g.cnt[d], x.off[d], x.cnt[d])), inst);
        return false;
    }
    return true;
}

// ------------------------------------------------------------------------------------------------ enumeration helpers
// odometer over lists of sizes; returns false when done
inline bool next_index(std::vector<size_t> &idx, const std::vector<size_t> &sizes) {
    for (size_t d = idx.size(); d-- > 0;) { if (++idx[d] < sizes[d]) return true; idx[d] = 0; }
    return false;
}

struct Config {              // one case = one array configuration
    std::vector<AxisSpec> specs;
    std::string label;
};

static const size_t SHAPES2[][2] = {{5, 3}, {3, 5}, {4, 2}, {2, 4}, {5, 1}, {1, 5}, {5, 5}};
static const size_t SHAPES3[][3] = {{3, 2, 4}, {2, 3, 2}, {4, 2, 3}, {2, 5, 2}, {3, 3, 3}, {5, 2, 1}, {1, 2, 5}};

inline int rot_param(Kind k, int j, int axis) {
    static const int stride[] = {11, 5, 13}; // coprime to every family size (28, 3, 2)
    static const int shift[] = {0, 3, 9};
    return (j * stride[axis] + shift[axis]) % nparams(k);
}

// The fixed, ordered list of array configurations (quick: a fixed subset of the kinds and rotations of thorough).
// max_rot2 / max_rot3 bound the number of parameter rotations per combination of kinds for rank 2 / 3.
inline std::vector<Config> configurations(bool thorough, int max_rot2, int max_rot3) {
    std::vector<Config> out;
    // rank 1: every parameter set of every kind
    std::vector<size_t> sizes1 = thorough ? std::vector<size_t>{5, 1, 2, 3, 4} : std::vector<size_t>{5, 2};
    for (size_t n : sizes1)
        for (int k = 0; k < 4; k++)
            for (int p = 0; p < nparams(static_cast<Kind>(k)); p++) {
                Config c; AxisSpec s; s.kind = static_cast<Kind>(k); s.param = p; s.n = n;
                c.specs.push_back(s); c.label = "rank1";
                out.push_back(c);
            }
    // rank 2: every pair of kinds; the parameter sets rotate through both slots
    for (int k0 = 0; k0 < 4; k0++) for (int k1 = 0; k1 < 4; k1++) {
        Kind a = static_cast<Kind>(k0), b = static_cast<Kind>(k1);
        int rots = std::min(std::max(nparams(a), nparams(b)), max_rot2);
        if (!thorough) {
            bool chosen = (a == SAMPLED && b == SAMPLED) || (a == SAMPLED && b == RANGE) || (a == RANGE && b == SET) || (a == SET && b == FRAME) || (a == FRAME && b == SAMPLED);
            if (!chosen) continue;
            rots = std::min(rots, (a == SAMPLED && b == SAMPLED) ? 2 : 1);
        }
        for (int j = 0; j < rots; j++) {
            Config c; c.label = "rank2";
            AxisSpec s0, s1;
            const int jj = j + 3 * (k0 * 4 + k1); // every pair of kinds starts its rotation elsewhere
            s0.kind = a; s0.param = rot_param(a, jj, 0); s0.n = SHAPES2[j % 7][0];
            s1.kind = b; s1.param = rot_param(b, jj, 1); s1.n = SHAPES2[j % 7][1];
            c.specs.push_back(s0); c.specs.push_back(s1);
            out.push_back(c);
        }
    }
    // rank 3: every triple of kinds
    for (int k0 = 0; k0 < 4; k0++) for (int k1 = 0; k1 < 4; k1++) for (int k2 = 0; k2 < 4; k2++) {
        Kind ks[3] = {static_cast<Kind>(k0), static_cast<Kind>(k1), static_cast<Kind>(k2)};
        bool any_sampled = k0 == SAMPLED || k1 == SAMPLED || k2 == SAMPLED;
        int rots = std::min(any_sampled ? 7 : 3, max_rot3);
        if (!thorough) {
            bool chosen = (k0 == SAMPLED && k1 == RANGE && k2 == SET) || (k0 == FRAME && k1 == SAMPLED && k2 == SAMPLED);
            if (!chosen) continue;
            rots = 1;
        }
        for (int j = 0; j < rots; j++) {
            Config c; c.label = "rank3";
            for (int d = 0; d < 3; d++) {
                AxisSpec s; s.kind = ks[d];
                // sampled axes: interval j with a rotating offset; other kinds rotate through their families
                s.param = ks[d] == SAMPLED ? ((j + d) % N_INTERVALS) * N_OFFSETS + (j + 2 * d) % N_OFFSETS : rot_param(ks[d], j, d);
                s.n = SHAPES3[j % 7][d];
                c.specs.push_back(s);
            }
            out.push_back(c);
        }
    }
    return out;
}

// feature array that is cut like the references: same kinds and parameters, other extents
inline std::vector<AxisSpec> tagged_feature_specs(const std::vector<AxisSpec> &specs) {
    std::vector<AxisSpec> f = specs;
    for (size_t d = 0; d < f.size(); d++) f[d].n = f[d].n < 5 ? f[d].n + 1 : 4;
    return f;
}

} // namespace dag

#endif
