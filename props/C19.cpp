// C19 — the validator reports no error for any file that satisfies the documented hard rules, at least one error
// for every entity that breaches one, and never an error (but a warning where it has a rule) for a soft-rule breach.
//
// Bounded-exhaustive enumeration (E1/E2):
//   * a family of conforming files is generated from a small model: 1-2 blocks, 1-3 primary data arrays of rank 1-3
//     taken from ALL 84 combinations of descriptor kinds {sampled, range, set, data-frame}, fully described (SI units,
//     labels, ticks / labels / data-frame rows matching the data extent), plus per block and per rank group a Tag and a
//     MultiTag (positions + extents arrays) with units, references and features, sources, sections with unit-carrying
//     properties.  "Conforming" is read strictly (docs/validation.rst): tags carry one atomic SI unit per dimension and
//     therefore reference only arrays whose descriptors are all sampled / range (DESIGN 5 / C19, Decisions).
//   * k = 0: File::validate() of every file has no error (warnings allowed).
//   * k = 1: every breach of the hard catalogue, in every variant, is injected alone at EVERY applicable entity of a
//     copy of the file (same ids).  k = 2 (thorough): pairs of breaches in their first variant that do not conflict
//     (two writes to the same attribute, or one breach removing the target of the other): ALL such pairs on the 32
//     files of the quick family, and on the other files all pairs on related entities (same entity, same array, a tag
//     and an array it uses).  Unsorted ticks and non-positive intervals are written through the HDF5 C API into the
//     closed file (the public entry points reject them).
//   * oracle for a breach b in the injected set S and every entity e it makes non-conforming: the multiset of
//     (entity id, message) errors of the file with S contains an error carrying e's id (dimensions: "unknown") that the
//     error multiset of the file with S minus all breaches touching e does not contain.
//   * soft catalogue: the breach adds no error; where the validator has a rule, it adds a warning for the entity.
//   * ALIAS range dimensions (second generation of entities, enumerated AFTER all cases of the first one so that the
//     case numbers of the first generation do not move): every block of every file also holds a 1-D numeric array
//     (Double; Int32 in a third of the blocks) with strictly ascending data, a label, an atomic SI unit and an alias range
//     dimension (its ticks ARE the data, its unit IS the array's unit).  It is the LAST reference of the block's rank-1
//     tag / multi-tag where the block has them and the ONLY reference of a dedicated tag and multi-tag (own positions
//     and extents, feature data shared with the block's first tag; unit of the same family with another prefix).  Breaches: unsorted ticks through the PUBLIC
//     API (DataArray::setData with the first / last two values swapped), tag / multi-tag unit not convertible from both
//     sides (tag unit changed; array unit set to another SI base unit), descriptor count; soft: array unit removed.
#include <nix.hpp>
#include <nix/valid/validate.hpp>
#include <hdf5.h>
#include <fstream>
#include <algorithm>
#include "vf.hpp"

using namespace nix;

// ------------------------------------------------------------------------------------------------------------------
// model of a conforming file
// ------------------------------------------------------------------------------------------------------------------
enum DK { SAMP = 0, RANGE = 1, SET = 2, DFRAME = 3 };
static const char *DKN[] = {"sampled", "range", "set", "frame"};

struct DimSpec { DK kind; size_t len; std::string unit; bool labeled; };   // labeled: set dimensions only ("labels may be empty")
struct ArrSpec {
    std::string name; int block; char role;   // 'P' primary, 'X' auxiliary reference target, 'p' positions, 'e' extents, 'f' feature data
    std::vector<DimSpec> dims; bool calib; std::string unit;
    bool alias = false, i32 = false;   // role 'L': 1-D array whose only descriptor is an alias range dimension; stored as Int32
    int gen = 0;                       // 0: first generation of entities, 1: added for the alias arrays (their sites come last)
};
struct FeatSpec { int arr; LinkType lt; };
struct TagSpec {
    std::string name; int block; bool multi; std::vector<int> refs; std::vector<std::string> units;
    int pos, ext; std::vector<FeatSpec> feats; int gen = 0;
};
struct PropSpec { std::vector<std::string> path; std::string name; };
struct FileSpec {
    int nblocks; std::vector<ArrSpec> arrays; std::vector<TagSpec> tags; std::vector<PropSpec> props; std::string desc;
};
struct Built {   // ids of the entities of the base file (copies keep them)
    std::vector<std::string> arr, tag, prop; std::vector<std::vector<std::string>> feat;
};

static const char *FAM[3] = {"s", "V", "m"};        // unit family of dimension position p
static const char *PRE[3] = {"m", "", "u"};         // prefixes used for dimension units

static std::string bname(int b) { return "b" + std::to_string(b); }
static std::string dfname(const ArrSpec &a, size_t p) { return "df_" + a.name + "_" + std::to_string(p); }
static bool scalable(const ArrSpec &a) { for (auto &d : a.dims) if (d.kind != SAMP && d.kind != RANGE) return false; return true; }

static std::string kinds_str(const ArrSpec &a) {
    if (a.alias) return "(alias)";
    std::string s = "(";
    for (size_t p = 0; p < a.dims.size(); p++) s += std::string(p ? "," : "") + DKN[a.dims[p].kind];
    return s + ")";
}

static std::vector<std::vector<DK>> all_combos() {
    std::vector<std::vector<DK>> c;
    for (int r = 1; r <= 3; r++) {
        int n = 1; for (int i = 0; i < r; i++) n *= 4;
        for (int x = 0; x < n; x++) {
            std::vector<DK> v(r); int y = x;
            for (int i = r - 1; i >= 0; i--) { v[i] = (DK)(y % 4); y /= 4; }
            c.push_back(v);
        }
    }
    return c;   // 4 + 16 + 64 = 84
}

struct FamEntry { int nblocks; std::vector<int> combos; int variant; };

static const size_t QUICK_FILES = 4 + 28;   // the files on which thorough runs ALL pairs

static std::vector<FamEntry> family(bool thorough) {
    std::vector<FamEntry> v;
    // fixed files: the smallest one, and three whose tags / multi-tags have TWO references (two all-scalable arrays of
    // the same rank in one block are rare in the stride-generated part)
    v.push_back({1, {0}, 0});              // one block: (sampled)
    v.push_back({1, {8, 5, 2}, 1});        // one block: (range,sampled) (sampled,range) (set)
    v.push_back({2, {0, 15, 1}, 2});       // two blocks: (sampled) (set,frame) (range)
    v.push_back({1, {24, 41}, 3});         // one block: (sampled,range,sampled) (range,range,range)
    const int strides[10] = {37, 5, 11, 13, 17, 19, 23, 25, 29, 31};   // all coprime with 84
    int rounds = thorough ? 8 : 1;   // quick: 4 + 28 files, thorough: 4 + 4*28 + 4*42 = 284 files
    for (int t = 0; t < rounds; t++) {
        int per = (t % 2 == 0) ? 3 : 2;                       // arrays per file of this round
        for (int i = 0; i < 84 / per; i++) {
            FamEntry e; e.nblocks = 1 + ((i + t) % 2); e.variant = i + t;
            for (int k = 0; k < per; k++) e.combos.push_back(((i * per + k) * strides[t] + 5 + 7 * t) % 84);
            v.push_back(e);
        }
    }
    return v;
}

// positions / extents / feature data: set dimensions; only the last one of a 2-D array and the one of a feature array
// carry labels (reading a label dataset is by far the most expensive step of a validation run)
static ArrSpec small_set_array(const std::string &name, int block, char role, const std::vector<size_t> &shape) {
    ArrSpec a; a.name = name; a.block = block; a.role = role; a.calib = false;
    for (size_t i = 0; i < shape.size(); i++) a.dims.push_back({SET, shape[i], "", role == 'f' || (shape.size() == 2 && i == 1)});
    return a;
}

static FileSpec make_spec(const FamEntry &fe, const std::vector<std::vector<DK>> &C) {
    FileSpec s; s.nblocks = fe.nblocks;
    static const char *AU[3] = {"mV", "uA", "mV/Hz"};
    for (size_t k = 0; k < fe.combos.size(); k++) {
        ArrSpec a; a.name = "a" + std::to_string(k); a.block = (int)k % fe.nblocks; a.role = 'P';
        const std::vector<DK> &kinds = C[fe.combos[k]];
        for (size_t p = 0; p < kinds.size(); p++) {
            DimSpec d; d.kind = kinds[p]; d.len = 3 + ((k + p) % 3); d.labeled = true;
            if (d.kind == SAMP || d.kind == RANGE) d.unit = std::string(PRE[(k + p) % 3]) + FAM[p];
            a.dims.push_back(d);
        }
        a.calib = (k % 2 == 1); a.unit = AU[k % 3];
        s.arrays.push_back(a);
    }
    size_t nprim = s.arrays.size();
    for (int b = 0; b < fe.nblocks; b++) {
        std::vector<int> S, N;
        for (size_t k = 0; k < nprim; k++) if (s.arrays[k].block == b) (scalable(s.arrays[k]) ? S : N).push_back((int)k);
        if (S.empty()) {
            ArrSpec a; a.name = "aux" + std::to_string(b); a.block = b; a.role = 'X';
            size_t rank = 1 + ((fe.variant + b) % 3);
            for (size_t p = 0; p < rank; p++) {
                DimSpec d; d.kind = ((fe.variant + p) % 2) ? RANGE : SAMP; d.len = 3 + ((b + p) % 2); d.labeled = false;
                d.unit = std::string(PRE[(b + p + 1) % 3]) + FAM[p];
                a.dims.push_back(d);
            }
            a.calib = (fe.variant % 2 == 0); a.unit = "mV";
            S.push_back((int)s.arrays.size()); s.arrays.push_back(a);
        }
        int gi = 0;
        for (size_t rank = 1; rank <= 3; rank++) {
            std::vector<int> g;
            for (int k : S) if (s.arrays[k].dims.size() == rank) g.push_back(k);
            if (g.empty()) continue;
            std::string sfx = std::to_string(b) + "_" + std::to_string(gi);
            std::vector<size_t> pshape;
            if (rank == 1 && (fe.variant & 1)) pshape = {3}; else pshape = {3, rank};
            int pos = (int)s.arrays.size(); s.arrays.push_back(small_set_array("pos" + sfx, b, 'p', pshape));
            int ext = (int)s.arrays.size(); s.arrays.push_back(small_set_array("ext" + sfx, b, 'e', pshape));
            int fd = (int)s.arrays.size(); s.arrays.push_back(small_set_array("fd" + sfx, b, 'f', {3}));
            std::vector<std::string> units;
            for (size_t p = 0; p < rank; p++) units.push_back(std::string("m") + FAM[p]);
            TagSpec t; t.name = "tg" + sfx; t.block = b; t.multi = false; t.refs = g; t.units = units; t.pos = t.ext = -1;
            t.feats.push_back({fd, LinkType::Untagged});
            if (!N.empty()) t.feats.push_back({N[gi % N.size()], LinkType::Tagged});
            s.tags.push_back(t);
            TagSpec m; m.name = "mt" + sfx; m.block = b; m.multi = true; m.refs = g; m.units = units; m.pos = pos; m.ext = ext;
            m.feats.push_back({fd, LinkType::Indexed});
            if (!N.empty()) m.feats.push_back({N[(gi + 1) % N.size()], LinkType::Untagged});
            s.tags.push_back(m);
            gi++;
        }
    }
    // ---- second generation: per block one alias array, last reference of the block's rank-1 tags, only reference of its own
    for (int b = 0; b < fe.nblocks; b++) {
        int x = fe.variant + b;
        ArrSpec a; a.name = "al" + std::to_string(b); a.block = b; a.role = 'L'; a.calib = false; a.alias = true; a.gen = 1;
        a.i32 = (x % 3 == 2);
        a.unit = std::string(PRE[x % 3]) + FAM[0];
        a.dims.push_back({RANGE, (size_t)(4 + x % 3), a.unit, false});
        int al = (int)s.arrays.size(); s.arrays.push_back(a);
        for (auto &t : s.tags) if (t.block == b && t.units.size() == 1) t.refs.push_back(al);
        std::string sfx = "al" + std::to_string(b);
        std::vector<size_t> pshape;
        if (x & 1) pshape = {3, 1}; else pshape = {3};
        int pos = (int)s.arrays.size(); s.arrays.push_back(small_set_array("pos" + sfx, b, 'p', pshape));
        int ext = (int)s.arrays.size(); s.arrays.push_back(small_set_array("ext" + sfx, b, 'e', pshape));
        s.arrays[pos].gen = s.arrays[ext].gen = 1;
        int fd = -1;   // feature data: the block's first feature array (every block has one), no array of its own (cost of a validation run)
        for (int k = 0; k < (int)s.arrays.size() && fd < 0; k++) if (s.arrays[k].block == b && s.arrays[k].role == 'f') fd = k;
        std::vector<std::string> units = {std::string(PRE[(x + 1) % 3]) + FAM[0]};
        TagSpec t; t.name = "tg" + sfx; t.block = b; t.multi = false; t.refs = {al}; t.units = units; t.pos = t.ext = -1; t.gen = 1;
        t.feats.push_back({fd, LinkType::Untagged});
        s.tags.push_back(t);
        TagSpec m; m.name = "mt" + sfx; m.block = b; m.multi = true; m.refs = {al}; m.units = units; m.pos = pos; m.ext = ext; m.gen = 1;
        m.feats.push_back({fd, LinkType::Indexed});
        s.tags.push_back(m);
    }
    // ---- mixed arrays (enumerated with the second generation): a descriptor WITHOUT unit (set) in front of one WITH unit
    //      (sampled / range); each is the only reference of a dedicated tag and multi-tag whose second unit belongs to the
    //      family of that descriptor with another prefix and whose first unit has nothing to be compared with
    for (int b = 0; b < fe.nblocks; b++) {
        int x = fe.variant + b;
        ArrSpec a; a.name = "mx" + std::to_string(b); a.block = b; a.role = 'X'; a.calib = false; a.gen = 1; a.unit = "mV";
        a.dims.push_back({SET, 3, "", true});
        a.dims.push_back({(x % 2) ? RANGE : SAMP, 4, std::string(PRE[x % 3]) + FAM[1], false});
        int mx = (int)s.arrays.size(); s.arrays.push_back(a);
        std::string sfx = "mx" + std::to_string(b);
        int pos = (int)s.arrays.size(); s.arrays.push_back(small_set_array("pos" + sfx, b, 'p', {3, 2}));
        int ext = (int)s.arrays.size(); s.arrays.push_back(small_set_array("ext" + sfx, b, 'e', {3, 2}));
        s.arrays[pos].gen = s.arrays[ext].gen = 1;
        int fd = -1;
        for (int k = 0; k < (int)s.arrays.size() && fd < 0; k++) if (s.arrays[k].block == b && s.arrays[k].role == 'f') fd = k;
        std::vector<std::string> units = {std::string("m") + FAM[0], std::string(PRE[(x + 1) % 3]) + FAM[1]};
        TagSpec t; t.name = "tg" + sfx; t.block = b; t.multi = false; t.refs = {mx}; t.units = units; t.pos = t.ext = -1; t.gen = 1;
        t.feats.push_back({fd, LinkType::Untagged});
        s.tags.push_back(t);
        TagSpec m; m.name = "mt" + sfx; m.block = b; m.multi = true; m.refs = {mx}; m.units = units; m.pos = pos; m.ext = ext; m.gen = 1;
        m.feats.push_back({fd, LinkType::Indexed});
        s.tags.push_back(m);
    }
    // ---- a "lean" block (enumerated with the second generation): ONE array that is the positions of a multi-tag and the
    //      feature data of a tag and nothing else; deleting it (the only way to a multi-tag without positions / a feature
    //      without data through the public API) leaves a block without any data array
    {
        int b = s.nblocks++;
        int only = (int)s.arrays.size(); s.arrays.push_back(small_set_array("only", b, 'p', {3}));
        s.arrays[only].gen = 1;
        TagSpec m; m.name = "mtlean"; m.block = b; m.multi = true; m.refs = {}; m.units = {}; m.pos = only; m.ext = -1; m.gen = 1;
        s.tags.push_back(m);
        TagSpec t; t.name = "tglean"; t.block = b; t.multi = false; t.refs = {}; t.units = {"ms"}; t.pos = t.ext = -1; t.gen = 1;
        t.feats.push_back({only, LinkType::Untagged});
        s.tags.push_back(t);
    }
    s.props.push_back({{"meta"}, "p_gain"});
    s.props.push_back({{"meta"}, "p_times"});
    s.props.push_back({{"meta", "sub"}, "p_rate"});
    std::string d = std::to_string(fe.nblocks) + " block(s):";
    for (size_t k = 0; k < s.arrays.size(); k++)
        if (s.arrays[k].role == 'P' || s.arrays[k].role == 'X' || s.arrays[k].role == 'L') d += " " + s.arrays[k].name + "@b" + std::to_string(s.arrays[k].block) + kinds_str(s.arrays[k]);
    d += "; " + std::to_string(s.tags.size()) + " tags/multi-tags, " + std::to_string(s.arrays.size()) + " arrays";
    s.desc = d;
    return s;
}

// ------------------------------------------------------------------------------------------------------------------
// building the file through the public API
// ------------------------------------------------------------------------------------------------------------------
// the data (= ticks) of an alias array: strictly ascending, also negative values
static std::vector<double> alias_data(const ArrSpec &a) {
    std::vector<double> v;
    for (size_t i = 0; i < a.dims[0].len; i++) v.push_back(a.i32 ? -3.0 + (double)(2 * i * i + i) : -1.5 + 1.25 * (double)i * (double)(i + 1));
    if (v.size() >= 4 && a.block == 0) v[2] = v[1];   // two coincident events (the first two and the last two values stay distinct)
    return v;
}

template<typename T> static void write_alias_data(DataArray &da, const std::vector<double> &v) {
    std::vector<T> w; for (double x : v) w.push_back((T)x);
    da.setData(w);
}

template<typename T> static void swap_alias_data(DataArray &da, int variant) {
    std::vector<T> d;
    da.getData(d);
    if (d.size() < 2) throw std::runtime_error("harness: alias array with fewer than two values");
    if (variant == 0) std::swap(d[0], d[1]); else std::swap(d[d.size() - 2], d[d.size() - 1]);
    da.setData(d);
}

static void append_dim(Block &blk, DataArray &da, const ArrSpec &a, size_t p) {
    const DimSpec &d = a.dims[p];
    if (a.alias) { da.appendAliasRangeDimension(); return; }
    switch (d.kind) {
    case SAMP:
        da.appendSampledDimension(0.5 * (double)(p + 1), "time" + std::to_string(p), d.unit, (p % 2) ? -1.5 : 0.25);
        break;
    case RANGE: {
        std::vector<double> ticks;
        for (size_t i = 0; i < d.len; i++) ticks.push_back(-1.0 + 0.75 * (double)i * (double)(i + 1));
        // every other range descriptor with four or more ticks has two EQUAL adjacent ticks in the middle (the first two and
        // the last two stay distinct: the unsorted-ticks breaches swap those).  "Sorted" is what the library's own setter
        // accepts as sorted: if it refuses the repeated value the strictly ascending ticks are used.
        if (d.len >= 4 && (a.name.size() + p) % 2 == 0) {
            std::vector<double> rep = ticks; rep[2] = rep[1];
            bool ok = vf::guarded([&] { da.appendRangeDimension(rep, "axis" + std::to_string(p), d.unit); }).empty();
            if (ok) { vf::count("range_descriptors_with_equal_adjacent_ticks"); break; }
            if (da.dimensionCount() > p) da.deleteDimensions();   // never expected: the setter either appends or refuses
        }
        da.appendRangeDimension(ticks, "axis" + std::to_string(p), d.unit);
        break; }
    case SET: {
        std::vector<std::string> labels;
        for (size_t i = 0; i < d.len && d.labeled; i++) labels.push_back("l" + std::to_string(i));
        SetDimension sd = da.appendSetDimension(labels);
        sd.label("cond" + std::to_string(p));
        break; }
    case DFRAME: {
        std::string n = dfname(a, p);
        DataFrame df = blk.hasDataFrame(n) ? blk.getDataFrame(n) : DataFrame();
        if (!df) {
            std::vector<Column> cols = {{"idx", "", DataType::Int64}, {"val", "mV", DataType::Double}};
            df = blk.createDataFrame(n, "verif.frame", cols);
            df.rows(d.len);
        }
        if (p % 3 == 0) da.appendDataFrameDimension(df, 1u);
        else if (p % 3 == 1) da.appendDataFrameDimension(df);
        else da.appendDataFrameDimension(df, "idx");
        break; }
    }
}

static Built build_file(const FileSpec &s, const std::string &path) {
    Built B;
    File f = File::open(path, FileMode::Overwrite);
    Section meta = f.createSection("meta", "verif.meta");
    Section sub = meta.createSection("sub", "verif.meta");
    {
        Property p0 = meta.createProperty("p_gain", Variant(1.5)); p0.unit("mV");
        Property p1 = meta.createProperty("p_times", std::vector<Variant>{Variant(int64_t(1)), Variant(int64_t(2))}); p1.unit("s");
        Property p2 = sub.createProperty("p_rate", Variant(20.0)); p2.unit("kHz");
        B.prop = {p0.id(), p1.id(), p2.id()};
    }
    std::vector<Block> blocks;
    std::vector<Source> src, subsrc;
    for (int b = 0; b < s.nblocks; b++) {
        Block blk = f.createBlock(bname(b), "verif.block");
        blk.metadata(meta);
        Source so = blk.createSource("src", "verif.source");
        subsrc.push_back(so.createSource("sub", "verif.source"));
        so.metadata(sub);
        src.push_back(so);
        blocks.push_back(blk);
    }
    for (size_t k = 0; k < s.arrays.size(); k++) {
        const ArrSpec &a = s.arrays[k];
        Block blk = blocks[a.block];
        NDSize shape(a.dims.size());
        for (size_t p = 0; p < a.dims.size(); p++) shape[p] = a.dims[p].len;
        DataArray da = blk.createDataArray(a.name, a.role == 'P' || a.role == 'X' ? "verif.signal" : a.alias ? "verif.events" : "verif.aux",
                                           a.i32 ? DataType::Int32 : DataType::Double, shape);
        da.label(a.alias ? "event time" : "value");
        if (!a.unit.empty()) da.unit(a.unit);
        if (a.alias) { if (a.i32) write_alias_data<int32_t>(da, alias_data(a)); else write_alias_data<double>(da, alias_data(a)); }
        if (a.calib) { da.polynomCoefficients({0.5, 2.0}); da.expansionOrigin(0.25); }
        for (size_t p = 0; p < a.dims.size(); p++) append_dim(blk, da, a, p);
        if (a.role == 'P' || a.role == 'L') { da.addSource(src[a.block]); da.metadata(sub); }
        B.arr.push_back(da.id());
    }
    for (size_t t = 0; t < s.tags.size(); t++) {
        const TagSpec &ts = s.tags[t];
        Block blk = blocks[ts.block];
        std::vector<std::string> fids;
        if (!ts.multi) {
            std::vector<double> pos(ts.units.size(), 1.0), ext(ts.units.size(), 2.0);
            Tag tg = blk.createTag(ts.name, "verif.tag", pos);
            tg.extent(ext);
            tg.units(ts.units);
            for (int r : ts.refs) tg.addReference(blk.getDataArray(s.arrays[r].name));
            for (auto &fs : ts.feats) fids.push_back(tg.createFeature(blk.getDataArray(s.arrays[fs.arr].name), fs.lt).id());
            tg.addSource(subsrc[ts.block]);
            tg.metadata(meta);
            B.tag.push_back(tg.id());
        } else {
            MultiTag mt = blk.createMultiTag(ts.name, "verif.mtag", blk.getDataArray(s.arrays[ts.pos].name));
            if (ts.ext >= 0) mt.extents(blk.getDataArray(s.arrays[ts.ext].name));
            mt.units(ts.units);
            for (int r : ts.refs) mt.addReference(blk.getDataArray(s.arrays[r].name));
            for (auto &fs : ts.feats) fids.push_back(mt.createFeature(blk.getDataArray(s.arrays[fs.arr].name), fs.lt).id());
            mt.addSource(src[ts.block]);
            B.tag.push_back(mt.id());
        }
        B.feat.push_back(fids);
    }
    f.close();
    return B;
}

// ------------------------------------------------------------------------------------------------------------------
// breach catalogue
// ------------------------------------------------------------------------------------------------------------------
enum BK { B_FEWER, B_MORE, B_TICKS, B_LABELS, B_ROWS, B_UNSORTED, B_INTERVAL, B_TAGUNIT, B_REFUNIT, B_DELPOS, B_DELFEAT,
          S_UNIT_NONE, S_UNIT_NONSI, S_COEFF, S_ORIGIN, S_OFFSET, S_PROP, X_DUPTICKS,
          B_ALIAS_UNSORTED, B_ALIAS_UNIT };   // alias arrays: data overwritten with unsorted values; array unit (= dimension unit) changed

struct Ent { char kind; int a, p; };   // 'A' array a | 'D' dimension p of array a | 'T' tag a | 'F' feature p of tag a | 'P' property a

struct Site {
    BK kind; int cat;            // cat: 0 hard, 1 soft, 2 statistic only
    bool warn_expected;
    int a, p, t, v;              // array, dimension position (0-based), tag, variant
    std::string name;            // breach kind + variant: part of the signature
    std::string desc;            // concrete instance
    std::vector<Ent> breached;   // entities that become non-conforming
    std::vector<std::string> writes, removes;   // conflict keys
    int phase;                   // 0 structure, 1 attributes, 2 deletions, 3 HDF5 level
    bool primary;                // first variant of this (kind, target): the one used in pairs
};

static std::string akey(int a) { return "A" + std::to_string(a) + "."; }
static std::string dkey(int a, int p) { return akey(a) + "d" + std::to_string(p) + "."; }

static std::string arr_ctx(const FileSpec &s, int a) {
    const ArrSpec &A = s.arrays[a];
    return std::string("array ") + A.name + " [role " + A.role + ", block " + std::to_string(A.block) + ", " + kinds_str(A) + "]";
}
static std::string dim_ctx(const FileSpec &s, int a, int p) {
    return "dimension " + std::to_string(p + 1) + "/" + std::to_string(s.arrays[a].dims.size()) + " (" + (s.arrays[a].alias ? "alias range" : DKN[s.arrays[a].dims[p].kind]) + ") of " + arr_ctx(s, a);
}
static std::string tag_ctx(const FileSpec &s, int t) {
    const TagSpec &T = s.tags[t];
    std::string r;
    for (int x : T.refs) r += (r.empty() ? "" : ",") + s.arrays[x].name;
    return std::string(T.multi ? "multi-tag " : "tag ") + T.name + " [block " + std::to_string(T.block) + ", " + std::to_string(T.units.size()) + " units, refs " + r + "]";
}

// sites of the first generation of entities first (in the order they always had), then those of the second generation;
// *n_first = number of sites of the first generation
static std::vector<Site> make_sites(const FileSpec &s, int *n_first = nullptr) {
    std::vector<Site> out;
    auto add = [&](BK k, int cat, bool warn, int a, int p, int t, int v, const std::string &name, const std::string &desc,
                   std::vector<Ent> br, std::vector<std::string> wr, std::vector<std::string> rm, int phase) {
        Site x; x.kind = k; x.cat = cat; x.warn_expected = warn; x.a = a; x.p = p; x.t = t; x.v = v; x.name = name; x.desc = desc;
        x.breached = br; x.writes = wr; x.removes = rm; x.phase = phase; x.primary = true;
        for (auto &o : out) if (o.kind == k && o.a == a && o.p == p && o.t == t) x.primary = false;
        out.push_back(x);
    };
    const int na = (int)s.arrays.size();
    for (int gen = 0; gen < 2; gen++) {
    // ---- hard: per array and per dimension
    for (int a = 0; a < na; a++) {
        const ArrSpec &A = s.arrays[a];
        if (A.gen != gen) continue;
        int rank = (int)A.dims.size();
        add(B_FEWER, 0, false, a, -1, -1, 0, "one descriptor fewer than the data rank", "last descriptor removed from " + arr_ctx(s, a),
            {{'A', a, 0}}, {akey(a) + "ndims"}, {dkey(a, rank - 1)}, 0);
        add(B_MORE, 0, false, a, -1, -1, a % 2, std::string("one descriptor more than the data rank (extra ") + (a % 2 ? "sampled" : "set") + ")",
            "extra descriptor appended to " + arr_ctx(s, a), {{'A', a, 0}}, {akey(a) + "ndims"}, {}, 0);
        if (A.alias) {
            // the ticks are the data: their number cannot differ from the data length; unsorted ticks need no HDF5 access
            for (int v = 0; v < 2; v++)
                add(B_ALIAS_UNSORTED, 0, false, a, 0, -1, v, std::string("alias dimension: unsorted ticks (") + (v ? "last two swapped" : "first two swapped") + ", DataArray::setData)",
                    std::string("data overwritten with DataArray::setData, ") + (v ? "last two values swapped" : "first two values swapped") + " (" + (A.i32 ? "Int32" : "Double") + ") at " + dim_ctx(s, a, 0),
                    {{'D', a, 0}}, {dkey(a, 0) + "order"}, {}, 1);
            continue;
        }
        for (int p = 0; p < rank; p++) {
            DK k = A.dims[p].kind;
            bool main = A.role == 'P' || A.role == 'X';
            if (k == RANGE || k == SET || k == DFRAME) {
                BK bk = k == RANGE ? B_TICKS : k == SET ? B_LABELS : B_ROWS;
                const char *what = k == RANGE ? "tick" : k == SET ? "label" : "data-frame row";
                for (int v = 0; v < 4; v++) {
                    if (v == 3 && k != DFRAME) continue;   // "none at all": a frame without rows (empty ticks cannot be set, no labels is conforming)
                    if (v == 2 && !main) continue;   // the data-side variant only on primary arrays
                    if (v == 0 && k == SET && (A.dims[p].len < 2 || !A.dims[p].labeled)) continue;   // no labels at all is conforming ("labels may be empty")
                    std::string nm = std::string(what) + " count != data length (" + (v == 0 ? "one fewer" : v == 1 ? "one more" : v == 2 ? "data extent grown by one" : "none at all") + ")";
                    add(bk, 0, false, a, p, -1, v, nm, nm + " at " + dim_ctx(s, a, p), {{'A', a, 0}}, {dkey(a, p) + "count"}, {}, 1);
                }
            }
            if (k == RANGE) {
                for (int v = 0; v < 2; v++)
                    add(B_UNSORTED, 0, false, a, p, -1, v, std::string("unsorted ticks (") + (v ? "last two swapped" : "first two swapped") + ")",
                        std::string("ticks unsorted (") + (v ? "last two swapped" : "first two swapped") + ", HDF5 level) at " + dim_ctx(s, a, p),
                        {{'D', a, p}}, {dkey(a, p) + "order"}, {}, 3);
                add(X_DUPTICKS, 2, false, a, p, -1, 0, "equal adjacent ticks", "second tick set equal to the first (HDF5 level) at " + dim_ctx(s, a, p),
                    {{'D', a, p}}, {dkey(a, p) + "order"}, {}, 3);
            }
            if (k == SAMP) {
                for (int v = 0; v < 2; v++)
                    add(B_INTERVAL, 0, false, a, p, -1, v, std::string("sampling interval ") + (v ? "negative" : "zero"),
                        std::string("sampling interval set to ") + (v ? "-0.5" : "0") + " (HDF5 level) at " + dim_ctx(s, a, p),
                        {{'D', a, p}}, {dkey(a, p) + "interval"}, {}, 3);
            }
        }
    }
    // ---- hard: tag units, from the tag side and from the side of the referenced dimension
    for (int t = 0; t < (int)s.tags.size(); t++) {
        const TagSpec &T = s.tags[t];
        if (T.gen != gen) continue;
        bool only_alias = T.refs.size() == 1 && s.arrays[T.refs[0]].alias;
        for (int p = 0; p < (int)T.units.size(); p++) {
            // a tag unit is compared with the unit of descriptor p of every reference: where no reference has a unit there, any
            // valid unit conforms
            bool compared = false;
            for (int r : T.refs) if (p < (int)s.arrays[r].dims.size() && !s.arrays[r].dims[p].unit.empty()) compared = true;
            if (!compared) continue;
            for (int v = 0; v < 2; v++) {
                std::string nu = v == 0 ? "K" : T.units[p] + "^2";
                add(B_TAGUNIT, 0, false, -1, p, t, v, std::string(T.multi ? "multi-tag" : "tag") + (only_alias ? " on an alias array:" : "") + " unit not convertible (" + (v ? "other power" : "other base unit") + ")",
                    "unit " + std::to_string(p + 1) + "/" + std::to_string(T.units.size()) + " of " + tag_ctx(s, t) + " set to " + nu,
                    {{'T', t, 0}}, {"T" + std::to_string(t) + ".u" + std::to_string(p)}, {}, 1);
            }
        }
    }
    for (int a = 0; a < na; a++) {
        if (s.arrays[a].gen != gen) continue;
        std::vector<Ent> tg;
        for (int t = 0; t < (int)s.tags.size(); t++)
            if (std::find(s.tags[t].refs.begin(), s.tags[t].refs.end(), a) != s.tags[t].refs.end()) tg.push_back({'T', t, 0});
        if (tg.empty()) continue;
        if (s.arrays[a].alias) {
            // the unit of an alias dimension is the unit of its array
            add(B_ALIAS_UNIT, 0, false, a, 0, -1, 0, "referenced alias array's unit changed to one the tag units cannot be converted to",
                "unit of " + arr_ctx(s, a) + " set to cd with DataArray::unit (referenced by " + std::to_string(tg.size()) + " tags/multi-tags)",
                tg, {akey(a) + "unit", dkey(a, 0) + "unit"}, {}, 1);
            continue;
        }
        for (int p = 0; p < (int)s.arrays[a].dims.size(); p++)
            if (!s.arrays[a].dims[p].unit.empty())
            add(B_REFUNIT, 0, false, a, p, -1, 0, "referenced dimension's unit changed to one the tag units cannot be converted to",
                "unit of " + dim_ctx(s, a, p) + " set to cd (referenced by " + std::to_string(tg.size()) + " tags/multi-tags)",
                tg, {dkey(a, p) + "unit"}, {}, 1);
    }
    // ---- hard: deleted positions / feature data
    for (int t = 0; t < (int)s.tags.size(); t++)
        if (s.tags[t].multi && s.tags[t].gen == gen)
            add(B_DELPOS, 0, false, s.tags[t].pos, -1, t, 0, "multi-tag whose positions array was deleted",
                "positions array " + s.arrays[s.tags[t].pos].name + " of " + tag_ctx(s, t) + " deleted", {{'T', t, 0}}, {}, {akey(s.tags[t].pos)}, 2);
    for (int a = 0; a < na; a++) {
        if (s.arrays[a].gen != gen) continue;
        std::vector<Ent> fe;
        for (int t = 0; t < (int)s.tags.size(); t++)
            for (int k = 0; k < (int)s.tags[t].feats.size(); k++)
                if (s.tags[t].feats[k].arr == a) fe.push_back({'F', t, k});
        if (fe.empty()) continue;
        add(B_DELFEAT, 0, false, a, -1, -1, 0, "feature whose data array was deleted",
            arr_ctx(s, a) + " deleted, it is the data of " + std::to_string(fe.size()) + " feature(s)", fe, {}, {akey(a)}, 2);
    }
    // ---- soft
    for (int a = 0; a < na; a++) {
        const ArrSpec &A = s.arrays[a];
        if (A.gen != gen) continue;
        if (A.alias) {
            // (a non-SI unit is refused by DataArray::unit for an array with an alias dimension: not injectable)
            add(S_UNIT_NONE, 1, false, a, -1, -1, 0, "alias array unit missing", "unit removed (DataArray::unit(none)) from " + arr_ctx(s, a), {{'A', a, 0}},
                {akey(a) + "unit", dkey(a, 0) + "unit"}, {}, 1);
            continue;
        }
        if (A.role != 'P' && A.role != 'X') continue;
        add(S_UNIT_NONE, 1, false, a, -1, -1, 0, "array unit missing", "unit removed from " + arr_ctx(s, a), {{'A', a, 0}}, {akey(a) + "unit"}, {}, 1);
        add(S_UNIT_NONSI, 1, true, a, -1, -1, 0, "array unit not SI", "unit of " + arr_ctx(s, a) + " set to furlong", {{'A', a, 0}}, {akey(a) + "unit"}, {}, 1);
        add(S_COEFF, 1, true, a, -1, -1, 0, "polynomial coefficients without expansion origin",
            std::string(A.calib ? "expansion origin removed from " : "coefficients added to ") + arr_ctx(s, a), {{'A', a, 0}}, {akey(a) + "calib"}, {}, 1);
        add(S_ORIGIN, 1, true, a, -1, -1, 0, "expansion origin without polynomial coefficients",
            std::string(A.calib ? "coefficients removed from " : "expansion origin added to ") + arr_ctx(s, a), {{'A', a, 0}}, {akey(a) + "calib"}, {}, 1);
        for (int p = 0; p < (int)A.dims.size(); p++)
            if (A.dims[p].kind == SAMP)
                add(S_OFFSET, 1, true, a, p, -1, 0, "sampled offset without unit", "unit removed (offset kept) at " + dim_ctx(s, a, p),
                    {{'D', a, p}}, {dkey(a, p) + "unit"}, {}, 1);
    }
    if (gen == 0)
        for (int i = 0; i < (int)s.props.size(); i++)
            add(S_PROP, 1, true, i, -1, -1, 0, "property values without unit", "unit removed from property " + s.props[i].name, {{'P', i, 0}},
                {"P" + std::to_string(i) + ".unit"}, {}, 1);
    if (gen == 0 && n_first) *n_first = (int)out.size();
    }
    return out;
}

static bool starts_with(const std::string &s, const std::string &pre) { return s.compare(0, pre.size(), pre) == 0; }

static bool conflict(const FileSpec &s, const Site &x, const Site &y) {
    for (auto &w : x.writes) for (auto &v : y.writes) if (w == v) return true;
    for (auto &r : x.removes) { for (auto &v : y.writes) if (starts_with(v, r)) return true; for (auto &q : y.removes) if (starts_with(q, r) || starts_with(r, q)) return true; }
    for (auto &r : y.removes) for (auto &v : x.writes) if (starts_with(v, r)) return true;
    // semantic conflicts: the second breach removes what the first one is measured against
    for (int o = 0; o < 2; o++) {
        const Site &u = o ? y : x, &w = o ? x : y;
        if (u.kind != B_TAGUNIT) continue;
        const TagSpec &T = s.tags[u.t];
        bool refd = std::find(T.refs.begin(), T.refs.end(), w.a) != T.refs.end();
        if (w.kind == S_OFFSET && refd && w.p == u.p) return true;                                          // the dimension has no unit any more
        if (w.kind == S_UNIT_NONE && w.a >= 0 && s.arrays[w.a].alias && refd && u.p == 0) return true;      // the same for an alias dimension
        if (w.kind == B_FEWER && refd && T.refs.size() == 1 && u.p == (int)T.units.size() - 1) return true; // the dimension is gone
    }
    return false;
}

// ------------------------------------------------------------------------------------------------------------------
// injection
// ------------------------------------------------------------------------------------------------------------------
static void copy_file(const std::string &a, const std::string &b) {
    std::ifstream in(a, std::ios::binary);
    std::ofstream out(b, std::ios::binary | std::ios::trunc);
    out << in.rdbuf();
}

static void apply_api(File &f, const FileSpec &s, const Site &x) {
    Block blk; DataArray da;
    if (x.kind != S_PROP && x.a >= 0) { blk = f.getBlock(bname(s.arrays[x.a].block)); da = blk.getDataArray(s.arrays[x.a].name); if (!da) throw std::runtime_error("harness: array not found"); }
    switch (x.kind) {
    case B_FEWER: {
        const ArrSpec &A = s.arrays[x.a];
        da.deleteDimensions();
        for (size_t p = 0; p + 1 < A.dims.size(); p++) append_dim(blk, da, A, p);
        break; }
    case B_MORE:
        if (x.v) da.appendSampledDimension(1.0, "extra", "s", 0.5); else da.appendSetDimension();
        break;
    case B_TICKS: case B_LABELS: case B_ROWS:
        if (x.v == 2) { NDSize e = da.dataExtent(); e[x.p] += 1; da.dataExtent(e); break; }
        if (x.kind == B_TICKS) {
            RangeDimension rd = da.getDimension(x.p + 1).asRangeDimension();
            std::vector<double> t = rd.ticks();
            if (x.v == 0) t.pop_back(); else t.push_back(t.back() + 10.0);
            rd.ticks(t);
        } else if (x.kind == B_LABELS) {
            SetDimension sd = da.getDimension(x.p + 1).asSetDimension();
            std::vector<std::string> l;
            size_t want = x.v == 0 ? s.arrays[x.a].dims[x.p].len - 1 : s.arrays[x.a].dims[x.p].len + 1;
            for (size_t i = 0; i < want; i++) l.push_back("l" + std::to_string(i));
            sd.labels(l);
        } else {
            DataFrame df = blk.getDataFrame(dfname(s.arrays[x.a], x.p));
            df.rows(x.v == 0 ? df.rows() - 1 : x.v == 3 ? 0 : df.rows() + 1);
        }
        break;
    case B_ALIAS_UNSORTED: {
        // the only way to unsorted ticks through the public API: the ticks of an alias dimension are the array's data
        if (s.arrays[x.a].i32) swap_alias_data<int32_t>(da, x.v); else swap_alias_data<double>(da, x.v);
        break; }
    case B_ALIAS_UNIT: da.unit("cd"); break;
    case B_TAGUNIT: {
        const TagSpec &T = s.tags[x.t];
        std::vector<std::string> u = T.units;
        u[x.p] = x.v == 0 ? std::string("K") : T.units[x.p] + "^2";
        Block tb = f.getBlock(bname(T.block));
        if (T.multi) tb.getMultiTag(T.name).units(u); else tb.getTag(T.name).units(u);
        break; }
    case B_REFUNIT: {
        Dimension d = da.getDimension(x.p + 1);
        if (d.dimensionType() == DimensionType::Sample) d.asSampledDimension().unit("cd"); else d.asRangeDimension().unit("cd");
        break; }
    case B_DELPOS: case B_DELFEAT:
        if (!blk.deleteDataArray(da.id())) throw std::runtime_error("harness: deleteDataArray returned false");
        break;
    case S_UNIT_NONE: da.unit(none); break;
    case S_UNIT_NONSI: da.unit("furlong"); break;
    case S_COEFF: if (s.arrays[x.a].calib) da.expansionOrigin(none); else da.polynomCoefficients({1.0, 3.0}); break;
    case S_ORIGIN: if (s.arrays[x.a].calib) da.polynomCoefficients(none); else da.expansionOrigin(0.75); break;
    case S_OFFSET: da.getDimension(x.p + 1).asSampledDimension().unit(none); break;
    case S_PROP: {
        const PropSpec &P = s.props[x.a];
        Section sec = f.getSection(P.path[0]);
        for (size_t i = 1; i < P.path.size(); i++) sec = sec.getSection(P.path[i]);
        sec.getProperty(P.name).unit(none);
        break; }
    default: break;
    }
}

static std::string dim_group(const FileSpec &s, int a, int p) {
    return "/data/" + bname(s.arrays[a].block) + "/data_arrays/" + s.arrays[a].name + "/dimensions/" + std::to_string(p + 1);
}

// unsorted / duplicate ticks and non-positive intervals, written behind the library's back
static bool apply_h5(hid_t f, const FileSpec &s, const Site &x) {
    std::string g = dim_group(s, x.a, x.p);
    if (x.kind == B_INTERVAL) {
        // (H5Aopen_by_name + H5Awrite fails in HDF5 1.10.8 with "can't locate open attribute"; go through the object)
        hid_t o = H5Oopen(f, g.c_str(), H5P_DEFAULT);
        if (o < 0) return false;
        hid_t at = H5Aopen(o, "sampling_interval", H5P_DEFAULT);
        bool ok = at >= 0;
        if (ok) {
            double v = x.v ? -0.5 : 0.0;
            ok = H5Awrite(at, H5T_NATIVE_DOUBLE, &v) >= 0;
            H5Aclose(at);
        }
        H5Oclose(o);
        return ok;
    }
    hid_t ds = H5Dopen2(f, (g + "/ticks").c_str(), H5P_DEFAULT);
    if (ds < 0) return false;
    hid_t sp = H5Dget_space(ds);
    hssize_t n = H5Sget_simple_extent_npoints(sp);
    H5Sclose(sp);
    bool ok = n >= 2;
    if (ok) {
        std::vector<double> t((size_t)n);
        ok = H5Dread(ds, H5T_NATIVE_DOUBLE, H5S_ALL, H5S_ALL, H5P_DEFAULT, t.data()) >= 0;
        if (ok) {
            if (x.kind == X_DUPTICKS) t[1] = t[0];
            else if (x.v == 0) std::swap(t[0], t[1]);
            else std::swap(t[(size_t)n - 2], t[(size_t)n - 1]);
            ok = H5Dwrite(ds, H5T_NATIVE_DOUBLE, H5S_ALL, H5S_ALL, H5P_DEFAULT, t.data()) >= 0;
        }
    }
    H5Dclose(ds);
    return ok;
}

// ------------------------------------------------------------------------------------------------------------------
// validation results
// ------------------------------------------------------------------------------------------------------------------
typedef std::pair<std::string, std::string> EM;   // (entity id, message)
struct Res { std::map<EM, int> err, warn; std::string exc, what; bool have = false; };

static double t_validate = 0, t_inject = 0, t_build = 0;

static std::vector<EM> msub(const std::map<EM, int> &a, const std::map<EM, int> &b);
static std::string show(const std::vector<EM> &v, size_t max);

static Res run_validate(const std::string &path) {
    Res r;
    double t0 = vf::wall();
    r.exc = vf::guarded([&] {
        File f = File::open(path, FileMode::ReadOnly);
        valid::Result v = f.validate();
        for (auto &m : v.getErrors()) r.err[EM(m.id, m.msg)]++;
        for (auto &m : v.getWarnings()) r.warn[EM(m.id, m.msg)]++;
        // the same verdict asked entity by entity (valid::validate(block), valid::validate(array), valid::validate(dimension), ...): what the
        // file-level validator reports about an entity and what the entity's own validator reports must be the same errors
        std::map<EM, int> ent;
        auto take = [&](const valid::Result &er) { for (auto &m : er.getErrors()) ent[EM(m.id, m.msg)]++; };
        for (auto &b : f.blocks()) {
            take(valid::validate(b));
            for (auto &a : b.dataArrays()) { take(valid::validate(a)); for (auto &d : a.dimensions()) {
                if (d.dimensionType() == DimensionType::Range) take(valid::validate(d.asRangeDimension()));
                else if (d.dimensionType() == DimensionType::Set) take(valid::validate(d.asSetDimension()));
                else if (d.dimensionType() == DimensionType::Sample) take(valid::validate(d.asSampledDimension())); } }
            for (auto &m : b.multiTags()) { take(valid::validate(m)); for (auto &ft : m.features()) take(valid::validate(ft)); }
            for (auto &t : b.tags()) { take(valid::validate(t)); for (auto &ft : t.features()) take(valid::validate(ft)); }
            for (auto &sc : b.findSources()) take(valid::validate(sc));
        }
        for (auto &sec : f.findSections()) { take(valid::validate(sec)); for (auto &p : sec.properties()) take(valid::validate(p)); }
        vf::count("entity_level_validations");
        std::vector<EM> only_file = msub(r.err, ent), only_ent = msub(ent, r.err);
        if (!only_file.empty() || !only_ent.empty())
            vf::violation(std::string("C19|File::validate against the entities' own validate()|errors differ|") + (only_ent.empty() ? "file level reports more" : "an entity's validate() reports an error that File::validate lacks"),
                          "only at file level: " + show(only_file, 6) + "; only at entity level: " + show(only_ent, 6));
        f.close();
    }, &r.what);
    r.have = true;
    vf::count("validate_calls");
    t_validate += vf::wall() - t0;
    return r;
}

static std::vector<EM> msub(const std::map<EM, int> &a, const std::map<EM, int> &b) {   // multiset difference a - b
    std::vector<EM> d;
    for (auto &kv : a) {
        auto it = b.find(kv.first);
        int n = kv.second - (it == b.end() ? 0 : it->second);
        for (int i = 0; i < n; i++) d.push_back(kv.first);
    }
    return d;
}

static std::string show(const std::vector<EM> &v, size_t max) {
    std::string s = "[";
    for (size_t i = 0; i < v.size() && i < max; i++) s += std::string(i ? "; " : "") + v[i].first + ": " + v[i].second;
    if (v.size() > max) s += "; ... (" + std::to_string(v.size()) + ")";
    return s + "]";
}
static std::string show(const std::vector<EM> &v) { return show(v, 6); }
static std::string show(const std::map<EM, int> &m) { return show(msub(m, std::map<EM, int>()), 6); }

// ------------------------------------------------------------------------------------------------------------------
// one generated file with its cache of results
// ------------------------------------------------------------------------------------------------------------------
struct FileCtx {
    long fi = -1; FileSpec spec; Built built; std::vector<Site> sites; std::string base; Res e0; std::vector<Res> single; bool ok = false;
};

static std::string ent_id(const FileCtx &c, const Ent &e) {
    switch (e.kind) {
    case 'A': return c.built.arr[e.a];
    case 'T': return c.built.tag[e.a];
    case 'F': return c.built.feat[e.a][e.p];
    case 'P': return c.built.prop[e.a];
    default: return "unknown";
    }
}
static bool same_ent(const Ent &a, const Ent &b) { return a.kind == b.kind && a.a == b.a && (a.kind == 'D' || a.kind == 'F' ? a.p == b.p : true); }
static bool touches(const Site &x, const Ent &e) { for (auto &b : x.breached) if (same_ent(b, e)) return true; return false; }

// materialise base + the breaches of `set` (indices into sites) and validate
static Res inject_and_validate(const FileCtx &c, std::vector<int> set, std::string *err) {
    std::string p = vf::scratch_file("work.h5");
    double t0 = vf::wall();
    copy_file(c.base, p);
    std::stable_sort(set.begin(), set.end(), [&](int i, int j) { return c.sites[i].phase < c.sites[j].phase; });
    bool need_h5 = false;
    std::string what;
    std::string exc = vf::guarded([&] {
        File f = File::open(p, FileMode::ReadWrite);
        for (int i : set) { if (c.sites[i].phase == 3) need_h5 = true; else apply_api(f, c.spec, c.sites[i]); }
        f.close();
    }, &what);
    if (!exc.empty()) { *err = "injection through the API failed: " + exc + ": " + what; return Res(); }
    if (need_h5) {
        hid_t f = H5Fopen(p.c_str(), H5F_ACC_RDWR, H5P_DEFAULT);
        bool ok = f >= 0;
        for (int i : set) if (ok && c.sites[i].phase == 3) ok = apply_h5(f, c.spec, c.sites[i]);
        if (f >= 0) H5Fclose(f);
        if (!ok) { *err = "injection through HDF5 failed"; return Res(); }
    }
    t_inject += vf::wall() - t0;
    return run_validate(p);
}

static std::string relation(const FileSpec &s, const Site &x, const Site &y) {
    for (auto &e : x.breached) if (touches(y, e)) return "same entity";
    if (x.a >= 0 && x.a == y.a && x.kind != S_PROP && y.kind != S_PROP) return "same array";
    auto uses = [&](const Site &t, const Site &o) {
        if (t.t < 0 || o.a < 0 || o.kind == S_PROP) return false;
        const TagSpec &T = s.tags[t.t];
        if (std::find(T.refs.begin(), T.refs.end(), o.a) != T.refs.end() || T.pos == o.a || T.ext == o.a) return true;
        for (auto &f : T.feats) if (f.arr == o.a) return true;
        return false;
    };
    if (uses(x, y) || uses(y, x)) return "tag and an array it uses";
    return "unrelated entities";
}

static std::string msgs_of(const std::vector<EM> &v) {
    std::set<std::string> m; for (auto &e : v) m.insert(e.second.substr(0, 40));
    std::string s; for (auto &x : m) s += (s.empty() ? "" : " & ") + x;
    return s.empty() ? "nothing" : s;
}

// checks the oracle for the injected set S (1 or 2 site indices); sub[i] = result of the file with S minus site S[i]
static void check_set(const FileCtx &c, const std::vector<int> &S, const Res &full, const Res &base, const std::vector<const Res *> &sub) {
    const bool pair = S.size() == 2;
    std::string kinds = c.sites[S[0]].name + (pair ? " + " + c.sites[S[1]].name : "");
    std::string rel = pair ? relation(c.spec, c.sites[S[0]], c.sites[S[1]]) : "";
    std::string pre = std::string("C19|File::validate|k=") + (pair ? "2|" + kinds + "|" + rel : "1");
    std::string inst = "file " + std::to_string(c.fi) + " {" + c.spec.desc + "}: " + c.sites[S[0]].desc + (pair ? "  AND  " + c.sites[S[1]].desc : "");
    if (!full.exc.empty()) {
        vf::violation(pre + "|validate threw instead of reporting", inst + " -> " + full.exc + ": " + full.what);
        vf::distinct("outcomes", kinds + " -> " + full.exc);
        return;
    }
    std::string outcome = kinds + " ->";
    for (size_t i = 0; i < S.size(); i++) {
        const Site &x = c.sites[S[i]];
        const Res &without = *sub[i];
        if (x.cat == 0) {
            for (auto &e : x.breached) {
                // reference: the file without every injected breach that touches e
                const Res *ref = &without;
                if (pair && touches(c.sites[S[1 - i]], e)) ref = &base;
                std::vector<EM> fresh = msub(full.err, ref->err);
                std::string id = ent_id(c, e);
                bool hit = false;
                for (auto &m : fresh) if (m.first == id) hit = true;
                vf::count("breached_entities_checked");
                if (!hit) {
                    vf::violation(pre + "|" + x.name + "|breached entity draws no new error",
                                  inst + " -> entity " + id + " (" + e.kind + ") has no error that the file without the breach lacks; new errors: " + show(fresh) +
                                  "; all errors: " + show(full.err));
                    outcome += " [" + x.name + " NOT FLAGGED]";
                } else outcome += " [" + msgs_of(fresh) + "]";
            }
        } else if (x.cat == 1) {
            std::vector<EM> fresh = msub(full.err, without.err);
            vf::count("soft_checks");
            if (!fresh.empty())
                vf::violation(pre + "|" + x.name + "|soft breach adds an error", inst + " -> new errors: " + show(fresh));
            std::vector<EM> wfresh = msub(full.warn, without.warn);
            bool hit = false;
            for (auto &e : x.breached) { std::string id = ent_id(c, e); for (auto &m : wfresh) if (m.first == id) hit = true; }
            if (x.warn_expected) {
                if (!hit) vf::violation(pre + "|" + x.name + "|soft breach draws no warning", inst + " -> new warnings: " + show(wfresh));
            } else if (!pair) vf::count(hit ? "stat_missing_array_unit_warned" : "stat_missing_array_unit_not_warned");
            outcome += std::string(" [soft: ") + (fresh.empty() ? "no error" : "ERROR") + ", " + (hit ? "warning" : "no warning") + "]";
        } else {
            std::vector<EM> fresh = msub(full.err, without.err);
            vf::count(fresh.empty() ? "stat_equal_ticks_not_flagged" : "stat_equal_ticks_flagged");
            outcome += std::string(" [stat: ") + (fresh.empty() ? "no error" : "error") + "]";
        }
    }
    vf::distinct("outcomes", outcome);
    if (vf::opt.only >= 0) fprintf(stderr, "  %s\n      => %s\n", inst.c_str(), outcome.c_str());
}

static std::string jres(const Res &r) {
    std::vector<std::string> e, w;
    for (auto &kv : r.err) e.push_back(kv.first.second);
    for (auto &kv : r.warn) w.push_back(kv.first.second);
    return "{\"errors\":" + vf::jvecs(e) + ",\"warnings\":" + std::to_string(w.size()) + "}";
}

int main(int argc, char **argv) {
    vf::init(argc, argv, "C19");
    vf::set_clock(1500000000);
    H5Eset_auto2(H5E_DEFAULT, NULL, NULL);
    const bool thorough = vf::opt.tier == "thorough";
    const int CH = 8;   // first-breach indices per case

    const std::vector<std::vector<DK>> C = all_combos();
    const std::vector<FamEntry> fam = family(thorough);
    FileCtx ctx;
    long idx = 0;
    const bool count_only = vf::opt.extra.count("count-only") > 0;   // print the size of the enumeration and exit
    long tot_sites = 0, tot_pairs = 0;
    std::set<int> combos_seen;

    // pass 0: the sites of the first generation of entities (case numbers as before the alias arrays were added);
    // pass 1: the sites of the alias arrays and of the entities created for them
    for (int pass = 0; pass < 2; pass++)
    for (size_t fi = 0; fi < fam.size(); fi++) {
        if (vf::deadline_hit()) break;
        FileSpec spec = make_spec(fam[fi], C);
        int n_first = 0;
        std::vector<Site> sites = make_sites(spec, &n_first);
        const int N = (int)sites.size();
        const int lo = pass == 0 ? 0 : n_first, hi = pass == 0 ? n_first : N;
        const bool all_pairs = fi < QUICK_FILES;   // thorough: every pair on the quick family, related pairs on the rest
        if (count_only) {
            if (pass) continue;
            long np = 0, nr = 0;
            for (int i = 0; i < N; i++) for (int j = i + 1; j < N; j++) {
                if (!sites[i].primary || !sites[j].primary || sites[i].cat == 2 || sites[j].cat == 2 || (sites[i].cat == 1 && sites[j].cat == 1) || conflict(spec, sites[i], sites[j])) continue;
                np++; if (relation(spec, sites[i], sites[j]) != "unrelated entities") nr++;
            }
            fprintf(stderr, "file %zu: %zu arrays %zu tags %d sites (%d for the alias arrays), pairs %ld related %ld | %s\n", fi, spec.arrays.size(), spec.tags.size(), N, N - n_first, np, nr, spec.desc.c_str());
            tot_sites += N; tot_pairs += all_pairs ? np : nr;
            continue;
        }
        for (int c0 = lo; c0 < hi; c0 += CH) {
            long ci = idx++;
            if (!vf::take_case(ci)) continue;
            vf::case_desc("file " + std::to_string(fi) + " {" + spec.desc + "}, breaches " + std::to_string(c0) + ".." + std::to_string(std::min(hi, c0 + CH) - 1) +
                          " of " + std::to_string(N) + (thorough ? " alone and paired with every later breach" : " alone") + "; first: " + sites[c0].desc);
            // ---- (re)build the base file of this process
            if (ctx.fi != (long)fi) {
                ctx = FileCtx(); ctx.fi = (long)fi; ctx.spec = spec; ctx.sites = sites; ctx.single.assign(N, Res());
                ctx.base = vf::scratch_file("base.h5");
                std::string what;
                double t0 = vf::wall();
                std::string exc = vf::guarded([&] { ctx.built = build_file(spec, ctx.base); }, &what);
                t_build += vf::wall() - t0;
                if (!exc.empty()) {
                    vf::violation("C19|generator|conforming file rejected by the library", "file " + std::to_string(fi) + " {" + spec.desc + "}: " + exc + ": " + what);
                    continue;
                }
                ctx.e0 = run_validate(ctx.base);
                ctx.ok = true;
            }
            if (!ctx.ok) continue;
            // ---- k = 0 (reported once per file: by the case of its first chunk)
            if (c0 == 0) {
                vf::count("conforming_files");
                vf::count("entities_in_conforming_files", (long)(spec.arrays.size() + spec.tags.size() + spec.props.size()));
                for (int c : fam[fi].combos) vf::distinct("descriptor_kind_combinations", std::to_string(c));
                for (auto &a : spec.arrays) if (a.alias) {
                    vf::count("alias_arrays_in_conforming_files");
                    int nt = 0; for (auto &t : spec.tags) if (std::find(t.refs.begin(), t.refs.end(), (int)(&a - &spec.arrays[0])) != t.refs.end()) nt++;
                    vf::distinct("alias_array_variants", std::string(a.i32 ? "Int32" : "Double") + ", " + std::to_string(a.dims[0].len) + " values, unit " + a.unit + ", referenced by " + std::to_string(nt) + " tags/multi-tags");
                }
                if (!ctx.e0.exc.empty())
                    vf::violation("C19|File::validate|k=0|conforming file|validate threw", "file " + std::to_string(fi) + " {" + spec.desc + "}: " + ctx.e0.exc + ": " + ctx.e0.what);
                else if (!ctx.e0.err.empty()) {
                    std::set<std::string> ms; for (auto &kv : ctx.e0.err) ms.insert(kv.first.second.substr(0, 60));
                    for (auto &m : ms)
                        vf::violation("C19|File::validate|k=0|conforming file|error reported: " + m, "file " + std::to_string(fi) + " {" + spec.desc + "}: errors " + show(ctx.e0.err));
                }
                vf::count("warnings_on_conforming_files", (long)msub(ctx.e0.warn, std::map<EM, int>()).size());
                vf::distinct("outcomes", "conforming -> " + std::to_string(ctx.e0.err.size()) + " errors, warnings: " + msgs_of(msub(ctx.e0.warn, std::map<EM, int>())));
                if (fi < 2) vf::sample("{\"file\":" + vf::jstr(spec.desc) + ",\"k\":0,\"result\":" + jres(ctx.e0) + ",\"breach_sites\":" + std::to_string(N) + "}");
            }
            if (!ctx.e0.exc.empty()) continue;
            auto single = [&](int i) -> const Res * {
                if (!ctx.single[i].have) {
                    std::string err;
                    Res r = inject_and_validate(ctx, {i}, &err);
                    if (!err.empty()) { vf::violation("C19|harness|injection failed|" + sites[i].name, "file " + std::to_string(fi) + ": " + sites[i].desc + ": " + err); r.have = true; r.exc = "harness"; }
                    ctx.single[i] = r;
                }
                return &ctx.single[i];
            };
            for (int i = c0; i < std::min(hi, c0 + CH); i++) {
                const Res *ri = single(i);
                if (ri->exc == "harness") continue;
                vf::count("single_breaches");
                vf::count(sites[i].cat == 0 ? "single_hard" : sites[i].cat == 1 ? "single_soft" : "single_stat");
                vf::distinct("breach_kinds", sites[i].name);
                check_set(ctx, {i}, *ri, ctx.e0, {&ctx.e0});
                if (fi == 2 && sites[i].kind == B_ALIAS_UNSORTED) vf::sample("{\"file\":" + vf::jstr(spec.desc) + ",\"k\":1,\"breach\":" + vf::jstr(sites[i].desc) + ",\"result\":" + jres(*ri) + "}", 8);
                if (fi == 2 && i < 3) vf::sample("{\"file\":" + vf::jstr(spec.desc) + ",\"k\":1,\"breach\":" + vf::jstr(sites[i].desc) + ",\"result\":" + jres(*ri) + "}", 8);
                if (!thorough) continue;
                if (sites[i].cat == 2 || !sites[i].primary) continue;   // pairs: primary variants only
                for (int j = i + 1; j < N; j++) {
                    if (sites[j].cat == 2 || !sites[j].primary) continue;
                    if (sites[i].cat == 1 && sites[j].cat == 1) { vf::count("pairs_skipped_soft_soft"); continue; }
                    if (conflict(spec, sites[i], sites[j])) { vf::count("pairs_skipped_conflicting"); continue; }
                    if (!all_pairs && relation(spec, sites[i], sites[j]) == "unrelated entities") { vf::count("pairs_beyond_bound_unrelated"); continue; }
                    const Res *rj = single(j);
                    if (rj->exc == "harness" || !ri->exc.empty() || !rj->exc.empty()) continue;
                    std::string err;
                    Res rp = inject_and_validate(ctx, {i, j}, &err);
                    if (!err.empty()) { vf::violation("C19|harness|injection failed|" + sites[i].name + " + " + sites[j].name, "file " + std::to_string(fi) + ": " + sites[i].desc + " AND " + sites[j].desc + ": " + err); continue; }
                    vf::count("breach_pairs");
                    check_set(ctx, {i, j}, rp, ctx.e0, {rj, ri});
                    if (fi == 1 && i == 0 && j < 4) vf::sample("{\"file\":" + vf::jstr(spec.desc) + ",\"k\":2,\"breaches\":[" + vf::jstr(sites[i].desc) + "," + vf::jstr(sites[j].desc) + "],\"result\":" + jres(rp) + "}", 8);
                    if (vf::deadline_hit()) break;
                }
                if (vf::deadline_hit()) break;
            }
            if (vf::deadline_hit()) break;
        }
        if (vf::deadline_hit()) break;
    }
    if (count_only) fprintf(stderr, "total: %zu files, %ld single breaches, %ld pairs\n", fam.size(), tot_sites, tot_pairs);
    if (vf::opt.verbose || vf::opt.only >= 0) fprintf(stderr, "C19 timing: build %.2fs inject %.2fs validate %.2fs\n", t_build, t_inject, t_validate);
    vf::note("files_in_family", std::to_string(fam.size()));
    vf::note("max_simultaneous_breaches", thorough ? "2" : "1");
    return vf::finish();
}
