// C09 — open modes: ReadOnly never writes and every mutating call fails; ReadWrite preserves (creates if absent);
// Overwrite empties; files without a NIX header and missing paths (ReadOnly) are refused.
//
// (a) State corpus by explicit-state BFS on the real library (as C08).  For every corpus file: open ReadOnly — the
//     observation must equal the one of the writing session; then every operation of the entity alphabet is attempted in
//     the ReadOnly session.  Whether an operation is *mutating in that state* is decided differentially: the same
//     operation is run on a ReadWrite copy; if it changes the observation (incl. updated_at) it is mutating and the
//     ReadOnly attempt must throw.  After the ReadOnly session the file's bytes must be identical.
// (b) ReadWrite reopen of every corpus file preserves the observation; a missing path is created empty and valid.
// (c) Overwrite on every corpus file yields the observation of an empty file, reopenable in all modes.
// (d) Header defects planted with the HDF5 C API / plain writes x {ReadOnly, ReadWrite} x both compression defaults.
#include <nix.hpp>
#include <hdf5.h>
#include <unistd.h>
#include <sys/stat.h>
#include <fstream>
#include "vf.hpp"
#include "obs.hpp"
#include "ops.hpp"
#include "explore.hpp"

using namespace nix;

static bool exists(const std::string &p) { struct stat st; return stat(p.c_str(), &st) == 0; }

int main(int argc, char **argv) {
    vf::init(argc, argv, "C09");
    const bool thorough = vf::opt.tier == "thorough";
    ex::Explorer E;
    E.oopt.updated_at = true;     // a call that only touches updated_at is a mutation too
    E.add_seed("E", nullptr);
    E.add_seed("R1", ops::build_seed_r1);
    E.add_seed("R3", ops::build_seed_r3);
    const Compression comps[] = {Compression::None, Compression::DeflateNormal};
    long caseno = 0;

    // observation of an empty file (symbolised), for (c)
    std::string empty_obs;
    {
        vf::set_clock(E.clock0);
        std::string p = vf::scratch_file("empty.h5");
        File f = File::open(p, FileMode::Overwrite);
        obs::Options o; o.created_at = false;
        empty_obs = obs::symbolize(obs::render(obs::observe(f, o)));
        f.close();
    }

    auto check_state = [&](const ex::State &st, int level) {
        ops::Session se;
        std::string rbase = "--seed=" + st.seed + " --level=" + std::to_string(level) + " --history=" + (st.hist.empty() ? std::string("none") : ex::Explorer::hist_arg(st.hist));
        std::string sdesc = ex::hist_str(E.alpha, st);
        E.materialize(st, se);
        std::string pre = E.canon(se.file);
        vf::set_clock(E.clock0 + 400);
        se.close();
        // keep the state as a file of its own (the work file is reused by later materialisations)
        const std::string P = vf::scratch_file("state.h5");
        ops::copy_file(se.path, P);
        const std::string bytes0 = ops::slurp(P);
        const std::string ro = vf::scratch_file("ro.h5");
        int nops = (int)E.alpha.size();
        std::vector<std::string> ro_out(nops);
        for (Compression comp : comps) {
            if (comp != Compression::None && !thorough && (st.key % 4) != 0) continue;   // quick: second compression default on a quarter of the states
            // ---------- (a) ReadOnly ----------
            ops::copy_file(P, ro);
            vf::set_clock(E.clock0 + 1000);   // later than any write: a touched timestamp would differ
            File f;
            std::string exc = vf::guarded([&] { f = File::open(ro, FileMode::ReadOnly, "hdf5", comp); });
            if (!exc.empty()) { vf::violation("C09|File::open ReadOnly|library-produced file|refused", exc + " state " + sdesc, "REPLAY " + rbase); continue; }
            std::string got = E.canon(f);
            vf::count("observations_compared");
            if (got != pre) vf::violation("C09|File::open ReadOnly|content differs from what was written", "state " + sdesc, obs::diff(pre, got) + "\nREPLAY " + rbase);
            if (f.fileMode() != FileMode::ReadOnly) vf::violation("C09|File::open ReadOnly|fileMode() is not ReadOnly", "state " + sdesc, "REPLAY " + rbase);
            for (int op = 0; op < nops; op++) {
                std::string r;
                vf::set_clock(E.clock0 + 1001 + op);
                try { E.alpha[op].run(f); r = "returned"; }
                catch (const ops::NotEnabled &) { r = "notenabled"; }
                catch (const std::exception &e) { r = vf::guarded([&] { throw; }); }
                catch (...) { r = "exc:unknown"; }
                ro_out[op] = r;
                if (r != "notenabled") { vf::count("readonly_calls"); vf::distinct("outcomes", E.alpha[op].name + "|RO|" + (r == "returned" ? r : "throws")); }
            }
            // a few mutators outside the entity alphabet
            struct Extra { const char *name; std::function<void(File &)> fn; };
            std::vector<Extra> extra = {
                {"File::forceId", [](File &x) { x.forceId(); }},
                {"File::forceCreatedAt", [](File &x) { x.forceCreatedAt(12345); }},
                {"File::forceUpdatedAt", [](File &x) { x.forceUpdatedAt(); }},
                {"Block::forceCreatedAt", [](File &x) { if (x.blockCount() == 0) throw ops::NotEnabled(); x.getBlock(0).forceCreatedAt(12345); }},
                {"Block::forceUpdatedAt", [](File &x) { if (x.blockCount() == 0) throw ops::NotEnabled(); x.getBlock(0).forceUpdatedAt(); }},
                {"Section::forceUpdatedAt", [](File &x) { if (x.sectionCount() == 0) throw ops::NotEnabled(); x.getSection(0).forceUpdatedAt(); }},
            };
            for (auto &ex2 : extra) {
                std::string r;
                try { ex2.fn(f); r = "returned"; } catch (const ops::NotEnabled &) { r = "notenabled"; } catch (const std::exception &) { r = "throws"; } catch (...) { r = "throws"; }
                if (r == "notenabled") continue;
                vf::count("readonly_calls");
                vf::distinct("outcomes", std::string(ex2.name) + "|RO|" + r);
                if (r == "returned") vf::violation(std::string("C09|") + ex2.name + "|ReadOnly file|mutating call returned normally", "state " + sdesc, "REPLAY " + rbase);
            }
            std::string after = E.canon(f);
            // (that rejected calls leave no trace in the session's observation is C08's statement and is checked there)
            if (after != pre) vf::count("readonly_sessions_with_changed_observation");
            bool fl = true;
            vf::guarded([&] { fl = f.flush(); });
            f.close();
            vf::count("byte_comparisons");
            if (ops::slurp(ro) != bytes0) {
                // attribute: replay each returning / throwing call alone
                bool attributed = false;
                for (int op = 0; op < nops; op++) {
                    if (ro_out[op] == "notenabled") continue;
                    ops::copy_file(P, ro);
                    File g = File::open(ro, FileMode::ReadOnly, "hdf5", comp);
                    vf::guarded([&] { E.alpha[op].run(g); });
                    g.close();
                    if (ops::slurp(ro) != bytes0) {
                        attributed = true;
                        vf::violation("C09|" + E.alpha[op].name + "|ReadOnly file|bytes of the file changed", "state " + sdesc + "; call " + ro_out[op], "REPLAY " + rbase);
                    }
                }
                if (!attributed) vf::violation("C09|ReadOnly session|bytes of the file changed", "open + observe + close changed the file; state " + sdesc, "REPLAY " + rbase);
            }
        }
        // ---------- differential classification: which operations are mutating in this state? ----------
        for (int op = 0; op < nops; op++) {
            if (ro_out[op] == "notenabled" || ro_out[op].empty()) continue;
            E.materialize(st, se);
            std::string pre2 = E.canon(se.file);
            std::string r = E.step(se, op, st.hist.size() + 50);
            std::string post = r.empty() ? E.canon(se.file) : pre2;
            se.close();
            bool mutating = r.empty() && post != pre2;
            vf::count("differential_runs");
            vf::distinct("mutators", E.alpha[op].name + (mutating ? "|mutating" : "|no-op or rejected"));
            if (mutating && ro_out[op] == "returned")
                vf::violation("C09|" + E.alpha[op].name + "|ReadOnly file|mutating call returned normally",
                              "the call changes the file in ReadWrite mode but returned without an exception on the ReadOnly file; state " + sdesc, "REPLAY " + rbase);
            if (mutating) vf::count("mutating_calls_checked");
        }
        // ---------- (b) ReadWrite preserves ----------
        {
            ops::copy_file(P, ro);
            vf::set_clock(E.clock0 + 2000);
            File f;
            std::string exc = vf::guarded([&] { f = File::open(ro, FileMode::ReadWrite); });
            if (!exc.empty()) vf::violation("C09|File::open ReadWrite|library-produced file|refused", exc + " state " + sdesc, "REPLAY " + rbase);
            else {
                obs::Options o = E.oopt; o.updated_at = false;
                std::string got = obs::render(obs::observe(f, o));
                E.materialize(st, se); std::string want = obs::render(obs::observe(se.file, o)); se.close();
                // ids differ between two materialisations: compare symbolically
                vf::count("observations_compared");
                if (obs::symbolize(got) != obs::symbolize(want)) vf::violation("C09|File::open ReadWrite|prior content not intact", "state " + sdesc, obs::diff(obs::symbolize(want), obs::symbolize(got)) + "\nREPLAY " + rbase);
                f.close();
            }
        }
        // ---------- (c) Overwrite empties ----------
        for (Compression comp : comps) {
            ops::copy_file(P, ro);
            vf::set_clock(E.clock0 + 3000);
            File f;
            std::string exc = vf::guarded([&] { f = File::open(ro, FileMode::Overwrite, "hdf5", comp); });
            if (!exc.empty()) { vf::violation("C09|File::open Overwrite|refused", exc + " state " + sdesc, "REPLAY " + rbase); continue; }
            obs::Options o; o.created_at = false;
            std::string got = obs::symbolize(obs::render(obs::observe(f, o)));
            vf::count("observations_compared");
            if (got != empty_obs) vf::violation("C09|File::open Overwrite|file is not empty", "state " + sdesc, obs::diff(empty_obs, got) + "\nREPLAY " + rbase);
            f.close();
            for (FileMode m : {FileMode::ReadOnly, FileMode::ReadWrite}) {
                std::string e2 = vf::guarded([&] { File g = File::open(ro, m); std::string t = obs::symbolize(obs::render(obs::observe(g, o))); g.close(); if (t != empty_obs) throw std::runtime_error("not empty after reopen"); });
                if (!e2.empty()) vf::violation("C09|File::open Overwrite|result cannot be reopened as an empty valid file", e2 + " state " + sdesc, "REPLAY " + rbase);
            }
        }
    };

    if (vf::opt.extra.count("history")) {
        int level = atoi(vf::opt.extra["level"].c_str());
        E.alpha = ops::entity_alphabet(level);
        ex::State st; st.seed = vf::opt.extra["seed"];
        if (vf::opt.extra["history"] != "none") st.hist = ex::Explorer::parse_hist(vf::opt.extra["history"]);
        vf::take_case(0);
        vf::case_desc("state " + ex::hist_str(E.alpha, st));
        check_state(st, level);
        return vf::finish();
    }

    auto corpus = [&](const std::string &seed, int level, int depth) {
        E.alpha = ops::entity_alphabet(level);
        std::vector<ex::State> states;
        int sv_shard = vf::opt.shard, sv_n = vf::opt.nshards;
        vf::opt.shard = 0; vf::opt.nshards = 1; E.quiet = true;
        auto visit = [&](const ex::State &p, int op, ops::Session &se, const std::string &pre, bool &clean) -> std::string {
            std::string r = E.step(se, op, p.hist.size());
            if (r == "notenabled") { clean = true; return ""; }
            if (!r.empty()) return "";
            return E.canon(se.file);
        };
        E.bfs({seed}, depth, false, visit, &states);
        vf::opt.shard = sv_shard; vf::opt.nshards = sv_n;
        for (auto &st : states) {
            long cid = caseno++;
            vf::distinct("states", st.key);
            if (!vf::take_case(cid)) continue;
            vf::case_desc("open modes on state " + ex::hist_str(E.alpha, st));
            vf::count("states_checked");
            check_state(st, level);
            if (cid % 53 == 0) vf::sample("{\"state\":" + vf::jstr(ex::hist_str(E.alpha, st)) + ",\"readonly_attempts\":" + std::to_string(E.alpha.size()) + "}", 4);
        }
    };
    corpus("E", thorough ? 2 : 1, 3);
    corpus("R1", 2, thorough ? 1 : 0);
    corpus("R3", 2, thorough ? 1 : 0);

    // ---------- (b') missing path, ReadWrite: created, empty, valid ----------
    if (vf::take_case(caseno++)) {
        vf::case_desc("ReadWrite on a missing path creates an empty valid file; ReadOnly on a missing path is refused and creates nothing");
        for (Compression comp : comps) {
            std::string p = vf::scratch_file("missing.h5");
            unlink(p.c_str());
            std::string exc = vf::guarded([&] { File f = File::open(p, FileMode::ReadOnly, "hdf5", comp); });
            vf::count("open_attempts");
            if (exc.empty()) vf::violation("C09|File::open ReadOnly|missing path|returned a File", "");
            if (exists(p)) vf::violation("C09|File::open ReadOnly|missing path|file was created", "");
            unlink(p.c_str());
            // the Force flag bypasses the VERSION check (C10); a missing path stays refused and nothing is created
            exc = vf::guarded([&] { File f = File::open(p, FileMode::ReadOnly, "hdf5", comp, OpenFlags::Force); });
            vf::count("open_attempts");
            if (exc.empty()) vf::violation("C09|File::open ReadOnly+Force|missing path|returned a File", "");
            if (exists(p)) vf::violation("C09|File::open ReadOnly+Force|missing path|file was created", "");
            unlink(p.c_str());
            // a symbolic link whose target does not exist is a missing path too
            std::string dangling = vf::scratch_file("dangling.lnk");
            unlink(dangling.c_str());
            if (symlink(p.c_str(), dangling.c_str()) == 0) {
                for (int force = 0; force < 2; force++) {
                    exc = vf::guarded([&] { File f = File::open(dangling, FileMode::ReadOnly, "hdf5", comp, force ? OpenFlags::Force : OpenFlags::None); });
                    vf::count("open_attempts");
                    if (exc.empty()) vf::violation(std::string("C09|File::open ReadOnly") + (force ? "+Force" : "") + "|dangling symbolic link|returned a File", "");
                    if (exists(p)) vf::violation(std::string("C09|File::open ReadOnly") + (force ? "+Force" : "") + "|dangling symbolic link|target file was created", "");
                    unlink(p.c_str());
                }
                unlink(dangling.c_str());
            }
            exc = vf::guarded([&] {
                File f = File::open(p, FileMode::ReadWrite, "hdf5", comp);
                obs::Options o; o.created_at = false;
                std::string t = obs::symbolize(obs::render(obs::observe(f, o)));
                f.close();
                if (t != empty_obs) throw std::runtime_error("not an empty file");
                File g = File::open(p, FileMode::ReadOnly); g.close();
            });
            vf::count("open_attempts");
            if (!exc.empty()) vf::violation("C09|File::open ReadWrite|missing path|not created as an empty valid file", exc);
        }
    }

    // ---------- (a') ReadOnly after a ReadWrite session of the SAME process whose entity handles are still alive ----------
    // (if close() leaves the HDF5 file open because of live handles, a later ReadOnly open attaches to the writable file)
    for (int nh : {0, 3, 40, 200}) {
        long cid = caseno++;
        if (!vf::take_case(cid)) continue;
        vf::case_desc("ReadOnly reopen in the same process with " + std::to_string(nh) + " stale handles of an earlier ReadWrite session alive");
        E.alpha = ops::entity_alphabet(2);
        std::string p = vf::scratch_file("stale.h5");
        ops::copy_file(E.seed("R3").path, p);
        vf::set_clock(E.clock0 + 100);
        std::vector<DataArray> held_a; std::vector<Block> held_b; std::vector<Section> held_s;
        {
            File w = File::open(p, FileMode::ReadWrite);
            for (int i = 0; i < nh; i++) { Block b = w.getBlock(0); held_b.push_back(b); held_a.push_back(b.getDataArray(i % b.dataArrayCount())); held_s.push_back(w.getSection(0)); }
            w.close();
        }
        std::string bytes0 = ops::slurp(p);
        File f;
        std::string exc = vf::guarded([&] { f = File::open(p, FileMode::ReadOnly); });
        if (!exc.empty()) { vf::violation("C09|File::open ReadOnly|after a ReadWrite session with live handles|refused", std::to_string(nh) + " handles: " + exc); continue; }
        std::string returned;
        for (size_t op = 0; op < E.alpha.size(); op++) {
            std::string r;
            try { E.alpha[op].run(f); r = "returned"; } catch (const ops::NotEnabled &) { r = "notenabled"; } catch (...) { r = "throws"; }
            if (r == "notenabled") continue;
            vf::count("readonly_calls");
            if (r == "returned" && E.alpha[op].mutating && E.alpha[op].name.find("create") != std::string::npos) returned += E.alpha[op].name + "; ";
        }
        vf::guarded([&] { f.close(); });
        held_a.clear(); held_b.clear(); held_s.clear();
        vf::count("byte_comparisons");
        if (!returned.empty()) vf::violation("C09|create call|ReadOnly file opened while stale handles of a ReadWrite session are alive|mutating call returned normally", std::to_string(nh) + " handles: " + returned.substr(0, 300));
        if (ops::slurp(p) != bytes0) vf::violation("C09|ReadOnly session|opened while stale handles of a ReadWrite session are alive|bytes of the file changed", std::to_string(nh) + " handles");
        vf::distinct("outcomes", "stale-rw-handles|" + std::to_string(nh) + "|" + (returned.empty() ? "all creates throw" : "some return"));
    }

    // ---------- (d) header defects ----------
    struct Defect { const char *name; std::function<void(const std::string &)> plant; };
    auto with_file = [](const std::string &p, const std::function<void(hid_t)> &fn) { hid_t h = H5Fopen(p.c_str(), H5F_ACC_RDWR, H5P_DEFAULT); if (h < 0) throw std::runtime_error("cannot open for planting"); fn(h); H5Fclose(h); };
    auto set_str_attr = [](hid_t h, const char *name, const char *val) {
        H5Adelete(h, name);
        hid_t t = H5Tcopy(H5T_C_S1); H5Tset_size(t, H5T_VARIABLE); hid_t s = H5Screate(H5S_SCALAR);
        hid_t a = H5Acreate2(h, name, t, s, H5P_DEFAULT, H5P_DEFAULT); H5Awrite(a, t, &val); H5Aclose(a); H5Sclose(s); H5Tclose(t); };
    std::vector<Defect> defects = {
        {"format attribute missing", [&](const std::string &p) { with_file(p, [](hid_t h) { H5Adelete(h, "format"); }); }},
        {"format attribute has another value", [&](const std::string &p) { with_file(p, [&](hid_t h) { set_str_attr(h, "format", "xin"); }); }},
        {"format attribute has another value: 'nix' followed by more characters", [&](const std::string &p) { with_file(p, [&](hid_t h) { set_str_attr(h, "format", "nixx"); }); }},
        {"format attribute has another value: 'nix' followed by more characters", [&](const std::string &p) { with_file(p, [&](hid_t h) { set_str_attr(h, "format", "nix2"); }); }},
        {"format attribute has another value: 'nix' followed by more characters", [&](const std::string &p) { with_file(p, [&](hid_t h) { set_str_attr(h, "format", "nix-ng"); }); }},
        {"format attribute has another value: 'nix' followed by a blank", [&](const std::string &p) { with_file(p, [&](hid_t h) { set_str_attr(h, "format", "nix "); }); }},
        {"format attribute has another value: 'nix' preceded by more characters", [&](const std::string &p) { with_file(p, [&](hid_t h) { set_str_attr(h, "format", "unix"); }); }},
        {"format attribute has another value: 'nix' preceded by more characters", [&](const std::string &p) { with_file(p, [&](hid_t h) { set_str_attr(h, "format", " nix"); }); }},
        {"format attribute has another value: beginning of 'nix'", [&](const std::string &p) { with_file(p, [&](hid_t h) { set_str_attr(h, "format", "ni"); }); }},
        {"format attribute has another value: beginning of 'nix'", [&](const std::string &p) { with_file(p, [&](hid_t h) { set_str_attr(h, "format", "n"); }); }},
        {"format attribute has another value: empty string", [&](const std::string &p) { with_file(p, [&](hid_t h) { set_str_attr(h, "format", ""); }); }},
        {"format attribute has another value: other letter case", [&](const std::string &p) { with_file(p, [&](hid_t h) { set_str_attr(h, "format", "NIX"); }); }},
        {"format attribute has another value: other letter case", [&](const std::string &p) { with_file(p, [&](hid_t h) { set_str_attr(h, "format", "Nix"); }); }},
        {"format attribute is an integer", [&](const std::string &p) { with_file(p, [](hid_t h) { H5Adelete(h, "format"); int v = 7; hid_t s = H5Screate(H5S_SCALAR); hid_t a = H5Acreate2(h, "format", H5T_NATIVE_INT, s, H5P_DEFAULT, H5P_DEFAULT); H5Awrite(a, H5T_NATIVE_INT, &v); H5Aclose(a); H5Sclose(s); }); }},
        {"version attribute missing", [&](const std::string &p) { with_file(p, [](hid_t h) { H5Adelete(h, "version"); }); }},
        {"version attribute has two components", [&](const std::string &p) { with_file(p, [](hid_t h) { H5Adelete(h, "version"); int v[2] = {1, 2}; hsize_t d = 2; hid_t s = H5Screate_simple(1, &d, nullptr); hid_t a = H5Acreate2(h, "version", H5T_NATIVE_INT, s, H5P_DEFAULT, H5P_DEFAULT); H5Awrite(a, H5T_NATIVE_INT, v); H5Aclose(a); H5Sclose(s); }); }},
        {"version attribute is a string", [&](const std::string &p) { with_file(p, [&](hid_t h) { set_str_attr(h, "version", "1.2.0"); }); }},
        {"id attribute missing", [&](const std::string &p) { with_file(p, [](hid_t h) { H5Adelete(h, "id"); }); }},
        {"all header attributes missing", [&](const std::string &p) { with_file(p, [](hid_t h) { H5Adelete(h, "id"); H5Adelete(h, "version"); H5Adelete(h, "format"); }); }},
        {"plain HDF5 file", [&](const std::string &p) { hid_t h = H5Fcreate(p.c_str(), H5F_ACC_TRUNC, H5P_DEFAULT, H5P_DEFAULT); hid_t g = H5Gcreate2(h, "data", H5P_DEFAULT, H5P_DEFAULT, H5P_DEFAULT); H5Gclose(g); H5Fclose(h); }},
        {"not an HDF5 file", [&](const std::string &p) { std::ofstream o(p, std::ios::trunc); o << "this is not an HDF5 file, it is a text file with some bytes in it\n"; }},
        {"empty file", [&](const std::string &p) { std::ofstream o(p, std::ios::trunc); }},
        {"truncated file", [&](const std::string &p) { std::string b = ops::slurp(p); std::ofstream o(p, std::ios::trunc | std::ios::binary); o.write(b.data(), b.size() / 3); }},
        {"HDF5 signature only", [&](const std::string &p) { std::ofstream o(p, std::ios::trunc | std::ios::binary); o.write("\x89HDF\r\n\x1a\n", 8); }},
    };
    for (size_t di = 0; di < defects.size(); di++) {
        long cid = caseno++;
        if (!vf::take_case(cid)) continue;
        vf::case_desc(std::string("header defect: ") + defects[di].name);
        for (const char *sn : {"R1", "E"}) for (FileMode m : {FileMode::ReadOnly, FileMode::ReadWrite}) for (Compression comp : comps) {
            std::string p = vf::scratch_file("defect.h5");
            ops::copy_file(E.seed(sn).path, p);
            defects[di].plant(p);
            std::string before = ops::slurp(p);
            std::string mname = m == FileMode::ReadOnly ? "ReadOnly" : "ReadWrite";
            bool opened = false, usable = false;
            std::string exc = vf::guarded([&] { File f = File::open(p, m, "hdf5", comp); opened = true; usable = f.isOpen(); f.close(); });
            vf::count("open_attempts");
            vf::distinct("outcomes", std::string(defects[di].name) + "|" + mname + "|" + (opened ? "opened" : exc));
            if (opened) vf::violation("C09|File::open " + mname + "|" + defects[di].name + "|returned a File", std::string("seed ") + sn + (usable ? " (isOpen)" : ""));
            if (m == FileMode::ReadOnly && ops::slurp(p) != before) vf::violation("C09|File::open ReadOnly|" + std::string(defects[di].name) + "|bytes of the file changed", std::string("seed ") + sn);
            if (m == FileMode::ReadOnly) {
                // with Force the header check is bypassed (C10): whether the file opens is not asserted, but ReadOnly still writes nothing
                bool fo = false;
                std::string e2 = vf::guarded([&] { File f = File::open(p, m, "hdf5", comp, OpenFlags::Force); fo = true; vf::guarded([&] { f.createBlock("forced", "t"); }); vf::guarded([&] { f.createSection("forced", "t"); }); f.close(); });
                vf::count("open_attempts");
                vf::distinct("outcomes", std::string(defects[di].name) + "|ReadOnly+Force|" + (fo ? "opened" : e2));
                if (ops::slurp(p) != before) vf::violation("C09|File::open ReadOnly+Force|" + std::string(defects[di].name) + "|bytes of the file changed", std::string("seed ") + sn);
            }
        }
    }
    return vf::finish();
}
