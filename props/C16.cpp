// C16 — no API call sequence causes undefined behaviour; misuse throws.
//
// Runs in the ASan/UBSan flavour with the HDF5 boundary shim, _GLIBCXX_ASSERTIONS and the boost assert handler.
// Programs = state x misuse call (deviation bound 1) and state x ordered pair of misuse calls (bound 2), over a
// data-access world (arrays of rank 1-3 with every descriptor kind, tags / multi-tags with fewer, equal and more position
// entries than dimensions, positions arrays that are empty / narrower than the data rank, never-written String data,
// frames with unwritten rows, features whose data was deleted, default-constructed and deleted-entity handles, a
// closed file) and the rich entity seed.  The oracle: every call returns or throws a C++ exception; any sanitizer report,
// assertion, signal or std::terminate kills the process and is attributed to the running program by the dispatcher.
#include <nix.hpp>
#include <algorithm>
#include <nix/util/dataAccess.hpp>
#include <nix/util/util.hpp>
#include <climits>
#include "vf.hpp"
#include "ops.hpp"

#pragma GCC diagnostic ignored "-Wdeprecated-declarations"
using namespace nix;

struct Call { std::string name; std::function<void(File &)> run; };

static Block B(File &f) { return f.getBlock("w"); }
static DataArray A(File &f, const char *n) { return B(f).getDataArray(n); }
static const ndsize_t HUGE_N = 0xFFFFFFFFFFFFFFFFull;

static void build_world(File &f) {
    Block b = f.createBlock("w", "t");
    Section sec = f.createSection("meta", "t");
    sec.createProperty("pd", DataType::Double);                       // created with a type, never assigned
    sec.createProperty("ps", std::vector<Variant>{Variant("a"), Variant("")});
    sec.createProperty("pe", Variant(1.0)).deleteValues();          // empty value list
    // 1-D sampled, 2-D (sampled,set), 3-D (sampled,range,set), 2-D (range, data-frame)
    DataArray d1 = b.createDataArray("d1", "t", DataType::Double, NDSize({10}));
    { std::vector<double> v(10); for (int i = 0; i < 10; i++) v[i] = i; d1.setData(v); }
    d1.appendSampledDimension(0.5, "time", "ms", 1.0);
    DataArray d2 = b.createDataArray("d2", "t", DataType::Double, NDSize({4, 3}));
    { std::vector<double> v(12); for (int i = 0; i < 12; i++) v[i] = i; d2.setData(DataType::Double, v.data(), NDSize({4, 3}), NDSize({0, 0})); }
    d2.appendSampledDimension(1.0, "t", "s");
    d2.appendSetDimension({"a", "b", "c"});
    DataArray d3 = b.createDataArray("d3", "t", DataType::Int32, NDSize({3, 4, 2}));
    { std::vector<int32_t> v(24); for (int i = 0; i < 24; i++) v[i] = i; d3.setData(DataType::Int32, v.data(), NDSize({3, 4, 2}), NDSize({0, 0, 0})); }
    d3.appendSampledDimension(0.1, "t", "ms");
    d3.appendRangeDimension({1.0, 2.0, 4.0, 8.0}, "x", "mV");
    d3.appendSetDimension();
    DataFrame fr = b.createDataFrame("fr", "t", std::vector<Column>{{"c0", "", DataType::Double}, {"c1", "mV", DataType::Int64}, {"c2", "", DataType::String}, {"c3", "", DataType::Bool}});
    fr.rows(3);
    fr.writeRow(0, {Variant(1.5), Variant(int64_t(2)), Variant("x"), Variant(true)});   // rows 1, 2 never written
    DataArray d4 = b.createDataArray("d4", "t", DataType::Double, NDSize({4, 3}));
    d4.appendRangeDimension({0.0, 1.0, 2.0, 3.0});
    d4.appendDataFrameDimension(fr, 1u);
    DataArray nodims = b.createDataArray("nodims", "t", DataType::Double, NDSize({5}));        // no descriptors at all
    DataArray str = b.createDataArray("str", "t", DataType::String, NDSize({2}));
    str.dataExtent(NDSize({4}));                                                                // never written
    DataArray strw = b.createDataArray("strw", "t", DataType::String, NDSize({2}));
    strw.setData(std::vector<std::string>{"a", "b"});
    strw.dataExtent(NDSize({5}));                                                               // partly written, then grown
    DataArray boo = b.createDataArray("boo", "t", DataType::Bool, NDSize({3}));
    DataArray empty = b.createDataArray("empty", "t", DataType::Double, NDSize({0}));
    DataArray empty2 = b.createDataArray("empty2", "t", DataType::Double, NDSize({0, 2}));
    // names longer than any fixed-size buffer a lookup could use (127, 128, 129, 300, 1000 bytes): reached by index, by
    // enumeration, by id and by find in most calls of the catalogue
    {
        Block lb = f.createBlock(std::string(300, 'B'), "t");
        for (size_t n : {127, 128, 129, 300, 1000}) {
            DataArray la = lb.createDataArray(std::string(n, 'a'), "t", DataType::Double, NDSize({1}));
            la.appendSetDimension();
            lb.createTag(std::string(n, 't'), "t", {0.0}).addReference(la);
            lb.createSource(std::string(n, 's'), "t").createSource(std::string(n, 'c'), "t");
        }
        Section ls = f.createSection(std::string(129, 'S'), "t");
        ls.createProperty(std::string(200, 'p'), Variant(1.0));
        ls.createSection(std::string(128, 'x'), "t");
    }
    // calibrated arrays: every typed read goes through the polynomial path
    DataArray cal = b.createDataArray("cal", "t", DataType::Double, NDSize({4}));
    cal.setData(std::vector<double>{1, 2, 3, 4}); cal.polynomCoefficients({1.0, 2.0}); cal.expansionOrigin(0.5);
    DataArray cali = b.createDataArray("cali", "t", DataType::Int32, NDSize({3, 2}));
    cali.expansionOrigin(1.0);
    DataArray alias = b.createDataArray("alias", "t", DataType::Double, NDSize({3}));
    alias.setData(std::vector<double>{1, 2, 3});
    alias.appendAliasRangeDimension();
    // positions / extents arrays
    DataArray p1 = b.createDataArray("pos1", "t", DataType::Double, NDSize({5}));               // 1-D positions
    p1.setData(std::vector<double>{1.0, 2.0, 3.0, 4.0, 4.5});
    DataArray p51 = b.createDataArray("pos5x1", "t", DataType::Double, NDSize({5, 1}));         // narrower than the data rank
    { std::vector<double> v = {0.1, 0.2, 0.3, 0.4, 0.5}; p51.setData(DataType::Double, v.data(), NDSize({5, 1}), NDSize({0, 0})); }
    DataArray p23 = b.createDataArray("pos2x3", "t", DataType::Double, NDSize({2, 3}));
    { std::vector<double> v = {0.0, 1.0, 0.0, 0.1, 2.0, 1.0}; p23.setData(DataType::Double, v.data(), NDSize({2, 3}), NDSize({0, 0})); }
    DataArray p24 = b.createDataArray("pos2x4", "t", DataType::Double, NDSize({2, 4}));         // wider than the data rank
    DataArray e23 = b.createDataArray("ext2x3", "t", DataType::Double, NDSize({2, 3}));
    { std::vector<double> v = {0.1, 1.0, 1.0, 0.05, 2.0, 0.0}; e23.setData(DataType::Double, v.data(), NDSize({2, 3}), NDSize({0, 0})); }
    DataArray e1 = b.createDataArray("ext1", "t", DataType::Double, NDSize({3}));               // fewer rows than positions
    DataArray feat = b.createDataArray("feat", "t", DataType::Double, NDSize({2, 2}));
    DataArray featgone = b.createDataArray("featgone", "t", DataType::Double, NDSize({2}));
    // tags
    Tag t1 = b.createTag("t1", "t", {1.0});                  t1.addReference(d1); t1.addReference(d2); t1.addReference(d3); t1.addReference(nodims);
    Tag t3 = b.createTag("t3", "t", {0.0, 1.0, 0.0});        t3.extent({0.1, 2.0, 1.0}); t3.addReference(d3); t3.addReference(d1); t3.units({"ms", "mV", ""});
    Tag t5 = b.createTag("t5", "t", {0, 0, 0, 0, 0});        t5.addReference(d2); t5.addReference(empty);
    Tag t0 = b.createTag("t0", "t", {1.0});                  t0.position({}); t0.addReference(d2);
    Tag tx = b.createTag("tx", "t", {1.0, 1.0});             tx.extent({1.0});            // extent of another length
    tx.addReference(d2);
    Tag tf = b.createTag("tf", "t", {1.0});
    tf.createFeature(feat, LinkType::Tagged); tf.createFeature(featgone, LinkType::Indexed); tf.createFeature(str, LinkType::Untagged);
    Tag tu = b.createTag("tu", "t", {1.0}); tu.units({"ms"}); tu.addReference(d3);              // fewer units than dimensions with units
    b.createTag("tnone", "t", {1.0});                                                           // no references, no features
    // multi-tags
    MultiTag m1 = b.createMultiTag("m1", "t", p1); m1.addReference(d1); m1.addReference(d3);
    MultiTag m51 = b.createMultiTag("m5x1", "t", p51); m51.addReference(d3); m51.addReference(d2);
    MultiTag m23 = b.createMultiTag("m2x3", "t", p23); m23.extents(e23); m23.addReference(d3); m23.units({"ms", "mV"});
    m23.createFeature(feat, LinkType::Indexed); m23.createFeature(d3, LinkType::Tagged); m23.createFeature(featgone, LinkType::Untagged);
    MultiTag m24 = b.createMultiTag("m2x4", "t", p24); m24.addReference(d3);
    MultiTag me = b.createMultiTag("mempty", "t", empty); me.addReference(d1);
    me.createFeature(feat, LinkType::Indexed); me.createFeature(d1, LinkType::Tagged); me.createFeature(d2, LinkType::Untagged);      // features of a multi-tag without any position
    MultiTag me2 = b.createMultiTag("mempty2", "t", empty2); me2.addReference(d2);
    me2.createFeature(d2, LinkType::Tagged); me2.createFeature(feat, LinkType::Untagged);
    MultiTag mgone = b.createMultiTag("mgone", "t", b.createDataArray("posgone", "t", DataType::Double, NDSize({2}))); mgone.addReference(d1);
    b.createMultiTag("mnone", "t", p1);
    Group g = b.createGroup("g", "t");
    Source s = b.createSource("s", "t"); s.createSource("s2", "t");
    d1.addSource(s);
    // entities whose link targets are deleted afterwards
    b.deleteDataArray("featgone");
    b.deleteDataArray("posgone");
    (void)e1; (void)g; (void)boo; (void)strw; (void)alias;
}

static std::vector<Call> misuse() {
    std::vector<Call> v;
    auto add = [&](const std::string &n, std::function<void(File &)> fn) { v.push_back(Call{n, fn}); };
    const std::vector<std::string> arrays = {"d1", "d2", "d3", "d4", "nodims", "str", "strw", "boo", "empty", "empty2", "alias", "pos5x1", "cal", "cali"};

    // ---- raw data access with wrong ranks, zero counts, offsets at/past the extent, huge values ----
    for (const std::string &an : arrays) {
        struct CO { const char *tag; NDSize count, offset; };
        std::vector<CO> cos = {
            {"count{2},offset{0}", NDSize({2}), NDSize({0})}, {"count{},offset{}", NDSize(), NDSize()}, {"count{1,1},offset{0}", NDSize({1, 1}), NDSize({0})},
            {"count{1},offset{0,0}", NDSize({1}), NDSize({0, 0})}, {"count{1,1,1,1},offset{0,0,0,0}", NDSize({1, 1, 1, 1}), NDSize({0, 0, 0, 0})},
            {"count{0},offset{0}", NDSize({0}), NDSize({0})}, {"count{0,0},offset{0,0}", NDSize({0, 0}), NDSize({0, 0})}, {"count{1},offset{extent}", NDSize({1}), NDSize({10})},
            {"count{100},offset{0}", NDSize({100}), NDSize({0})}, {"count{1},offset{huge}", NDSize({1}), NDSize({HUGE_N})}, {"count{2,2},offset{3,2}", NDSize({2, 2}), NDSize({3, 2})},
            {"count{1,1,1},offset{2,3,1}", NDSize({1, 1, 1}), NDSize({2, 3, 1})}, {"count{1,1,1},offset{3,0,0}", NDSize({1, 1, 1}), NDSize({3, 0, 0})},
            {"count{1},offset{}", NDSize({1}), NDSize()}, {"count{2,1},offset{huge,0}", NDSize({2, 1}), NDSize({HUGE_N, ndsize_t(0)})},
        };
        for (auto &co : cos) {
            NDSize c = co.count, o = co.offset; std::string t = co.tag;
            add("getData(" + an + "," + t + ")", [=](File &f) { DataArray a = A(f, an.c_str()); size_t n = c.size() ? (size_t)std::min<ndsize_t>(c.nelms(), 4096) : 1;
                if (a.dataType() == DataType::String) { std::vector<std::string> buf(n); a.getData(DataType::String, buf.data(), c, o); }
                else if (a.dataType() == DataType::Bool) { std::unique_ptr<bool[]> buf(new bool[n]); a.getData(DataType::Bool, buf.get(), c, o); }
                else { std::vector<double> buf(n); a.getData(DataType::Double, buf.data(), c, o); } });
            add("setData(" + an + "," + t + ")", [=](File &f) { DataArray a = A(f, an.c_str()); size_t n = c.size() ? (size_t)std::min<ndsize_t>(c.nelms(), 4096) : 1;
                if (a.dataType() == DataType::String) { std::vector<std::string> buf(n, "z"); a.setData(DataType::String, buf.data(), c, o); }
                else if (a.dataType() == DataType::Bool) { std::unique_ptr<bool[]> buf(new bool[n]()); a.setData(DataType::Bool, buf.get(), c, o); }
                else { std::vector<double> buf(n, 1.0); a.setData(DataType::Double, buf.data(), c, o); } });
        }
        add("getData(vector," + an + ")", [=](File &f) { DataArray a = A(f, an.c_str()); if (a.dataType() == DataType::String) { std::vector<std::string> x; a.getData(x); } else if (a.dataType() == DataType::Bool) { /* vector<bool> unsupported */ } else { std::vector<double> x; a.getData(x); } });
        add("getData(vector,offset only," + an + ")", [=](File &f) { DataArray a = A(f, an.c_str()); if (a.dataType() == DataType::String) { std::vector<std::string> x(2); a.getData(x, NDSize({1})); } else if (a.dataType() != DataType::Bool) { std::vector<double> x(2); a.getData(x, NDSize({1})); } });
        add("typed containers with counts of every shape (vector, multi_array; read and write)," + an, [=](File &f) { DataArray a = A(f, an.c_str()); if (a.dataType() == DataType::String || a.dataType() == DataType::Bool) return;
            NDSize e = a.dataExtent(); size_t r = e.size();
            // every count vector with entries from {1, 2, extent} per axis (and one axis more / fewer), offset 0 and 1
            std::vector<NDSize> counts; NDSize c(r, 1);
            std::function<void(size_t)> rec = [&](size_t d) { if (d == r) { counts.push_back(c); return; } for (ndsize_t v : {(ndsize_t)1, (ndsize_t)2, e[d]}) { c[d] = v; rec(d + 1); } };
            if (r > 0 && r <= 3) rec(0);
            { NDSize more(r + 1, 2); counts.push_back(more); if (r > 1) counts.push_back(NDSize(r - 1, 2)); }
            for (const NDSize &cn : counts) for (ndsize_t o : {(ndsize_t)0, (ndsize_t)1}) { NDSize off(cn.size(), o);
                vf::guarded([&] { std::vector<double> v; a.getData(v, cn, off); }); vf::guarded([&] { std::vector<double> v(3, 0.0); a.getData(v, cn, off); });
                vf::guarded([&] { std::vector<int32_t> v(1); a.getData(v, cn, off); }); vf::guarded([&] { std::vector<float> v(7); a.getData(v, cn); });
                vf::guarded([&] { std::vector<double> v((size_t)std::min<ndsize_t>(cn.nelms(), 4096), 1.0); a.setData(v, off); }); vf::guarded([&] { std::vector<double> v(2, 1.0); a.setData(v, off); });
                vf::guarded([&] { DataView w(a, e, NDSize(r, 0)); std::vector<double> v; w.getData(v, cn, off); }); vf::guarded([&] { DataView w(a, e, NDSize(r, 0)); std::vector<double> v(2, 1.0); w.setData(v, off); });
            } });
        add("getData(as Int8," + an + ")", [=](File &f) { DataArray a = A(f, an.c_str()); NDSize e = a.dataExtent(); std::vector<int8_t> x(e.nelms() + 1); a.getData(DataType::Int8, x.data(), e, NDSize(e.size(), 0)); });
        // the whole array read as EVERY element type into a buffer of exactly that many elements
        add("getData(as every type, exact buffer," + an + ")", [=](File &f) { DataArray a = A(f, an.c_str()); NDSize e = a.dataExtent(), z(e.size(), 0); size_t n = (size_t)e.nelms();
            vf::guarded([&] { std::vector<float> x(n); a.getData(DataType::Float, x.data(), e, z); }); vf::guarded([&] { std::vector<double> x(n); a.getData(DataType::Double, x.data(), e, z); });
            vf::guarded([&] { std::vector<int8_t> x(n); a.getData(DataType::Int8, x.data(), e, z); }); vf::guarded([&] { std::vector<uint8_t> x(n); a.getData(DataType::UInt8, x.data(), e, z); });
            vf::guarded([&] { std::vector<int16_t> x(n); a.getData(DataType::Int16, x.data(), e, z); }); vf::guarded([&] { std::vector<uint16_t> x(n); a.getData(DataType::UInt16, x.data(), e, z); });
            vf::guarded([&] { std::vector<int32_t> x(n); a.getData(DataType::Int32, x.data(), e, z); }); vf::guarded([&] { std::vector<uint32_t> x(n); a.getData(DataType::UInt32, x.data(), e, z); });
            vf::guarded([&] { std::vector<int64_t> x(n); a.getData(DataType::Int64, x.data(), e, z); }); vf::guarded([&] { std::vector<uint64_t> x(n); a.getData(DataType::UInt64, x.data(), e, z); });
            vf::guarded([&] { std::unique_ptr<bool[]> x(new bool[n + 1]); a.getData(DataType::Bool, x.get(), e, z); }); vf::guarded([&] { std::vector<std::string> x(n, "a string that is long enough to live on the heap"); a.getData(DataType::String, x.data(), e, z); });
            vf::guarded([&] { std::vector<float> x; a.getData(x); }); vf::guarded([&] { std::vector<std::string> x; a.getData(x); }); vf::guarded([&] { std::vector<int16_t> x(n); a.getData(x, e, z); }); });
        add("getData(String from any," + an + ")", [=](File &f) { DataArray a = A(f, an.c_str()); NDSize e = a.dataExtent(); std::vector<std::string> x(e.nelms() + 1); a.getData(DataType::String, x.data(), e, NDSize(e.size(), 0)); });
        add("dataExtent(rank+1," + an + ")", [=](File &f) { DataArray a = A(f, an.c_str()); NDSize e = a.dataExtent(); a.dataExtent(NDSize(e.size() + 1, 2)); });
        add("dataExtent(rank-1," + an + ")", [=](File &f) { DataArray a = A(f, an.c_str()); NDSize e = a.dataExtent(); a.dataExtent(e.size() > 1 ? NDSize(e.size() - 1, 2) : NDSize()); });
        add("dataExtent(zeros," + an + ")", [=](File &f) { DataArray a = A(f, an.c_str()); NDSize e = a.dataExtent(); a.dataExtent(NDSize(e.size(), 0)); });
        add("appendData(axis=rank," + an + ")", [=](File &f) { DataArray a = A(f, an.c_str()); NDSize e = a.dataExtent(); std::vector<double> x(64, 1.0); a.appendData(DataType::Double, x.data(), NDSize(e.size(), 1), e.size()); });
        add("appendData(wrong shape," + an + ")", [=](File &f) { DataArray a = A(f, an.c_str()); NDSize e = a.dataExtent(); std::vector<double> x(4096, 1.0); a.appendData(DataType::Double, x.data(), NDSize(e.size(), 7), 0); });
        add("getDimension(0/n+1/huge," + an + ")", [=](File &f) { DataArray a = A(f, an.c_str()); a.getDimension(0); a.getDimension(a.dimensionCount() + 1); a.getDimension(HUGE_N); });
        add("dimensions()+axis," + an, [=](File &f) { DataArray a = A(f, an.c_str()); for (auto &d : a.dimensions()) { if (d.dimensionType() == DimensionType::Sample) { d.asSampledDimension().axis(0); d.asSampledDimension().axis(3, HUGE_N - 1); d.asSampledDimension().positionAt(HUGE_N); }
            if (d.dimensionType() == DimensionType::Range) { RangeDimension r = d.asRangeDimension(); r.axis(0); r.axis(100); r.axis(2, 100); r.tickAt(100); r.ticks(100, 2); r.ticks(0, 0); r.indexOf(1.0, PositionMatch::Equal); r.positionInRange(1e300); }
            if (d.dimensionType() == DimensionType::Set) { d.asSetDimension().indexOf(1e18, PositionMatch::LessOrEqual); d.asSetDimension().indexOf(-1e18, PositionMatch::Greater); }
            if (d.dimensionType() == DimensionType::DataFrame) { DataFrameDimension x = d.asDataFrameDimension(); x.label(99u); x.unit(99u); x.columnDataType(99u); std::vector<double> t; x.ticks(t, 99u); x.size(); } } });
        add("wrong as*Dimension casts," + an, [=](File &f) { DataArray a = A(f, an.c_str()); for (auto &d : a.dimensions()) { vf::guarded([&] { d.asSampledDimension().samplingInterval(); }); vf::guarded([&] { d.asRangeDimension().ticks(); }); vf::guarded([&] { d.asSetDimension().labels(); }); vf::guarded([&] { d.asDataFrameDimension().columnIndex(); }); } });
        add("DataView ctor wrong rank / outside," + an, [=](File &f) { DataArray a = A(f, an.c_str()); vf::guarded([&] { DataView x(a, NDSize({1}), NDSize({0, 0})); }); vf::guarded([&] { DataView x(a, NDSize(), NDSize()); });
            vf::guarded([&] { NDSize e = a.dataExtent(); DataView x(a, e, NDSize(e.size(), 1)); }); vf::guarded([&] { NDSize e = a.dataExtent(); DataView x(a, NDSize(e.size(), HUGE_N), NDSize(e.size(), 1)); std::vector<double> b(4); x.getData(DataType::Double, b.data(), NDSize(e.size(), 1), NDSize(e.size(), 0)); }); });
        add("DataView io wrong rank / past window," + an, [=](File &f) { DataArray a = A(f, an.c_str()); NDSize e = a.dataExtent(); if (e.nelms() == 0 || a.dataType() != DataType::Double) return; DataView x(a, NDSize(e.size(), 1), NDSize(e.size(), 0)); std::vector<double> b(64);
            vf::guarded([&] { x.getData(DataType::Double, b.data(), NDSize({1, 1, 1, 1, 1}), NDSize({0})); }); vf::guarded([&] { x.getData(DataType::Double, b.data(), NDSize(e.size(), 2), NDSize(e.size(), 0)); });
            vf::guarded([&] { x.setData(DataType::Double, b.data(), NDSize(e.size(), 1), NDSize(e.size(), HUGE_N)); }); vf::guarded([&] { x.getData(DataType::Double, b.data(), NDSize(), NDSize()); }); vf::guarded([&] { x.dataExtent(NDSize({1})); }); });
        // dataSlice with 0..rank+1 entries
        for (int ns = 0; ns <= 4; ns++) for (int ne = 0; ne <= 4; ne += 2) for (int nu = 0; nu <= 4; nu += 2)
            add("dataSlice(" + an + ",start[" + std::to_string(ns) + "],end[" + std::to_string(ne) + "],units[" + std::to_string(nu) + "])", [=](File &f) { DataArray a = A(f, an.c_str());
                util::dataSlice(a, std::vector<double>(ns, 0.5), std::vector<double>(ne, 1.5), std::vector<std::string>(nu, "none"), (ns % 2) ? RangeMatch::Inclusive : RangeMatch::Exclusive); });
        add("dataSlice(" + an + ",start>end / nan / inf)", [=](File &f) { DataArray a = A(f, an.c_str()); size_t r = a.dataExtent().size();
            vf::guarded([&] { util::dataSlice(a, std::vector<double>(r, 2.0), std::vector<double>(r, 1.0)); }); vf::guarded([&] { util::dataSlice(a, std::vector<double>(r, NAN), std::vector<double>(r, NAN)); });
            vf::guarded([&] { util::dataSlice(a, std::vector<double>(r, -INFINITY), std::vector<double>(r, INFINITY)); }); vf::guarded([&] { util::dataSlice(a, std::vector<double>(r, 0.0), std::vector<double>(r, 1e300)); });
            vf::guarded([&] { util::dataSlice(a, std::vector<double>(r, 0.0), std::vector<double>(r, 1.0), std::vector<std::string>(r, "foo")); }); });
    }
    add("dataSlice(uninitialised array)", [](File &) { util::dataSlice(DataArray(), {0.0}, {1.0}); });

    // ---- tags ----
    const std::vector<std::string> tags = {"t1", "t3", "t5", "t0", "tx", "tf", "tu", "tnone"};
    for (const std::string &tn : tags) {
        add("Tag::taggedData(all refs, both modes," + tn + ")", [=](File &f) { Tag t = B(f).getTag(tn); for (size_t i = 0; i <= t.referenceCount(); i++) { vf::guarded([&] { DataView v = util::taggedData(t, i, RangeMatch::Inclusive); std::vector<double> b(v.dataExtent().nelms() + 1); if (v.dataType() == DataType::Double) v.getData(DataType::Double, b.data(), v.dataExtent(), NDSize(v.dataExtent().size(), 0)); });
            vf::guarded([&] { util::taggedData(t, i, RangeMatch::Exclusive); }); vf::guarded([&] { t.taggedData(i); }); } t.taggedData(HUGE_N); });
        add("Tag::taggedData(by name/unknown," + tn + ")", [=](File &f) { Tag t = B(f).getTag(tn); vf::guarded([&] { t.taggedData("d3"); }); vf::guarded([&] { t.taggedData("nope"); }); vf::guarded([&] { t.taggedData(""); }); vf::guarded([&] { util::taggedData(t, DataArray()); }); vf::guarded([&] { util::taggedData(t, A(f, "str")); }); });
        add("Tag::featureData(all, both modes," + tn + ")", [=](File &f) { Tag t = B(f).getTag(tn); for (size_t i = 0; i <= t.featureCount() + 1; i++) { vf::guarded([&] { DataView v = util::featureData(t, i, RangeMatch::Inclusive); v.dataExtent(); }); vf::guarded([&] { t.featureData(i); }); }
            vf::guarded([&] { t.featureData("feat"); }); vf::guarded([&] { t.featureData("featgone"); }); vf::guarded([&] { util::featureData(t, Feature()); }); });
        add("Tag::getFeature/getReference out of range," + tn, [=](File &f) { Tag t = B(f).getTag(tn); vf::guarded([&] { t.getFeature(t.featureCount()); }); vf::guarded([&] { t.getFeature(HUGE_N); }); vf::guarded([&] { t.getReference(t.referenceCount()); }); vf::guarded([&] { t.getReference(HUGE_N); });
            vf::guarded([&] { t.getFeature("featgone"); }); vf::guarded([&] { t.getFeature("nope"); }); vf::guarded([&] { t.hasFeature("featgone"); }); vf::guarded([&] { t.getReference("nope"); }); vf::guarded([&] { t.deleteFeature("nope"); }); vf::guarded([&] { t.removeReference("nope"); });
            vf::guarded([&] { for (auto &x : t.features()) { x.data(); x.linkType(); } }); vf::guarded([&] { t.hasFeature(Feature()); }); vf::guarded([&] { t.hasReference(DataArray()); }); vf::guarded([&] { t.deleteFeature(Feature()); }); });
        add("util::getOffsetAndCount(Tag " + tn + ", every array)", [=](File &f) { Tag t = B(f).getTag(tn); for (auto &a : B(f).dataArrays()) { NDSize o, c; vf::guarded([&] { util::getOffsetAndCount(t, a, o, c, RangeMatch::Inclusive); }); vf::guarded([&] { util::getOffsetAndCount(t, a, o, c, RangeMatch::Exclusive); }); } });
        add("Tag setters with odd vectors," + tn, [=](File &f) { Tag t = B(f).getTag(tn); vf::guarded([&] { t.position({}); }); vf::guarded([&] { t.extent({}); }); vf::guarded([&] { t.position(std::vector<double>(40, NAN)); }); vf::guarded([&] { t.extent(std::vector<double>(40, -1.0)); });
            vf::guarded([&] { t.units(std::vector<std::string>(40, "mV")); }); vf::guarded([&] { t.units({""}); }); vf::guarded([&] { t.units({}); }); vf::guarded([&] { for (size_t i = 0; i < t.referenceCount(); i++) t.taggedData(i); }); });
        add("validate(Tag " + tn + ")", [=](File &f) { Tag t = B(f).getTag(tn); valid::validate(t); });
    }
    // ---- multi-tags ----
    const std::vector<std::string> mtags = {"m1", "m5x1", "m2x3", "m2x4", "mempty", "mempty2", "mgone", "mnone"};
    for (const std::string &mn : mtags) {
        add("MultiTag::taggedData(every position and ref, both modes," + mn + ")", [=](File &f) { MultiTag m = B(f).getMultiTag(mn); for (size_t r = 0; r <= m.referenceCount(); r++) for (size_t i = 0; i < 7; i++) {
            vf::guarded([&] { DataView v = util::taggedData(m, i, r, RangeMatch::Inclusive); v.dataExtent(); }); vf::guarded([&] { DataView v = m.taggedData(i, r); std::vector<double> b(v.dataExtent().nelms() + 1); v.getData(DataType::Double, b.data(), v.dataExtent(), NDSize(v.dataExtent().size(), 0)); }); } m.taggedData(HUGE_N, 0); });
        add("MultiTag::taggedData(index lists," + mn + ")", [=](File &f) { MultiTag m = B(f).getMultiTag(mn); std::vector<std::vector<ndsize_t>> lists = {{}, {0}, {0, 1}, {1, 0}, {0, 1, 2, 3, 4}, {4, 3, 2, 1, 0}, {0, 0, 0}, {0, 99}, {HUGE_N}, {1, 1, 3}};
            for (size_t r = 0; r <= m.referenceCount(); r++) for (auto l : lists) { vf::guarded([&] { std::vector<ndsize_t> x = l; auto vs = m.taggedData(x, r); for (auto &v : vs) v.dataExtent(); });
                vf::guarded([&] { std::vector<ndsize_t> x = l; util::taggedData(m, x, r, RangeMatch::Inclusive); }); } });
        add("MultiTag::featureData(all," + mn + ")", [=](File &f) { MultiTag m = B(f).getMultiTag(mn); for (size_t k = 0; k <= m.featureCount() + 1; k++) for (size_t i = 0; i < 4; i++) { vf::guarded([&] { util::featureData(m, i, k, RangeMatch::Inclusive).dataExtent(); }); vf::guarded([&] { m.featureData(i, k); }); }
            vf::guarded([&] { util::featureData(m, std::vector<ndsize_t>{}, 0); }); vf::guarded([&] { util::featureData(m, std::vector<ndsize_t>{1, 0, 5}, 0); }); vf::guarded([&] { m.featureData(0, "featgone"); }); vf::guarded([&] { util::featureData(m, 0, Feature()); }); });
        add("MultiTag::featureData(single-position spellings incl. deprecated," + mn + ")", [=](File &f) { MultiTag m = B(f).getMultiTag(mn);
            for (size_t k = 0; k <= m.featureCount(); k++) for (size_t i = 0; i < 3; i++) {
                vf::guarded([&] { m.featureData(i, k).dataExtent(); }); vf::guarded([&] { util::featureData(m, i, k).dataExtent(); }); vf::guarded([&] { util::retrieveFeatureData(m, i, k).dataExtent(); });
                vf::guarded([&] { m.retrieveFeatureData(i, k).dataExtent(); });
                vf::guarded([&] { Feature ft = m.getFeature(k); util::featureData(m, i, ft, RangeMatch::Exclusive).dataExtent(); util::retrieveFeatureData(m, i, ft).dataExtent(); });
                vf::guarded([&] { Feature ft = m.getFeature(k); m.featureData(i, ft.data().name()).dataExtent(); m.retrieveFeatureData(i, ft.id()).dataExtent(); });
                vf::guarded([&] { util::retrieveFeatureData(m, std::vector<ndsize_t>{(ndsize_t)i}, k); });
            } });
        add("MultiTag getters / positions/extents," + mn, [=](File &f) { MultiTag m = B(f).getMultiTag(mn); vf::guarded([&] { m.positions().dataExtent(); }); vf::guarded([&] { m.positionCount(); }); vf::guarded([&] { m.hasPositions(); }); vf::guarded([&] { m.extents(); }); vf::guarded([&] { m.getFeature(m.featureCount()); });
            vf::guarded([&] { m.getFeature(HUGE_N); }); vf::guarded([&] { m.getReference(m.referenceCount()); }); vf::guarded([&] { m.extents(A(f, "ext1")); }); vf::guarded([&] { m.extents(A(f, "str")); }); vf::guarded([&] { m.positions(A(f, "str")); }); vf::guarded([&] { m.positions(A(f, "empty")); });
            vf::guarded([&] { m.units(std::vector<std::string>(30, "s")); }); vf::guarded([&] { for (size_t r = 0; r < m.referenceCount(); r++) m.taggedData(0, r); }); });
        add("validate(MultiTag " + mn + ")", [=](File &f) { MultiTag m = B(f).getMultiTag(mn); valid::validate(m); });
    }
    // ---- frames, properties, handles ----
    add("DataFrame reads of unwritten rows", [](File &f) { DataFrame d = B(f).getDataFrame("fr"); for (ndsize_t r = 0; r < 5; r++) { vf::guarded([&] { d.readRow(r); }); vf::guarded([&] { d.readCell(r, 2); }); vf::guarded([&] { d.readCell(r, "c2"); }); vf::guarded([&] { d.readCells(r, {"c2", "c0", "nope"}); }); }
        vf::guarded([&] { std::vector<std::string> s; d.readColumn("c2", s, true); }); vf::guarded([&] { std::vector<std::string> s(1); d.readColumn(2, s, false, 2); }); vf::guarded([&] { std::vector<double> s; d.readColumn("c0", s, true, 99); });
        vf::guarded([&] { std::vector<double> s(2); d.readColumn("c0", s, (size_t)100, false); }); vf::guarded([&] { std::vector<double> s; d.readColumn("c2", s, true); }); vf::guarded([&] { std::vector<int64_t> s; d.readColumn(99, s, true); }); });
    add("DataFrame column transfers: vector length x offset x count grid", [](File &f) { DataFrame d = B(f).getDataFrame("fr");
        for (size_t n = 0; n <= 4; n++) for (ndsize_t off = 0; off <= 4; off++) for (size_t cnt = 0; cnt <= 5; cnt++) {
            vf::guarded([&] { d.writeColumn("c0", std::vector<double>(n, 1.0), off, cnt); });
            vf::guarded([&] { d.writeColumn(1u, std::vector<int64_t>(n, 1), off, cnt); });
            vf::guarded([&] { d.writeColumn("c2", std::vector<std::string>(n, "s"), off, cnt); });
            vf::guarded([&] { std::vector<double> v(n); d.readColumn("c0", v, cnt, false, off); });
            vf::guarded([&] { std::vector<std::string> v(n); d.readColumn("c2", v, cnt, false, off); });
            vf::guarded([&] { std::vector<int64_t> v(n); d.readColumn(1u, v, cnt, true, off); });
            if (cnt == 0) { vf::guarded([&] { std::vector<double> v(n); d.readColumn("c0", v, false, off); }); vf::guarded([&] { std::vector<std::string> v(n); d.readColumn(2u, v, true, off); }); }
        } });
    add("DataFrame writes out of contract", [](File &f) { DataFrame d = B(f).getDataFrame("fr"); vf::guarded([&] { d.writeRow(0, {}); }); vf::guarded([&] { d.writeRow(0, {Variant(1.0)}); }); vf::guarded([&] { d.writeRow(0, std::vector<Variant>(9, Variant(1.0))); }); vf::guarded([&] { d.writeRow(99, {Variant(1.0), Variant(int64_t(1)), Variant("s"), Variant(false)}); });
        vf::guarded([&] { d.writeCell(0, 0, Variant("string into double")); }); vf::guarded([&] { d.writeCell(0, 2, Variant(1.0)); }); vf::guarded([&] { d.writeCell(0, 99, Variant(1.0)); }); vf::guarded([&] { d.writeCells(0, {}); }); vf::guarded([&] { d.writeCells(0, {Cell("nope", Variant(1.0))}); });
        vf::guarded([&] { d.writeColumn("c0", std::vector<double>{1, 2}, 0, 5); }); vf::guarded([&] { d.writeColumn("c0", std::vector<double>{}, 0, 0); }); vf::guarded([&] { d.writeColumn("c0", std::vector<double>(10, 1.0), 2); }); vf::guarded([&] { d.writeColumn("c2", std::vector<double>{1.0}); });
        vf::guarded([&] { d.writeColumn("c1", std::vector<std::string>{"x"}); }); vf::guarded([&] { d.writeColumn(99, std::vector<double>{1.0}); }); vf::guarded([&] { d.rows(HUGE_N); }); vf::guarded([&] { d.colName(99); }); vf::guarded([&] { d.colIndex("nope"); }); vf::guarded([&] { d.writeCell(0, 0, Variant()); }); });
    add("Property edge cases", [](File &f) { Section s = f.getSection("meta"); for (auto &p : s.properties()) { vf::guarded([&] { p.values(); }); vf::guarded([&] { p.valueCount(); }); vf::guarded([&] { p.values({}); }); vf::guarded([&] { p.values({Variant()}); }); vf::guarded([&] { p.values(std::vector<Variant>(100, Variant(1.0))); }); vf::guarded([&] { p.values(boost::none); }); vf::guarded([&] { p.values(); }); }
        vf::guarded([&] { s.getProperty(99); }); vf::guarded([&] { s.getProperty(HUGE_N); }); vf::guarded([&] { s.createProperty("v", std::vector<Variant>{}); }); vf::guarded([&] { s.createProperty("v2", DataType::Nothing); }); vf::guarded([&] { s.createProperty("v3", DataType::Opaque); }); vf::guarded([&] { s.inheritedProperties(); }); vf::guarded([&] { s.link(s); s.inheritedProperties(); s.findRelated(); }); });
    add("Variant edge cases", [](File &) { Variant a; vf::guarded([&] { a.get<std::string>(); }); vf::guarded([&] { a.get<double>(); }); Variant b("x"); vf::guarded([&] { b.get<int32_t>(); }); Variant c{std::string()}; c.get<std::string>(); Variant d((const char *)""); Variant e = d; e.swap(a); swap(a, b); (void)(a == b); a.set(nix::none); a.set("", 0); std::ostringstream o; o << a << b << c; });
    add("entities with very long names: by index, enumeration, id, name, find", [](File &f) {
        for (Block b : f.blocks()) { vf::guarded([&] { f.getBlock(b.id()); f.getBlock(b.name()); f.hasBlock(b.id()); });
            for (ndsize_t i = 0; i < b.dataArrayCount() + 1; i++) vf::guarded([&] { DataArray a = b.getDataArray(i); if (a) { a.name(); b.getDataArray(a.id()); b.hasDataArray(a.name()); a.dimensions(); } });
            for (ndsize_t i = 0; i < b.tagCount() + 1; i++) vf::guarded([&] { Tag t = b.getTag(i); if (t) { t.references(); b.getTag(t.id()); } });
            vf::guarded([&] { for (Source s : b.findSources()) { s.name(); s.sources(); } }); vf::guarded([&] { b.dataArrays(util::NameFilter<DataArray>(std::string(129, 'a'))); }); }
        for (Section s : f.findSections()) vf::guarded([&] { s.name(); s.properties(); s.sections(); for (ndsize_t i = 0; i < s.propertyCount(); i++) s.getProperty(i).name(); }); });
    add("NDSize index and swap edge cases", [](File &) { NDSize a({1, 2}), b({7}); const NDSize c({3, 4, 5});
        vf::guarded([&] { (void)a[(size_t)-1]; }); vf::guarded([&] { (void)c[(size_t)-1]; }); vf::guarded([&] { (void)c[3]; }); vf::guarded([&] { NDSize e; (void)e[0]; }); vf::guarded([&] { NDSize e; (void)e[(size_t)-1]; });
        vf::guarded([&] { NDSize x({7}), y({1, 2, 3}); x.swap(y); (void)x[2]; (void)y[0]; x.nelms(); y.nelms(); NDSize k(y), l(x); (void)(k == y); vf::guarded([&] { (void)y[2]; }); });
        vf::guarded([&] { NDSize x, y({1, 2, 3}); x.swap(y); (void)x[2]; y.nelms(); NDSize k(y); vf::guarded([&] { (void)y[0]; }); x.swap(y); (void)y[2]; });
        vf::guarded([&] { NDSize x({1, 2, 3, 4}); x = NDSize({9}); (void)x[0]; vf::guarded([&] { (void)x[1]; }); NDSize y; y = x; x = NDSize(); (void)y[0]; x.nelms(); });
        vf::guarded([&] { using std::swap; NDSize x({5, 6}), y({1}); swap(x, y); (void)x[0]; (void)y[1]; std::vector<NDSize> v = {x, y, NDSize()}; std::reverse(v.begin(), v.end()); for (auto &q : v) q.nelms(); }); (void)a; (void)b; });
    add("NDSize / NDArray edge cases", [](File &) { NDSize a({1, 2}), b({1}); vf::guarded([&] { a + b; }); vf::guarded([&] { (void)(a < b); }); vf::guarded([&] { a[5]; }); vf::guarded([&] { NDSize z; z.nelms(); z.dot(a); }); vf::guarded([&] { NDSize h({HUGE_N, HUGE_N}); h.nelms(); }); vf::guarded([&] { a / NDSize({0, 0}); });
        vf::guarded([&] { NDArray x(DataType::Double, NDSize({2, 2})); x.get<double>(99); }); vf::guarded([&] { NDArray x(DataType::Double, NDSize({2, 2})); x.get<double>(NDSize({5, 5})); }); vf::guarded([&] { NDArray x(DataType::Double, NDSize()); x.data(); }); vf::guarded([&] { NDArray x(DataType::Nothing, NDSize({2})); }); });
    add("default-constructed handles", [](File &) { vf::guarded([] { Block().name(); }); vf::guarded([] { DataArray().dataExtent(); }); vf::guarded([] { DataArray a; std::vector<double> v; a.getData(v); }); vf::guarded([] { Tag().taggedData(0); }); vf::guarded([] { MultiTag().positions(); }); vf::guarded([] { Section().properties(); });
        vf::guarded([] { Property().values(); }); vf::guarded([] { Source().sources(); }); vf::guarded([] { Group().dataArrays(); }); vf::guarded([] { Feature().data(); }); vf::guarded([] { DataFrame().rows(); }); vf::guarded([] { File().blockCount(); }); vf::guarded([] { File().close(); }); vf::guarded([] { Dimension().index(); });
        vf::guarded([] { SampledDimension().samplingInterval(); }); vf::guarded([] { RangeDimension().ticks(); }); vf::guarded([] { SetDimension().labels(); }); vf::guarded([] { DataFrameDimension().size(); }); vf::guarded([] { Dimension d; d.asSampledDimension(); }); vf::guarded([] { File().validate(); }); vf::guarded([] { (void)(Block() == Block()); });
        vf::guarded([] { std::ostringstream o; o << Block() << DataArray() << Tag(); }); vf::guarded([] { Block b; b.createDataArray("x", "t", DataType::Double, NDSize({1})); }); vf::guarded([] { DataView v(DataArray(), NDSize({1}), NDSize({0})); }); });
    add("handles to deleted entities", [](File &f) { Block b = B(f); DataArray a = b.createDataArray("victim", "t", DataType::Double, NDSize({3})); SampledDimension sd = a.appendSampledDimension(1.0); Tag t = b.createTag("victim_t", "t", {1.0}); t.addReference(a); Feature ft = t.createFeature(a, LinkType::Tagged);
        Source s = b.createSource("victim_s", "t"); Source s2 = s.createSource("child", "t"); Section x = f.createSection("victim_x", "t"); Property p = x.createProperty("pp", Variant(1.0)); DataView view(a, NDSize({2}), NDSize({0}));
        b.deleteDataArray(a); b.deleteSource(s); f.deleteSection(x);
        vf::guarded([&] { a.dataExtent(); }); vf::guarded([&] { std::vector<double> v; a.getData(v); }); vf::guarded([&] { a.label("x"); }); vf::guarded([&] { sd.samplingInterval(); }); vf::guarded([&] { sd.unit("s"); }); vf::guarded([&] { t.taggedData(0); }); vf::guarded([&] { ft.data(); }); vf::guarded([&] { t.featureData(0); });
        vf::guarded([&] { s2.name(); }); vf::guarded([&] { s2.parentSource(); }); vf::guarded([&] { s.createSource("zz", "t"); }); vf::guarded([&] { p.values(); }); vf::guarded([&] { p.values({Variant(2.0)}); }); vf::guarded([&] { x.createProperty("q", Variant(1.0)); }); vf::guarded([&] { std::vector<double> v(2); view.getData(DataType::Double, v.data(), NDSize({2}), NDSize({0})); });
        vf::guarded([&] { a.isValidEntity(); }); vf::guarded([&] { b.deleteDataArray(a); }); vf::guarded([&] { t.removeReference(a); }); vf::guarded([&] { b.deleteTag(t); t.name(); t.references(); }); });
    add("handles used after File::close", [](File &f) { Block b = B(f); DataArray a = A(f, "d2"); Tag t = b.getTag("t3"); MultiTag m = b.getMultiTag("m2x3"); Dimension d = a.getDimension(1); DataFrame fr = b.getDataFrame("fr"); Section x = f.getSection("meta"); Property p = x.getProperty("ps"); DataView v = t.taggedData(0);
        std::string path = f.location(); f.close();
        vf::guarded([&] { b.dataArrays(); }); vf::guarded([&] { std::vector<double> x2; a.getData(x2); }); vf::guarded([&] { t.taggedData(0); }); vf::guarded([&] { m.taggedData(0, 0); }); vf::guarded([&] { d.asSampledDimension().samplingInterval(); }); vf::guarded([&] { fr.readRow(0); }); vf::guarded([&] { p.values(); });
        vf::guarded([&] { std::vector<double> b2(64); v.getData(DataType::Double, b2.data(), v.dataExtent(), NDSize(v.dataExtent().size(), 0)); }); vf::guarded([&] { f.blockCount(); }); vf::guarded([&] { f.createBlock("late", "t"); }); vf::guarded([&] { f.flush(); }); vf::guarded([&] { f.close(); }); vf::guarded([&] { f.validate(); });
        f = File::open(path, FileMode::ReadWrite); });
    add("File::validate on the whole world", [](File &f) { valid::Result r = f.validate(); std::ostringstream o; o << r; });
    add("index getters past the end on every container", [](File &f) { Block b = B(f); vf::guarded([&] { f.getBlock(f.blockCount()); }); vf::guarded([&] { f.getBlock(HUGE_N); }); vf::guarded([&] { f.getSection(HUGE_N); }); vf::guarded([&] { b.getDataArray(HUGE_N); }); vf::guarded([&] { b.getDataFrame(b.dataFrameCount()); }); vf::guarded([&] { b.getTag(HUGE_N); });
        vf::guarded([&] { b.getMultiTag(b.multiTagCount()); }); vf::guarded([&] { b.getGroup(HUGE_N); }); vf::guarded([&] { b.getSource(b.sourceCount()); }); vf::guarded([&] { b.getSource("s").getSource(HUGE_N); }); vf::guarded([&] { f.getSection("meta").getSection(7); }); vf::guarded([&] { A(f, "d1").getSource(5); }); vf::guarded([&] { b.getGroup("g").getDataArray(0); }); vf::guarded([&] { b.getGroup("g").getTag(HUGE_N); }); });
    add("empty containers and searches", [](File &f) { Block b = B(f); Group g = b.getGroup("g"); g.dataArrays(); g.tags(); g.multiTags(); g.dataFrames(); g.dataArrays(std::vector<DataArray>{}); b.findSources(util::AcceptAll<Source>(), 0); f.findSections(util::AcceptAll<Section>(), 0); b.getSource("s").findSources(util::TypeFilter<Source>("zz"), HUGE_N);
        f.getSection("meta").findSections(util::NameFilter<Section>(""), 0); f.getSection("meta").findRelated(); f.getSection("meta").referringDataArrays(); b.getSource("s").referringTags(); b.getSource("s").parentSource(); });
    add("unit helpers with odd strings", [](File &) { const char *us[] = {"", " ", "^", "m^", "m^0", "^2", "mol^2", "kk", "mV/", "/s", "mV*", "mV/s^-2*kg", "%", "1/s", "µV", "\xff\xfe", "mV^99999999999999999999", "dB^-3"};
        for (const char *u : us) { std::string a, b, c; vf::guarded([&] { util::isSIUnit(u); }); vf::guarded([&] { util::isCompoundSIUnit(u); }); vf::guarded([&] { util::splitUnit(u, a, b, c); }); vf::guarded([&] { std::vector<std::string> p; util::splitCompoundUnit(u, p); }); vf::guarded([&] { util::getSIScaling(u, "mV"); }); vf::guarded([&] { util::getSIScaling("mV", u); });
            vf::guarded([&] { util::isScalable(u, u); }); vf::guarded([&] { util::unitSanitizer(u); }); vf::guarded([&] { util::convertToSeconds(u, 1.0); }); vf::guarded([&] { util::convertToKelvin(u, 1.0); }); } });
    add("string / time helpers", [](File &) { vf::guarded([] { util::strToTime(""); }); vf::guarded([] { util::strToTime("garbage"); }); vf::guarded([] { util::timeToStr(-1); }); vf::guarded([] { util::deblankString(std::string("\xff \t")); }); vf::guarded([] { util::looksLikeUUID(""); }); vf::guarded([] { util::nameSanitizer("a/b/"); }); vf::guarded([] { util::nameCheck(""); });
        vf::guarded([] { data_type_to_string(static_cast<DataType>(77)); }); vf::guarded([] { string_to_data_type("nope"); }); vf::guarded([] { data_type_to_size(DataType::Nothing); }); vf::guarded([] { link_type_to_string(static_cast<LinkType>(9)); }); });
    return v;
}

int main(int argc, char **argv) {
    vf::init(argc, argv, "C16");
    const bool thorough = vf::opt.tier == "thorough";
    std::vector<Call> calls = misuse();
    const std::string world = vf::scratch_file("world.h5"), rich = vf::scratch_file("rich.h5"), work = vf::scratch_file("work.h5");
    vf::set_clock(1500000000);
    { File f = File::open(world, FileMode::Overwrite); build_world(f); f.close(); }
    { File f = File::open(rich, FileMode::Overwrite); ops::build_seed_r3(f); f.close(); }

    auto run_program = [&](const std::vector<int> &prog, FileMode mode) {
        ops::copy_file(world, work);
        File f = File::open(work, mode);
        for (int k : prog) {
            std::string what;
            std::string r = vf::guarded([&] { calls[k].run(f); }, &what);
            vf::count("calls");
            vf::distinct("outcomes", calls[k].name + "|" + (r.empty() ? "returns" : r));
            if (!f || !f.isOpen()) f = File::open(work, mode);
        }
        vf::guarded([&] { f.close(); });
        vf::count("programs");
    };

    long caseno = 0;
    // ---- bound 1: every misuse call alone, on a writable and on a read-only world ----
    for (FileMode mode : {FileMode::ReadWrite, FileMode::ReadOnly}) for (size_t k = 0; k < calls.size(); k++) {
        long cid = caseno++;
        if (!vf::take_case(cid)) continue;
        vf::case_desc(std::string(mode == FileMode::ReadOnly ? "[ReadOnly] " : "") + calls[k].name);
        run_program({(int)k}, mode);
        if (k % 97 == 0) vf::sample(vf::jstr(calls[k].name), 5);
    }
    // ---- bound 2: ordered pairs (first call may leave the world in an odd state for the second) ----
    // quick: pairs (i, j) with (i + j) % 16 == 0 plus all pairs among the 'stateful' calls; thorough: all ordered pairs
    std::vector<int> stateful;
    for (size_t k = 0; k < calls.size(); k++) if (calls[k].name.find("setData") == 0 || calls[k].name.find("dataExtent") == 0 || calls[k].name.find("appendData") == 0 || calls[k].name.find("setters") != std::string::npos || calls[k].name.find("writes") != std::string::npos ||
                                                  calls[k].name.find("deleted") != std::string::npos || calls[k].name.find("close") != std::string::npos || calls[k].name.find("Property") == 0) stateful.push_back((int)k);
    for (size_t i = 0; i < calls.size(); i++) {
        long cid = caseno++;
        if (!vf::take_case(cid)) continue;
        vf::case_desc("pairs starting with " + calls[i].name);
        bool i_stateful = std::find(stateful.begin(), stateful.end(), (int)i) != stateful.end();
        for (size_t j = 0; j < calls.size(); j++) {
            if (!thorough && !(i_stateful && (i + j) % 4 == 0) && (i + 3 * j) % 64 != 0) continue;
            vf::case_desc("pair: " + calls[i].name + "  THEN  " + calls[j].name);
            run_program({(int)i, (int)j}, FileMode::ReadWrite);
            vf::count("pairs");
            if (vf::deadline_hit()) break;
        }
        if (vf::deadline_hit()) break;
    }
    // ---- legal programs with TWO handles of one entity: handle h1 is obtained and read first (whatever it memoises, it memoises
    //      now), the entity is grown / shrunk through a second handle (or through the array behind an alias dimension), then
    //      h1 is read at the old and at the new indices.  Every read must return or throw; a stale size in h1 must not turn
    //      into an out-of-bounds access.
    {
        std::vector<Call> seqs;
        auto G = [](const std::function<void()> &fn) { vf::guarded(fn); vf::count("calls"); };
        for (int grow : {1, 0}) for (size_t n2 : (grow ? std::vector<size_t>{5, 9, 70} : std::vector<size_t>{3, 1, 0})) {
            const std::string tag = std::string(grow ? "grown to " : "shrunk to ") + std::to_string(n2);
            seqs.push_back({"two handles: range ticks " + tag, [=](File &f) {
                RangeDimension h1 = A(f, "d3").getDimension(2).asRangeDimension(), h2 = A(f, "d3").getDimension(2).asRangeDimension();
                G([&] { h1.tickAt(0); }); G([&] { h1.axis(4); }); G([&] { h1.ticks(); });
                std::vector<double> t; for (size_t i = 0; i < n2; i++) t.push_back(1.0 + i);
                G([&] { h2.ticks(t); });
                for (size_t i = 0; i <= 72; i++) { G([&] { h1.tickAt(i); }); G([&] { h1[i]; }); }
                for (size_t c : {(size_t)1, (size_t)4, n2, n2 + 1, (size_t)71}) for (size_t st : {(size_t)0, (size_t)3, (size_t)4, n2}) G([&] { h1.axis(c, st); });
                G([&] { h1.ticks(); }); G([&] { h1.indexOf(3.5, PositionMatch::GreaterOrEqual); }); G([&] { h1.indexOf(0.0, 100.0, std::vector<double>(), RangeMatch::Inclusive); });
            }});
            seqs.push_back({"two handles: alias range dimension, array " + tag, [=](File &f) {
                DataArray a = B(f).createDataArray("al", "t", DataType::Double, NDSize({4}));
                a.setData(std::vector<double>{1, 2, 3, 4});
                RangeDimension h1 = a.appendAliasRangeDimension();
                G([&] { h1.tickAt(0); }); G([&] { h1.axis(4); }); G([&] { h1.ticks(); });
                DataArray a2 = A(f, "al");
                std::vector<double> t; for (size_t i = 0; i < n2; i++) t.push_back(1.0 + i);
                if (n2 % 2) G([&] { a2.setData(t); }); else { G([&] { a2.dataExtent(NDSize({(ndsize_t)n2})); }); if (n2) G([&] { a2.setData(DataType::Double, t.data(), NDSize({(ndsize_t)n2}), NDSize({0})); }); }
                for (size_t i = 0; i <= 72; i++) G([&] { h1.tickAt(i); });
                for (size_t c : {(size_t)1, (size_t)4, n2, n2 + 1}) for (size_t st : {(size_t)0, (size_t)4, n2}) G([&] { h1.axis(c, st); });
                G([&] { h1.ticks(); }); G([&] { std::vector<double> v; a.getData(v); });
            }});
            seqs.push_back({"two handles: set labels " + tag, [=](File &f) {
                SetDimension h1 = A(f, "d2").getDimension(2).asSetDimension(), h2 = A(f, "d2").getDimension(2).asSetDimension();
                G([&] { h1.labels(); }); G([&] { h1.indexOf(1.0, PositionMatch::Equal); });
                std::vector<std::string> l; for (size_t i = 0; i < n2; i++) l.push_back("l" + std::to_string(i));
                G([&] { h2.labels(l); });
                G([&] { h1.labels(); });
                for (double p : {0.0, 2.0, 3.0, 4.0, 8.0, 69.0, 70.0}) for (PositionMatch m : {PositionMatch::Equal, PositionMatch::LessOrEqual, PositionMatch::Greater}) G([&] { h1.indexOf(p, m); });
                G([&] { h1.indexOf(0.0, 100.0, RangeMatch::Inclusive); });
            }});
            seqs.push_back({"two handles: array extent " + tag, [=](File &f) {
                DataArray h1 = A(f, "d1"), h2 = A(f, "d1");
                G([&] { h1.dataExtent(); }); G([&] { std::vector<double> v; h1.getData(v); });
                G([&] { h2.dataExtent(NDSize({(ndsize_t)n2})); });
                G([&] { std::vector<double> v; h1.getData(v); });
                for (size_t c : {(size_t)1, (size_t)10, n2, n2 + 1}) for (size_t o : {(size_t)0, (size_t)9, (size_t)10, n2}) {
                    G([&] { std::vector<double> buf(c ? c : 1); h1.getData(DataType::Double, buf.data(), NDSize({(ndsize_t)c}), NDSize({(ndsize_t)o})); });
                    G([&] { std::vector<double> buf(c ? c : 1, 1.0); h1.setData(DataType::Double, buf.data(), NDSize({(ndsize_t)c}), NDSize({(ndsize_t)o})); });
                }
                G([&] { std::vector<double> v(3, 2.0); h1.appendData(DataType::Double, v.data(), NDSize({3}), 0); });
                G([&] { h1.getDimension(1).asSampledDimension().axis(n2 + 1); });
            }});
            seqs.push_back({"two handles: data frame rows " + tag, [=](File &f) {
                DataFrame h1 = B(f).getDataFrame("fr"), h2 = B(f).getDataFrame("fr");
                G([&] { h1.rows(); }); G([&] { h1.readRow(0); });
                G([&] { h2.rows(n2); });
                for (size_t r : {(size_t)0, (size_t)2, (size_t)3, n2 ? n2 - 1 : 0, n2, n2 + 1}) {
                    G([&] { h1.readRow(r); }); G([&] { h1.readCell(r, 2u); }); G([&] { h1.readCells(r, {"c0", "c2"}); });
                    G([&] { h1.writeRow(r, {Variant(1.5), Variant(int64_t(2)), Variant("x"), Variant(true)}); });
                }
                G([&] { std::vector<double> v; h1.readColumn("c0", v, true); }); G([&] { std::vector<std::string> v; h1.readColumn("c2", v, true); });
                G([&] { std::vector<int64_t> v(3); h1.readColumn("c1", v, false); }); G([&] { std::vector<std::string> v(n2 + 2); h1.readColumn(2u, v, n2 + 2, false, 0); });
                G([&] { std::vector<double> v(n2 + 1, 1.0); h1.writeColumn("c0", v); });
            }});
            seqs.push_back({"two handles: property values " + tag, [=](File &f) {
                Property h1 = f.getSection("meta").getProperty("ps"), h2 = f.getSection("meta").getProperty("ps");
                G([&] { h1.values(); }); G([&] { h1.valueCount(); });
                std::vector<Variant> v; for (size_t i = 0; i < n2; i++) v.push_back(Variant("v" + std::to_string(i)));
                G([&] { if (n2) h2.values(v); else h2.deleteValues(); });
                G([&] { h1.values(); }); G([&] { h1.valueCount(); }); G([&] { h1.values(std::vector<Variant>{Variant("z")}); }); G([&] { h2.values(); });
            }});
            seqs.push_back({"two handles: multi-tag positions " + tag, [=](File &f) {
                Block b = B(f);
                DataArray pos = b.createDataArray("pp", "t", DataType::Double, NDSize({3})); pos.setData(std::vector<double>{1.0, 2.0, 3.0});
                MultiTag h1 = b.createMultiTag("mm", "t", pos); h1.addReference(A(f, "d1"));
                G([&] { h1.taggedData(2, 0); }); G([&] { h1.positions().dataExtent(); });
                DataArray p2 = A(f, "pp");
                G([&] { p2.dataExtent(NDSize({(ndsize_t)n2})); });
                for (size_t i : {(size_t)0, (size_t)2, (size_t)3, n2 ? n2 - 1 : 0, n2, n2 + 1}) { G([&] { h1.taggedData(i, 0); }); G([&] { std::vector<ndsize_t> idx = {0, (ndsize_t)i}; h1.taggedData(idx, 0); }); }
                G([&] { std::vector<ndsize_t> none; h1.taggedData(none, 0); });
            }});
        }
        for (size_t k = 0; k < seqs.size(); k++) {
            long cid = caseno++;
            if (!vf::take_case(cid)) continue;
            vf::case_desc(seqs[k].name);
            ops::copy_file(world, work);
            File f = File::open(work, FileMode::ReadWrite);
            std::string r = vf::guarded([&] { seqs[k].run(f); });
            vf::distinct("outcomes", seqs[k].name + "|" + (r.empty() ? "returns" : r));
            vf::guarded([&] { f.close(); });
            vf::count("programs");
        }
        vf::note("two_handle_programs", std::to_string(seqs.size()));
    }
    vf::note("misuse_calls", std::to_string(calls.size()));
    (void)rich;
    return vf::finish();
}
