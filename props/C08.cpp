// C08 — a rejected operation leaves no trace.
//
// State corpus: explicit-state BFS over the entity alphabet (empty seed, bounded depth) plus two rich seed files and
// their successors.  In EVERY state of the corpus EVERY entry of a rejection catalogue (calls with a duplicate / empty /
// '/'-containing name, empty type, foreign or unknown link targets, mismatching shapes and element types, unsorted ticks,
// non-SI units, non-positive intervals, unsupported element types, out-of-range indices ...) is attempted on the first
// entity of the addressed kind.  If the call throws, the full observation taken through fresh handles must be identical
// to the one before the call, in the same session and after close + reopen.
#include <nix.hpp>
#include <boost/multi_array.hpp>
#include <nix/hydra/multiArray.hpp>
#include "vf.hpp"
#include "obs.hpp"
#include "ops.hpp"
#include "explore.hpp"

using namespace nix;
using ops::NotEnabled;

struct Rej { std::string name; std::function<void(File &)> run; };

static void need(bool c) { if (!c) throw NotEnabled(); }
static Block B0(File &f) { need(f.blockCount() > 0); return f.getBlock(0); }
static Block B1(File &f) { need(f.blockCount() > 1); return f.getBlock(1); }
static Section X0(File &f) { need(f.sectionCount() > 0); return f.getSection(0); }
static DataArray A0(File &f) { Block b = B0(f); need(b.dataArrayCount() > 0); return b.getDataArray(0); }
static DataArray Ak(File &f, size_t k) { Block b = B0(f); need(b.dataArrayCount() > k); return b.getDataArray(k); }
static DataFrame F0(File &f) { Block b = B0(f); need(b.dataFrameCount() > 0); return b.getDataFrame(0); }
static Tag T0(File &f) { Block b = B0(f); need(b.tagCount() > 0); return b.getTag(0); }
static MultiTag M0(File &f) { Block b = B0(f); need(b.multiTagCount() > 0); return b.getMultiTag(0); }
static Group G0(File &f) { Block b = B0(f); need(b.groupCount() > 0); return b.getGroup(0); }
static Source S0(File &f) { Block b = B0(f); need(b.sourceCount() > 0); return b.getSource(0); }
static Property P0(File &f) { Section s = X0(f); need(s.propertyCount() > 0); return s.getProperty(0); }
// an array / source living in ANOTHER block than block 0 (created on demand is not allowed: the state must provide it)
static DataArray foreignA(File &f) { Block b = B1(f); need(b.dataArrayCount() > 0); return b.getDataArray(0); }
static const char *UNKNOWN_ID = "ffffffff-0000-4000-8000-00000000dead";
// first dimension of a given kind on any array of block 0
static Dimension DIMK(File &f, DimensionType k, DataArray *owner = nullptr) {
    Block b = B0(f);
    for (size_t i = 0; i < b.dataArrayCount(); i++) {
        DataArray a = b.getDataArray(i);
        for (size_t d = 1; d <= a.dimensionCount(); d++) {
            Dimension dim = a.getDimension(d);
            if (dim.dimensionType() == k && !(k == DimensionType::Range && dim.asRangeDimension().alias())) { if (owner) *owner = a; return dim; }
        }
    }
    throw NotEnabled();
}
static DataArray arrayWhere(File &f, const std::function<bool(DataArray &)> &pred) {
    Block b = B0(f);
    for (size_t i = 0; i < b.dataArrayCount(); i++) { DataArray a = b.getDataArray(i); if (pred(a)) return a; }
    throw NotEnabled();
}

// kind of the first entity line that differs between two observations (for signatures)
static std::string first_kind(const std::string &p0, const std::string &p1) {
    std::string d = obs::diff(p0, p1, 1); size_t p = d.find_first_not_of("+- ");
    return p == std::string::npos ? std::string("?") : d.substr(p, d.find(' ', p) - p);
}

static std::vector<Rej> catalogue() {
    std::vector<Rej> v;
    auto add = [&](const std::string &n, std::function<void(File &)> fn) { v.push_back(Rej{n, fn}); };
    const std::vector<std::pair<std::string, std::string>> badnames = {{"empty name", ""}, {"name with slash", "a/b"}};
    // calls the library is known to accept today come first (an accepted call interrupts the batch of rejected ones)
    add("Section::createProperty(unsupported type)", [](File &f) { X0(f).createProperty("fresh_p", DataType::Int8); });
    add("Block::createDataArray(DataType::Opaque)", [](File &f) { B0(f).createDataArray("fresh_a", "t", DataType::Opaque, NDSize({2})); });
    add("Property::unit(empty)", [](File &f) { P0(f).unit(""); });

    // ---- creates: duplicate / invalid name / empty type ----
    add("File::createBlock(duplicate name)", [](File &f) { f.createBlock(B0(f).name(), "t"); });
    add("File::createSection(duplicate name)", [](File &f) { f.createSection(X0(f).name(), "t"); });
    for (auto &bn : badnames) {
        std::string n = bn.second, tag = bn.first;
        add("File::createBlock(" + tag + ")", [n](File &f) { f.createBlock(n, "t"); });
        add("File::createSection(" + tag + ")", [n](File &f) { f.createSection(n, "t"); });
        add("Block::createDataArray(" + tag + ")", [n](File &f) { B0(f).createDataArray(n, "t", DataType::Double, NDSize({2})); });
        add("Block::createDataFrame(" + tag + ")", [n](File &f) { B0(f).createDataFrame(n, "t", std::vector<Column>{{"c", "", DataType::Double}}); });
        add("Block::createTag(" + tag + ")", [n](File &f) { B0(f).createTag(n, "t", {1.0}); });
        add("Block::createMultiTag(" + tag + ")", [n](File &f) { B0(f).createMultiTag(n, "t", A0(f)); });
        add("Block::createGroup(" + tag + ")", [n](File &f) { B0(f).createGroup(n, "t"); });
        add("Block::createSource(" + tag + ")", [n](File &f) { B0(f).createSource(n, "t"); });
        add("Source::createSource(" + tag + ")", [n](File &f) { S0(f).createSource(n, "t"); });
        add("Section::createSection(" + tag + ")", [n](File &f) { X0(f).createSection(n, "t"); });
        add("Section::createProperty(" + tag + ")", [n](File &f) { X0(f).createProperty(n, Variant(1.0)); });
    }
    add("File::createBlock(empty type)", [](File &f) { f.createBlock("fresh_b", ""); });
    add("File::createSection(empty type)", [](File &f) { f.createSection("fresh_x", ""); });
    add("Block::createDataArray(empty type)", [](File &f) { B0(f).createDataArray("fresh_a", "", DataType::Double, NDSize({2})); });
    add("Block::createDataFrame(empty type)", [](File &f) { B0(f).createDataFrame("fresh_f", "", std::vector<Column>{{"c", "", DataType::Double}}); });
    add("Block::createTag(empty type)", [](File &f) { B0(f).createTag("fresh_t", "", {1.0}); });
    add("Block::createMultiTag(empty type)", [](File &f) { B0(f).createMultiTag("fresh_m", "", A0(f)); });
    add("Block::createGroup(empty type)", [](File &f) { B0(f).createGroup("fresh_g", ""); });
    add("Block::createSource(empty type)", [](File &f) { B0(f).createSource("fresh_s", ""); });
    add("Section::createSection(empty type)", [](File &f) { X0(f).createSection("fresh_x", ""); });
    add("Block::createDataArray(duplicate name)", [](File &f) { B0(f).createDataArray(A0(f).name(), "t", DataType::Int32, NDSize({1})); });
    add("Block::createDataArray(duplicate name, typed value overload)", [](File &f) { B0(f).createDataArray(A0(f).name(), "t", std::vector<double>{1, 2}); });
    add("Block::createDataFrame(duplicate name)", [](File &f) { B0(f).createDataFrame(F0(f).name(), "other", std::vector<Column>{{"z", "", DataType::Int32}}); });
    add("Block::createDataArray(duplicate name of the last array)", [](File &f) { Block b = B0(f); need(b.dataArrayCount() > 1); b.createDataArray(b.getDataArray(b.dataArrayCount() - 1).name(), "other", DataType::Int32, NDSize({1})); });
    add("Block::createDataArray(duplicate name of the last array, typed value overload)", [](File &f) { Block b = B0(f); need(b.dataArrayCount() > 1); b.createDataArray(b.getDataArray(b.dataArrayCount() - 1).name(), "other", std::vector<double>{1, 2}); });
    add("Block::createDataFrame(duplicate name of the last frame)", [](File &f) { Block b = B0(f); need(b.dataFrameCount() > 1); b.createDataFrame(b.getDataFrame(b.dataFrameCount() - 1).name(), "other", std::vector<Column>{{"z", "", DataType::Int32}}); });
    add("Block::createTag(duplicate name of the last tag)", [](File &f) { Block b = B0(f); need(b.tagCount() > 1); b.createTag(b.getTag(b.tagCount() - 1).name(), "other", {5.0}); });
    add("Block::createTag(duplicate name)", [](File &f) { B0(f).createTag(T0(f).name(), "t", {5.0}); });
    add("Block::createMultiTag(duplicate name)", [](File &f) { B0(f).createMultiTag(M0(f).name(), "t", A0(f)); });
    add("Block::createGroup(duplicate name)", [](File &f) { B0(f).createGroup(G0(f).name(), "t"); });
    add("Block::createSource(duplicate name)", [](File &f) { B0(f).createSource(S0(f).name(), "t"); });
    add("Source::createSource(duplicate name)", [](File &f) { Source s = S0(f); need(s.sourceCount() > 0); s.createSource(s.getSource(0).name(), "t"); });
    add("Section::createSection(duplicate name)", [](File &f) { Section s = X0(f); need(s.sectionCount() > 0); s.createSection(s.getSection(0).name(), "t"); });
    add("Section::createProperty(duplicate name)", [](File &f) { X0(f).createProperty(P0(f).name(), Variant(1.0)); });
    add("Section::createProperty(duplicate name, dtype overload)", [](File &f) { X0(f).createProperty(P0(f).name(), DataType::Int32); });
    add("Section::createProperty(mixed value types)", [](File &f) { X0(f).createProperty("fresh_p", std::vector<Variant>{Variant(1.0), Variant("s")}); });
    add("Block::createDataArray(DataType::Nothing)", [](File &f) { B0(f).createDataArray("fresh_a", "t", DataType::Nothing, NDSize({2})); });
    add("Block::createDataFrame(duplicate column, adjacent)", [](File &f) { B0(f).createDataFrame("fresh_f", "t", std::vector<Column>{{"a", "", DataType::Double}, {"a", "", DataType::Int32}}); });
    add("Block::createDataFrame(duplicate column, not adjacent)", [](File &f) { B0(f).createDataFrame("fresh_f", "t", std::vector<Column>{{"a", "", DataType::Double}, {"b", "", DataType::Int32}, {"a", "", DataType::Int64}}); });
    add("Block::createDataFrame(unsupported column type)", [](File &f) { B0(f).createDataFrame("fresh_f", "t", std::vector<Column>{{"a", "", DataType::Double}, {"b", "", DataType::Int8}}); });
    add("Block::createDataFrame(no columns)", [](File &f) { B0(f).createDataFrame("fresh_f", "t", std::vector<Column>{}); });
    add("Block::createMultiTag(positions from another block)", [](File &f) { B0(f).createMultiTag("fresh_m", "t", foreignA(f)); });
    add("Block::createMultiTag(uninitialised positions)", [](File &f) { B0(f).createMultiTag("fresh_m", "t", DataArray()); });

    // ---- links to entities that are not there ----
    add("Tag::addReference(array of another block)", [](File &f) { T0(f).addReference(foreignA(f)); });
    add("Tag::addReference(unknown id)", [](File &f) { T0(f).addReference(UNKNOWN_ID); });
    add("Tag::addReference(unknown name)", [](File &f) { T0(f).addReference("no_such_array"); });
    add("Tag::addReference(uninitialised)", [](File &f) { T0(f).addReference(DataArray()); });
    add("Tag::references(vector with a foreign array)", [](File &f) { Tag t = T0(f); need(t.referenceCount() > 0); t.references({t.getReference(0), foreignA(f)}); });
    add("Tag::createFeature(array of another block)", [](File &f) { T0(f).createFeature(foreignA(f), LinkType::Untagged); });
    add("Tag::createFeature(unknown id)", [](File &f) { T0(f).createFeature(UNKNOWN_ID, LinkType::Tagged); });
    add("Feature::data(unknown name)", [](File &f) { Tag t = T0(f); need(t.featureCount() > 0); t.getFeature(0).data("no_such_array"); });
    add("Feature::data(array of another block)", [](File &f) { Tag t = T0(f); need(t.featureCount() > 0); t.getFeature(0).data(foreignA(f)); });
    add("Feature::data(uninitialised)", [](File &f) { Tag t = T0(f); need(t.featureCount() > 0); t.getFeature(0).data(DataArray()); });
    add("MultiTag::addReference(array of another block)", [](File &f) { M0(f).addReference(foreignA(f)); });
    add("MultiTag::addReference(unknown id)", [](File &f) { M0(f).addReference(UNKNOWN_ID); });
    add("MultiTag::createFeature(unknown id)", [](File &f) { M0(f).createFeature(UNKNOWN_ID, LinkType::Indexed); });
    add("MultiTag::positions(unknown id)", [](File &f) { M0(f).positions(UNKNOWN_ID); });
    add("MultiTag::positions(array of another block)", [](File &f) { M0(f).positions(foreignA(f)); });
    add("MultiTag::positions(uninitialised)", [](File &f) { M0(f).positions(DataArray()); });
    add("MultiTag::extents(unknown id)", [](File &f) { M0(f).extents(UNKNOWN_ID); });
    add("MultiTag::extents(array of another block)", [](File &f) { M0(f).extents(foreignA(f)); });
    add("MultiTag::extents(shape differs from positions)", [](File &f) {
        MultiTag m = M0(f); NDSize ps = m.positions().dataExtent();
        DataArray e = arrayWhere(f, [&](DataArray &a) { return data_type_is_numeric(a.dataType()) && a.dataExtent() != ps; });
        m.extents(e); });
    add("EntityWithSources::addSource(unknown id) on array", [](File &f) { A0(f).addSource(UNKNOWN_ID); });
    add("EntityWithSources::addSource(unknown id) on tag", [](File &f) { T0(f).addSource(UNKNOWN_ID); });
    add("EntityWithSources::sources(vector with uninitialised source)", [](File &f) { DataArray a = A0(f); need(a.sourceCount() > 0); a.sources({a.getSource(0), Source()}); });
    add("EntityWithMetadata::metadata(unknown id) on block", [](File &f) { B0(f).metadata(UNKNOWN_ID); });
    add("EntityWithMetadata::metadata(unknown id) on array", [](File &f) { A0(f).metadata(UNKNOWN_ID); });
    add("EntityWithMetadata::metadata(unknown id) on tag", [](File &f) { T0(f).metadata(UNKNOWN_ID); });
    add("EntityWithMetadata::metadata(unknown id) on source", [](File &f) { S0(f).metadata(UNKNOWN_ID); });
    add("EntityWithMetadata::metadata(empty id)", [](File &f) { B0(f).metadata(""); });
    add("Section::link(unknown id)", [](File &f) { X0(f).link(UNKNOWN_ID); });
    // ---- entities of ANOTHER block / ANOTHER file handed to the remaining link operations ----
    add("Group::addTag(tag of another block)", [](File &f) { Block o = B1(f); need(o.tagCount() > 0); G0(f).addTag(o.getTag(0)); });
    add("Group::addMultiTag(multi-tag of another block)", [](File &f) { Block o = B1(f); need(o.multiTagCount() > 0); G0(f).addMultiTag(o.getMultiTag(0)); });
    add("Group::addDataFrame(frame of another block)", [](File &f) { Block o = B1(f); need(o.dataFrameCount() > 0); G0(f).addDataFrame(o.getDataFrame(0)); });
    add("Group::tags(vector with a foreign tag)", [](File &f) { Block o = B1(f); need(o.tagCount() > 0); Group g = G0(f); std::vector<Tag> v = g.tags(); v.insert(v.begin(), T0(f)); v.push_back(o.getTag(0)); g.tags(v); });
    add("Group::multiTags(vector with a foreign multi-tag)", [](File &f) { Block o = B1(f); need(o.multiTagCount() > 0); Group g = G0(f); std::vector<MultiTag> v = {M0(f), o.getMultiTag(0)}; g.multiTags(v); });
    add("Group::dataFrames(vector with a foreign frame)", [](File &f) { Block o = B1(f); need(o.dataFrameCount() > 0); Group g = G0(f); std::vector<DataFrame> v = {F0(f), o.getDataFrame(0)}; g.dataFrames(v); });
    add("MultiTag::createFeature(array of another block)", [](File &f) { M0(f).createFeature(foreignA(f), LinkType::Indexed); });
    add("MultiTag::references(vector with a foreign array)", [](File &f) { MultiTag m = M0(f); m.references({A0(f), foreignA(f)}); });
    add("DataArray::addSource(source of another block)", [](File &f) { Block o = B1(f); need(o.sourceCount() > 0); A0(f).addSource(o.getSource(0)); });
    add("Tag::addSource(source of another block)", [](File &f) { Block o = B1(f); need(o.sourceCount() > 0); T0(f).addSource(o.getSource(0)); });
    add("MultiTag::addSource(id of a source of another block)", [](File &f) { Block o = B1(f); need(o.sourceCount() > 0); M0(f).addSource(o.getSource(0).id()); });
    add("DataArray::sources(vector with a source of another block)", [](File &f) { Block o = B1(f); need(o.sourceCount() > 0); DataArray a = A0(f); a.sources({S0(f), o.getSource(0)}); });
    {
        // a second file: its entities are foreign to the file under test whatever their names are
        auto other = []() -> File { static File of; if (!of) { of = File::open(vf::scratch_file("c08_other_file.h5"), FileMode::Overwrite); Section x = of.createSection("x1", "t"); x.createSection("x2", "t"); Block b = of.createBlock("b1", "t"); b.createDataArray("a1", "t", DataType::Double, NDSize({3})); b.createSource("s1", "t"); b.createTag("t1", "t", {1.0}); b.createDataFrame("f1", "t", std::vector<Column>{{"k", "", DataType::Int32}}); } return of; };
        add("Block::metadata(section of another file)", [other](File &f) { B0(f).metadata(other().getSection(0)); });
        add("DataArray::metadata(section of another file)", [other](File &f) { A0(f).metadata(other().getSection(0)); });
        add("Section::link(section of another file)", [other](File &f) { need(f.sectionCount() > 0); f.getSection(0).link(other().getSection(0)); });
        add("Tag::addReference(array of another file)", [other](File &f) { T0(f).addReference(other().getBlock(0).getDataArray(0)); });
        add("Tag::createFeature(array of another file)", [other](File &f) { T0(f).createFeature(other().getBlock(0).getDataArray(0), LinkType::Untagged); });
        add("Block::createMultiTag(positions of another file)", [other](File &f) { B0(f).createMultiTag("fresh_m", "t", other().getBlock(0).getDataArray(0)); });
        add("Group::addDataArray(array of another file)", [other](File &f) { G0(f).addDataArray(other().getBlock(0).getDataArray(0)); });
        add("Group::addTag(tag of another file)", [other](File &f) { G0(f).addTag(other().getBlock(0).getTag(0)); });
        add("DataArray::addSource(source of another file)", [other](File &f) { A0(f).addSource(other().getBlock(0).getSource(0)); });
        add("DataArray::appendDataFrameDimension(frame of another file)", [other](File &f) { A0(f).appendDataFrameDimension(other().getBlock(0).getDataFrame(0)); });
    }
    add("Group::addDataArray(array of another block)", [](File &f) { G0(f).addDataArray(foreignA(f)); });
    add("Group::addDataArray(unknown id)", [](File &f) { G0(f).addDataArray(UNKNOWN_ID); });
    add("Group::addTag(unknown name)", [](File &f) { G0(f).addTag("no_such_tag"); });
    add("Group::dataArrays(vector with a foreign array)", [](File &f) { Group g = G0(f); need(g.dataArrayCount() > 0); g.dataArrays({g.getDataArray(0), foreignA(f)}); });

    // ---- setters with invalid values ----
    add("NamedEntity::type(empty) on block", [](File &f) { B0(f).type(""); });
    add("NamedEntity::type(empty) on array", [](File &f) { A0(f).type(""); });
    add("NamedEntity::definition(empty) on tag", [](File &f) { T0(f).definition(""); });
    add("DataArray::unit(empty)", [](File &f) { A0(f).unit(""); });
    add("DataArray::label(empty)", [](File &f) { A0(f).label(""); });
    add("DataArray::unit(non-SI) with alias dimension", [](File &f) { DataArray a = arrayWhere(f, [](DataArray &x) { return x.dimensionCount() == 1 && x.getDimension(1).dimensionType() == DimensionType::Range && x.getDimension(1).asRangeDimension().alias(); }); a.unit("foo"); });
    add("Tag::units(non-SI)", [](File &f) { T0(f).units({"foo"}); });
    add("MultiTag::units(non-SI)", [](File &f) { M0(f).units({"mV", "bar"}); });
    add("Section::repository(empty)", [](File &f) { X0(f).repository(""); });
    add("Property::definition(empty)", [](File &f) { P0(f).definition(""); });
    add("Property::values(vector of another type)", [](File &f) { Property p = P0(f); p.values({p.dataType() == DataType::String ? Variant(1.5) : Variant("s")}); });
    add("Property::values(mixed types)", [](File &f) {
        Property p = P0(f); std::vector<Variant> cur = p.values(); need(!cur.empty());
        cur.push_back(p.dataType() == DataType::String ? Variant(1.5) : Variant("s")); p.values(cur); });
    add("SampledDimension::samplingInterval(0)", [](File &f) { DIMK(f, DimensionType::Sample).asSampledDimension().samplingInterval(0.0); });
    add("SampledDimension::samplingInterval(negative)", [](File &f) { DIMK(f, DimensionType::Sample).asSampledDimension().samplingInterval(-1.0); });
    add("SampledDimension::unit(non-SI)", [](File &f) { DIMK(f, DimensionType::Sample).asSampledDimension().unit("foo"); });
    add("SampledDimension::unit(empty)", [](File &f) { DIMK(f, DimensionType::Sample).asSampledDimension().unit(""); });
    add("SampledDimension::label(empty)", [](File &f) { DIMK(f, DimensionType::Sample).asSampledDimension().label(""); });
    add("RangeDimension::ticks(unsorted)", [](File &f) { DIMK(f, DimensionType::Range).asRangeDimension().ticks({3.0, 1.0, 2.0}); });
    add("RangeDimension::unit(non-SI)", [](File &f) { DIMK(f, DimensionType::Range).asRangeDimension().unit("foo"); });
    add("RangeDimension::label(empty)", [](File &f) { DIMK(f, DimensionType::Range).asRangeDimension().label(""); });
    add("SetDimension::label(empty)", [](File &f) { DIMK(f, DimensionType::Set).asSetDimension().label(""); });

    // ---- dimension appends that must be refused ----
    add("DataArray::appendRangeDimension(unsorted ticks)", [](File &f) { A0(f).appendRangeDimension({2.0, 1.0}); });
    add("DataArray::appendRangeDimension(empty ticks)", [](File &f) { A0(f).appendRangeDimension({}); });
    add("DataArray::appendRangeDimension(non-SI unit)", [](File &f) { A0(f).appendRangeDimension({1.0, 2.0}, "lbl", "foo"); });
    add("DataArray::appendSampledDimension(interval 0)", [](File &f) { A0(f).appendSampledDimension(0.0); });
    add("DataArray::appendSampledDimension(negative interval)", [](File &f) { A0(f).appendSampledDimension(-0.5); });
    // units that only LOOK like SI after blanks are dropped or the micro sign is spelled out: whichever way the library
    // decides, a refusal must come before the descriptor exists
    {
        const std::vector<std::pair<std::string, std::string>> odd = {{" ms", "leading blank"}, {"m s", "inner blank"}, {"ms ", "trailing blank"}, {"\xc2\xb5s", "micro sign"}, {"mus", "mu spelled out"}, {"mV/", "dangling operator"}, {"ms^", "dangling power"}, {"none", "the word none"}};
        for (auto &u : odd) {
            std::string un = u.first;
            add("DataArray::appendRangeDimension(unit with " + u.second + ")", [un](File &f) { A0(f).appendRangeDimension({1.0, 2.0}, "lbl", un); });
            add("DataArray::appendSampledDimension(unit with " + u.second + ")", [un](File &f) { A0(f).appendSampledDimension(1.0, "lbl", un); });
            add("SampledDimension::unit(unit with " + u.second + ")", [un](File &f) { DataArray a = arrayWhere(f, [](DataArray &x) { return x.dimensionCount() > 0 && x.getDimension(1).dimensionType() == DimensionType::Sample; }); a.getDimension(1).asSampledDimension().unit(un); });
            add("DataArray::unit(unit with " + u.second + ")", [un](File &f) { A0(f).unit(un); });
            add("Tag::units(unit with " + u.second + ")", [un](File &f) { T0(f).units({un}); });
            add("Property::unit(unit with " + u.second + ")", [un](File &f) { need(f.sectionCount() > 0); Section s = f.getSection(0); need(s.propertyCount() > 0); s.getProperty(0).unit(un); });
        }
    }
    add("DataArray::appendSampledDimension(non-SI unit)", [](File &f) { A0(f).appendSampledDimension(1.0, "lbl", "foo"); });
    add("DataArray::appendAliasRangeDimension(2-D array)", [](File &f) { arrayWhere(f, [](DataArray &a) { return a.dataExtent().size() == 2; }).appendAliasRangeDimension(); });
    add("DataArray::appendAliasRangeDimension(String array)", [](File &f) { arrayWhere(f, [](DataArray &a) { return a.dataType() == DataType::String && a.dimensionCount() == 0; }).appendAliasRangeDimension(); });
    add("DataArray::appendAliasRangeDimension(array that has dimensions)", [](File &f) { arrayWhere(f, [](DataArray &a) { return a.dataExtent().size() == 1 && data_type_is_numeric(a.dataType()) && a.dimensionCount() > 0; }).appendAliasRangeDimension(); });
    add("DataArray::appendDataFrameDimension(column out of range)", [](File &f) { A0(f).appendDataFrameDimension(F0(f), 99u); });
    add("DataArray::appendDataFrameDimension(unknown column name)", [](File &f) { A0(f).appendDataFrameDimension(F0(f), "no_such_column"); });
    add("DataArray::appendDataFrameDimension(frame of another block)", [](File &f) { Block o = B1(f); need(o.dataFrameCount() > 0); A0(f).appendDataFrameDimension(o.getDataFrame(0)); });
    add("DataArray::appendDataFrameDimension(frame of another block, column index)", [](File &f) { Block o = B1(f); need(o.dataFrameCount() > 0); A0(f).appendDataFrameDimension(o.getDataFrame(0), 0u); });
    add("DataArray::appendDataFrameDimension(frame of another block, column name)", [](File &f) { Block o = B1(f); need(o.dataFrameCount() > 0); DataFrame d = o.getDataFrame(0); A0(f).appendDataFrameDimension(d, d.columns()[0].name); });
    add("DataArray::appendDataFrameDimension(uninitialised frame)", [](File &f) { A0(f).appendDataFrameDimension(DataFrame()); });

    // ---- data I/O that must be refused ----
    add("DataArray::setData(offset outside the extent)", [](File &f) { DataArray a = arrayWhere(f, [](DataArray &x) { return x.dataType() == DataType::Double && x.dataExtent().size() == 1; }); double v = 1; a.setData(DataType::Double, &v, NDSize({1}), NDSize({a.dataExtent()[0] + 5})); });
    add("DataArray::setData(whole-array value, strings into a numeric array, longer)", [](File &f) { DataArray a = arrayWhere(f, [](DataArray &x) { return x.dataType() == DataType::Double && x.dataExtent().size() == 1; }); std::vector<std::string> v(a.dataExtent()[0] + 2, "x"); a.setData(v); });
    add("DataArray::setData(whole-array value, strings into a numeric array, shorter)", [](File &f) { DataArray a = arrayWhere(f, [](DataArray &x) { return x.dataType() == DataType::Double && x.dataExtent().size() == 1 && x.dataExtent()[0] > 1; }); std::vector<std::string> v(1, "x"); a.setData(v); });
    add("DataArray::setData(whole-array value, numbers into a String array)", [](File &f) { DataArray a = arrayWhere(f, [](DataArray &x) { return x.dataType() == DataType::String && x.dataExtent().size() == 1; }); std::vector<double> v(a.dataExtent()[0] + 1, 1.5); a.setData(v); });
    add("DataArray::setData(whole-array value of another rank)", [](File &f) { DataArray a = arrayWhere(f, [](DataArray &x) { return x.dataType() == DataType::Double && x.dataExtent().size() == 1; }); boost::multi_array<double, 2> m(boost::extents[2][2]); a.setData(m); });
    add("Block::createDataArray(typed value overload, strings stored as Double)", [](File &f) { B0(f).createDataArray("fresh_a", "t", std::vector<std::string>{"a", "b"}, DataType::Double); });
    add("Block::createDataArray(typed value overload, numbers stored as String)", [](File &f) { B0(f).createDataArray("fresh_a", "t", std::vector<double>{1.0, 2.0}, DataType::String); });
    add("DataArray::appendData(element type String into numeric array)", [](File &f) { DataArray a = arrayWhere(f, [](DataArray &x) { return x.dataType() == DataType::Double && x.dataExtent().size() == 1; }); std::string s = "x"; a.appendData(DataType::String, &s, NDSize({1}), 0); });
    add("DataArray::appendData(axis out of range)", [](File &f) { DataArray a = arrayWhere(f, [](DataArray &x) { return x.dataType() == DataType::Double && x.dataExtent().size() == 1; }); double v = 1; a.appendData(DataType::Double, &v, NDSize({1}), 3); });
    add("DataArray::appendData(count of another rank)", [](File &f) { DataArray a = arrayWhere(f, [](DataArray &x) { return x.dataType() == DataType::Double && x.dataExtent().size() == 1; }); double v[2] = {1, 2}; a.appendData(DataType::Double, v, NDSize({1, 2}), 0); });
    add("DataArray::dataExtent(another rank)", [](File &f) { DataArray a = A0(f); NDSize e = a.dataExtent(); NDSize n(e.size() + 1, 2); a.dataExtent(n); });
    add("DataArray::getData(beyond the extent)", [](File &f) { DataArray a = arrayWhere(f, [](DataArray &x) { return x.dataType() == DataType::Double && x.dataExtent().size() == 1; }); std::vector<double> v(4); a.getData(DataType::Double, v.data(), NDSize({4}), NDSize({a.dataExtent()[0]})); });
    add("DataFrame::writeCell(row out of range)", [](File &f) { DataFrame d = F0(f); d.writeCell(d.rows() + 3, 0, Variant(1.0)); });
    add("DataFrame::writeCell(column out of range)", [](File &f) { DataFrame d = F0(f); need(d.rows() > 0); d.writeCell(0, 99, Variant(1.0)); });
    add("DataFrame::writeRow(row out of range)", [](File &f) { DataFrame d = F0(f); std::vector<Variant> row = d.rows() > 0 ? d.readRow(0) : std::vector<Variant>(); need(!row.empty()); d.writeRow(d.rows() + 2, row); });
    add("DataFrame::writeRow(too many values)", [](File &f) { DataFrame d = F0(f); need(d.rows() > 0); std::vector<Variant> row = d.readRow(0); row.push_back(Variant(1.0)); d.writeRow(0, row); });
    add("DataFrame::writeColumn(past the last row)", [](File &f) { DataFrame d = F0(f); std::vector<Column> c = d.columns(); need(!c.empty() && c[0].dtype == DataType::Double); std::vector<double> vals(d.rows() + 2, 7.0); d.writeColumn(0, vals, 1); });
    add("DataFrame::readCell(unknown column)", [](File &f) { DataFrame d = F0(f); need(d.rows() > 0); d.readCell(0, "no_such_column"); });

    // ---- out-of-range getters ----
    add("File::getBlock(index == count)", [](File &f) { f.getBlock(f.blockCount()); });
    add("File::getSection(index == count)", [](File &f) { f.getSection(f.sectionCount()); });
    add("Block::getDataArray(index == count)", [](File &f) { Block b = B0(f); b.getDataArray(b.dataArrayCount()); });
    add("Block::getTag(index == count)", [](File &f) { Block b = B0(f); b.getTag(b.tagCount()); });
    add("Tag::getReference(index == count)", [](File &f) { Tag t = T0(f); t.getReference(t.referenceCount()); });
    add("Tag::getFeature(index == count)", [](File &f) { Tag t = T0(f); t.getFeature(t.featureCount()); });
    add("Section::getProperty(index == count)", [](File &f) { Section s = X0(f); s.getProperty(s.propertyCount()); });
    add("Tag::taggedData(reference index == count)", [](File &f) { Tag t = T0(f); t.taggedData(t.referenceCount()); });
    return v;
}

int main(int argc, char **argv) {
    vf::init(argc, argv, "C08");
    const bool thorough = vf::opt.tier == "thorough";
    ex::Explorer E;
    E.add_seed("E", nullptr);
    E.add_seed("R1", ops::build_seed_r1);
    E.add_seed("R2", ops::build_seed_r2);
    E.add_seed("R3", ops::build_seed_r3);
    std::vector<Rej> cat = catalogue();

    // Run the whole catalogue in one state.  Rejected calls are batched: one observation after the batch; only if it
    // differs from the one taken before (or an accepted call interrupts the batch) each member is re-run in isolation
    // on a freshly materialised state to attribute the change.
    auto run_catalogue = [&](const ex::State &st, int level) {
        ops::Session se;
        bool dirty = true;
        std::string pre;
        std::string rbase = "--seed=" + st.seed + " --level=" + std::to_string(level) + " --history=" + (st.hist.empty() ? std::string("none") : ex::Explorer::hist_arg(st.hist));
        std::vector<int> batch, all_rejected;
        auto isolate = [&](const std::vector<int> &ks) {
            for (int k : ks) {
                E.materialize(st, se);
                std::string p0 = E.canon(se.file), what;
                vf::set_clock(E.clock0 + 700);
                std::string outcome = vf::guarded([&] { cat[k].run(se.file); }, &what);
                std::string p1 = E.canon(se.file);
                if (!outcome.empty() && p1 != p0)
                    vf::violation("C08|" + cat[k].name + "|rejected with " + outcome + "|state changed|" + [&] {
                                      std::string d = obs::diff(p0, p1, 1); size_t p = d.find_first_not_of("+- "); return p == std::string::npos ? std::string("?") : d.substr(p, d.find(' ', p) - p); }(),
                                  "the call threw (" + what + ") but the observable state differs; state " + ex::hist_str(E.alpha, st),
                                  obs::diff(p0, p1) + "\nREPLAY " + rbase + " --entry=" + std::to_string(k));
                se.close();
            }
        };
        for (size_t k = 0; k < cat.size(); k++) {
            if (vf::opt.extra.count("entry") && atoi(vf::opt.extra["entry"].c_str()) != (int)k) continue;
            if (dirty) { E.materialize(st, se); pre = E.canon(se.file); dirty = false; batch.clear(); }
            vf::set_clock(E.clock0 + 700);
            std::string what, outcome;
            try { cat[k].run(se.file); outcome = "accepted"; }
            catch (const NotEnabled &) { outcome = "notenabled"; }
            catch (const std::exception &e) { outcome = vf::guarded([&] { throw; }, &what); }
            catch (...) { outcome = "exc:unknown"; }
            if (outcome == "notenabled") { vf::count("calls_not_enabled"); continue; }
            vf::count("calls");
            vf::distinct("outcomes", cat[k].name + "|" + outcome);
            if (outcome == "accepted") {
                // not a C08 matter (only counted); the state may have changed: the batch so far is checked in isolation
                vf::count("calls_accepted");
                se.close();
                std::vector<int> b = batch;
                isolate(b);
                dirty = true;
                continue;
            }
            vf::count("calls_rejected");
            vf::distinct("entries_rejected", cat[k].name);
            vf::distinct("rejected_in_state", vf::fnv(cat[k].name + "#" + std::to_string(st.key)));
            batch.push_back((int)k);
            all_rejected.push_back((int)k);
        }
        if (!dirty) {
            std::string post = E.canon(se.file);
            vf::count("observations_compared");
            if (post != pre) { se.close(); std::vector<int> b = batch; isolate(b); }
            else {
                // persistence: after all rejected calls of this batch, close and reopen
                vf::set_clock(E.clock0 + 800);
                se.close();
                se.open(FileMode::ReadOnly);
                std::string ro = E.canon(se.file);
                se.close();
                vf::count("reopen_checks");
                if (ro != pre) {
                    for (int k : batch) {
                        E.materialize(st, se);
                        std::string p0 = E.canon(se.file);
                        vf::guarded([&] { cat[k].run(se.file); });
                        se.close(); se.open(FileMode::ReadOnly);
                        std::string p1 = E.canon(se.file); se.close();
                        if (p1 != p0)
                            vf::violation("C08|" + cat[k].name + "|rejected|state changed after reopen", "state " + ex::hist_str(E.alpha, st), obs::diff(p0, p1) + "\nREPLAY " + rbase + " --entry=" + std::to_string(k));
                    }
                }
            }
        }
        se.close();
        if (vf::opt.extra.count("entry")) return;
        // ---- ReadOnly pass: on a read-only copy every call of the entity alphabet that throws must leave no trace either ----
        {
            E.materialize(st, se);
            std::string pre_rw = E.canon(se.file);
            se.close();
            se.open(FileMode::ReadOnly);
            // first pass: all calls, one observation at the end; only if that differs, a second pass attributes the change
            for (int pass = 0; pass < 2; pass++) {
                std::string cur = pre_rw;
                bool per_op = pass == 1;
                for (size_t op = 0; op < E.alpha.size(); op++) {
                    vf::set_clock(E.clock0 + 900 + (long)op);
                    std::string outcome;
                    try { E.alpha[op].run(se.file); outcome = "returned"; }
                    catch (const NotEnabled &) { outcome = "notenabled"; }
                    catch (const std::exception &e) { outcome = "throws"; }
                    catch (...) { outcome = "throws"; }
                    if (outcome != "throws") continue;
                    if (pass == 0) { vf::count("calls"); vf::count("calls_rejected"); vf::count("readonly_calls_rejected"); }
                    if (!per_op) continue;
                    std::string post = E.canon(se.file);
                    if (post != cur) {
                        vf::violation("C08|" + E.alpha[op].name + "|rejected on a ReadOnly file|state changed in the session",
                                      "the call threw but later reads in the same ReadOnly session see a different state; state " + ex::hist_str(E.alpha, st),
                                      obs::diff(cur, post) + "\nREPLAY " + rbase);
                        cur = post;
                    }
                }
                if (pass == 0) {
                    if (E.canon(se.file) == pre_rw) break;
                    se.close(); se.open(FileMode::ReadOnly);   // fresh session for the attributing pass
                }
            }
            se.close();
        }
    };

    if (vf::opt.extra.count("history")) {   // replay of one (state, entry)
        int level = atoi(vf::opt.extra["level"].c_str());
        E.alpha = ops::entity_alphabet(level);
        ex::State st; st.seed = vf::opt.extra["seed"];
        if (vf::opt.extra["history"] != "none") st.hist = ex::Explorer::parse_hist(vf::opt.extra["history"]);
        vf::take_case(0);
        vf::case_desc("state " + ex::hist_str(E.alpha, st) + " entry " + vf::opt.extra["entry"]);
        run_catalogue(st, level);
        return vf::finish();
    }

    // ---- corpus: BFS (the transition function is the real library), catalogue in every new state ----
    long caseno = 0;
    auto corpus = [&](const std::string &seed, int level, int depth) {
        E.alpha = ops::entity_alphabet(level);
        std::vector<ex::State> states;
        // the BFS itself is cheap compared with the catalogue: every shard computes the same corpus and takes its share
        int sv_shard = vf::opt.shard, sv_n = vf::opt.nshards;
        vf::opt.shard = 0; vf::opt.nshards = 1;
        E.quiet = true;
        auto visit = [&](const ex::State &p, int op, ops::Session &se, const std::string &pre, bool &clean) -> std::string {
            std::string r = E.step(se, op, p.hist.size());
            if (r == "notenabled") { clean = true; return ""; }
            if (!r.empty()) return "";
            return E.canon(se.file);
        };
        E.bfs({seed}, depth, false, visit, &states);
        vf::opt.shard = sv_shard; vf::opt.nshards = sv_n;
        for (auto &st : states) {
            vf::distinct("states", st.key);
            if (sv_shard == 0) vf::count("corpus_transitions", (long)st.hist.size() > 0 ? 1 : 0);
            long cid = caseno++;
            if (!vf::take_case(cid)) continue;
            vf::case_desc("catalogue in state " + ex::hist_str(E.alpha, st));
            vf::count("states_checked");
            run_catalogue(st, level);
            if (cid % 97 == 0) vf::sample("{\"state\":" + vf::jstr(ex::hist_str(E.alpha, st)) + ",\"catalogue_entries\":" + std::to_string(cat.size()) + "}", 4);
        }
    };
    corpus("E", 1, thorough ? 4 : 3);
    corpus("R1", 2, thorough ? 1 : 0);
    corpus("R2", 2, thorough ? 1 : 0);
    corpus("R3", 2, thorough ? 1 : 0);
    // ---- stale link targets: the target of a link operation existed earlier in the session, was linked and unlinked through
    //      the holder handle under test (so whatever that handle or its parent remembers about the id, it remembers it), and
    //      has since been deleted through OTHER handles.  Linking it again - by id and by the stale handle - through the kept
    //      holder handle must either be accepted or, if it is refused, leave no trace.  One scenario per link operation, on
    //      copies of the rich seed R3.
    {
        struct Box { std::shared_ptr<void> h, t, o; std::string id; };
        struct Stale { std::string name; std::function<void(File &, Box &)> setup, del; std::function<void(Box &)> by_id, by_handle; };
        std::vector<Stale> sc;
        #define HP(T, x) (*std::static_pointer_cast<T>(x))
        auto keep_block = [](File &f, Box &b) { need(f.blockCount() > 0); b.o = std::make_shared<Block>(f.getBlock(0)); return HP(Block, b.o); };
        auto new_array = [](Block kb, Box &b, const NDSize &shape = NDSize({3})) { DataArray t = kb.createDataArray("stale_target", "t", DataType::Double, shape); b.t = std::make_shared<DataArray>(t); b.id = t.id(); return t; };
        auto del_array = [](File &f, Box &) { f.getBlock(0).deleteDataArray("stale_target"); };
        sc.push_back({"Tag::addReference", [=](File &f, Box &b) { Block kb = keep_block(f, b); need(kb.tagCount() > 0); Tag h = kb.getTag(0); b.h = std::make_shared<Tag>(h); DataArray t = new_array(kb, b); h.addReference(t); h.removeReference(t); }, del_array,
                      [](Box &b) { HP(Tag, b.h).addReference(b.id); }, [](Box &b) { HP(Tag, b.h).addReference(HP(DataArray, b.t)); }});
        sc.push_back({"Tag::createFeature", [=](File &f, Box &b) { Block kb = keep_block(f, b); need(kb.tagCount() > 0); Tag h = kb.getTag(0); b.h = std::make_shared<Tag>(h); DataArray t = new_array(kb, b); Feature ft = h.createFeature(t, LinkType::Untagged); h.deleteFeature(ft); }, del_array,
                      [](Box &b) { HP(Tag, b.h).createFeature(b.id, LinkType::Untagged); }, [](Box &b) { HP(Tag, b.h).createFeature(HP(DataArray, b.t), LinkType::Indexed); }});
        sc.push_back({"MultiTag::addReference", [=](File &f, Box &b) { Block kb = keep_block(f, b); need(kb.multiTagCount() > 0); MultiTag h = kb.getMultiTag(0); b.h = std::make_shared<MultiTag>(h); DataArray t = new_array(kb, b); h.addReference(t); h.removeReference(t); }, del_array,
                      [](Box &b) { HP(MultiTag, b.h).addReference(b.id); }, [](Box &b) { HP(MultiTag, b.h).addReference(HP(DataArray, b.t)); }});
        sc.push_back({"MultiTag::createFeature", [=](File &f, Box &b) { Block kb = keep_block(f, b); need(kb.multiTagCount() > 0); MultiTag h = kb.getMultiTag(0); b.h = std::make_shared<MultiTag>(h); DataArray t = new_array(kb, b); Feature ft = h.createFeature(t, LinkType::Tagged); h.deleteFeature(ft); }, del_array,
                      [](Box &b) { HP(MultiTag, b.h).createFeature(b.id, LinkType::Tagged); }, [](Box &b) { HP(MultiTag, b.h).createFeature(HP(DataArray, b.t), LinkType::Untagged); }});
        sc.push_back({"MultiTag::positions", [=](File &f, Box &b) { Block kb = keep_block(f, b); need(kb.multiTagCount() > 0); MultiTag h = kb.getMultiTag(0); b.h = std::make_shared<MultiTag>(h); DataArray old = h.positions(); need(bool(old)); need(!h.extents()); DataArray t = new_array(kb, b, old.dataExtent()); h.positions(t); h.positions(old); }, del_array,
                      [](Box &b) { HP(MultiTag, b.h).positions(b.id); }, [](Box &b) { HP(MultiTag, b.h).positions(HP(DataArray, b.t)); }});
        sc.push_back({"MultiTag::extents", [=](File &f, Box &b) { Block kb = keep_block(f, b); need(kb.multiTagCount() > 0); MultiTag h = kb.getMultiTag(0); b.h = std::make_shared<MultiTag>(h); DataArray pos = h.positions(); need(bool(pos)); DataArray old = h.extents(); DataArray t = new_array(kb, b, pos.dataExtent()); h.extents(t); if (old) h.extents(old); else h.extents(nix::none); }, del_array,
                      [](Box &b) { HP(MultiTag, b.h).extents(b.id); }, [](Box &b) { HP(MultiTag, b.h).extents(HP(DataArray, b.t)); }});
        sc.push_back({"Group::addDataArray", [=](File &f, Box &b) { Block kb = keep_block(f, b); need(kb.groupCount() > 0); Group h = kb.getGroup(0); b.h = std::make_shared<Group>(h); DataArray t = new_array(kb, b); h.addDataArray(t); h.removeDataArray(t); }, del_array,
                      [](Box &b) { HP(Group, b.h).addDataArray(b.id); }, [](Box &b) { HP(Group, b.h).addDataArray(HP(DataArray, b.t)); }});
        sc.push_back({"Group::addTag", [=](File &f, Box &b) { Block kb = keep_block(f, b); need(kb.groupCount() > 0); Group h = kb.getGroup(0); b.h = std::make_shared<Group>(h); Tag t = kb.createTag("stale_target", "t", {0.0}); b.t = std::make_shared<Tag>(t); b.id = t.id(); h.addTag(t); h.removeTag(t); },
                      [](File &f, Box &) { f.getBlock(0).deleteTag("stale_target"); }, [](Box &b) { HP(Group, b.h).addTag(b.id); }, [](Box &b) { HP(Group, b.h).addTag(HP(Tag, b.t)); }});
        sc.push_back({"Group::addMultiTag", [=](File &f, Box &b) { Block kb = keep_block(f, b); need(kb.groupCount() > 0 && kb.dataArrayCount() > 0); Group h = kb.getGroup(0); b.h = std::make_shared<Group>(h); MultiTag t = kb.createMultiTag("stale_target", "t", kb.getDataArray(0)); b.t = std::make_shared<MultiTag>(t); b.id = t.id(); h.addMultiTag(t); h.removeMultiTag(t); },
                      [](File &f, Box &) { f.getBlock(0).deleteMultiTag("stale_target"); }, [](Box &b) { HP(Group, b.h).addMultiTag(b.id); }, [](Box &b) { HP(Group, b.h).addMultiTag(HP(MultiTag, b.t)); }});
        sc.push_back({"Group::addDataFrame", [=](File &f, Box &b) { Block kb = keep_block(f, b); need(kb.groupCount() > 0); Group h = kb.getGroup(0); b.h = std::make_shared<Group>(h); DataFrame t = kb.createDataFrame("stale_target", "t", std::vector<Column>{{"k", "", DataType::Int64}}); b.t = std::make_shared<DataFrame>(t); b.id = t.id(); h.addDataFrame(t); h.removeDataFrame(t); },
                      [](File &f, Box &) { f.getBlock(0).deleteDataFrame("stale_target"); }, [](Box &b) { HP(Group, b.h).addDataFrame(b.id); }, [](Box &b) { HP(Group, b.h).addDataFrame(HP(DataFrame, b.t)); }});
        sc.push_back({"DataArray::addSource", [=](File &f, Box &b) { Block kb = keep_block(f, b); need(kb.dataArrayCount() > 0); DataArray h = kb.getDataArray(0); b.h = std::make_shared<DataArray>(h); Source t = kb.createSource("stale_target", "t"); b.t = std::make_shared<Source>(t); b.id = t.id(); h.addSource(t); h.removeSource(t); },
                      [](File &f, Box &) { f.getBlock(0).deleteSource("stale_target"); }, [](Box &b) { HP(DataArray, b.h).addSource(b.id); }, [](Box &b) { HP(DataArray, b.h).addSource(HP(Source, b.t)); }});
        sc.push_back({"Tag::addSource", [=](File &f, Box &b) { Block kb = keep_block(f, b); need(kb.tagCount() > 0); Tag h = kb.getTag(0); b.h = std::make_shared<Tag>(h); Source t = kb.createSource("stale_target", "t"); b.t = std::make_shared<Source>(t); b.id = t.id(); h.addSource(t); h.removeSource(t); },
                      [](File &f, Box &) { f.getBlock(0).deleteSource("stale_target"); }, [](Box &b) { HP(Tag, b.h).addSource(b.id); }, [](Box &b) { HP(Tag, b.h).addSource(HP(Source, b.t)); }});
        sc.push_back({"Block::metadata", [=](File &f, Box &b) { Block h = keep_block(f, b); b.h = b.o; Section old = h.metadata(); Section t = f.createSection("stale_target", "t"); b.t = std::make_shared<Section>(t); b.id = t.id(); h.metadata(t); if (old) h.metadata(old); else h.metadata(nix::none); },
                      [](File &f, Box &) { f.deleteSection("stale_target"); }, [](Box &b) { HP(Block, b.h).metadata(b.id); }, [](Box &b) { HP(Block, b.h).metadata(HP(Section, b.t)); }});
        sc.push_back({"DataArray::metadata", [=](File &f, Box &b) { Block kb = keep_block(f, b); need(kb.dataArrayCount() > 0); DataArray h = kb.getDataArray(0); b.h = std::make_shared<DataArray>(h); Section old = h.metadata(); Section t = f.createSection("stale_target", "t"); b.t = std::make_shared<Section>(t); b.id = t.id(); h.metadata(t); if (old) h.metadata(old); else h.metadata(nix::none); },
                      [](File &f, Box &) { f.deleteSection("stale_target"); }, [](Box &b) { HP(DataArray, b.h).metadata(b.id); }, [](Box &b) { HP(DataArray, b.h).metadata(HP(Section, b.t)); }});
        sc.push_back({"Section::link", [=](File &f, Box &b) { need(f.sectionCount() > 0); Section h = f.getSection(0); b.h = std::make_shared<Section>(h); Section old = h.link(); Section t = f.createSection("stale_target", "t"); b.t = std::make_shared<Section>(t); b.id = t.id(); h.link(t); if (old) h.link(old); else h.link(nix::none); },
                      [](File &f, Box &) { f.deleteSection("stale_target"); }, [](Box &b) { HP(Section, b.h).link(b.id); }, [](Box &b) { HP(Section, b.h).link(HP(Section, b.t)); }});
        sc.push_back({"DataArray::appendDataFrameDimension", [=](File &f, Box &b) { Block kb = keep_block(f, b); DataArray h = kb.createDataArray("stale_holder", "t", DataType::Double, NDSize({2})); b.h = std::make_shared<DataArray>(h); DataFrame t = kb.createDataFrame("stale_target", "t", std::vector<Column>{{"k", "", DataType::Int64}}); t.rows(2); b.t = std::make_shared<DataFrame>(t); b.id = t.id(); h.appendDataFrameDimension(t); h.deleteDimensions(); },
                      [](File &f, Box &) { f.getBlock(0).deleteDataFrame("stale_target"); }, [](Box &b) { HP(DataArray, b.h).appendDataFrameDimension(HP(DataFrame, b.t), 0u); }, [](Box &b) { HP(DataArray, b.h).appendDataFrameDimension(HP(DataFrame, b.t)); }});
        #undef HP
        for (size_t i = 0; i < sc.size(); i++) for (const char *seedn : {"R3", "R1"}) {
            long cid = caseno++;
            if (!vf::take_case(cid)) continue;
            vf::case_desc("stale link target: " + sc[i].name + " on seed " + seedn);
            const std::string p = vf::scratch_file("stale.h5");
            ops::copy_file(E.seed(seedn).path, p);
            vf::set_clock(E.clock0 + 50);
            File f = File::open(p, FileMode::ReadWrite);
            Box box; std::string what;
            std::string exc;
            try { sc[i].setup(f, box); sc[i].del(f, box); } catch (const NotEnabled &) { exc = "notenabled"; } catch (const std::exception &e) { exc = std::string("exc:") + e.what(); }
            vf::count("stale_target_scenarios");
            if (!exc.empty()) { vf::distinct("outcomes", "stale|" + sc[i].name + "|setup " + (exc == "notenabled" ? exc : std::string("refused"))); box = Box(); f.close(); continue; }
            std::string pre = E.canon(f);
            bool all_rejected = true;
            for (int form = 0; form < 2; form++) {
                vf::set_clock(E.clock0 + 60 + form);
                std::string r = vf::guarded([&] { if (form == 0) sc[i].by_id(box); else sc[i].by_handle(box); }, &what);
                vf::count("calls");
                vf::distinct("outcomes", "stale|" + sc[i].name + (form ? "(stale handle)" : "(id)") + "|" + (r.empty() ? "accepted" : r));
                if (r.empty()) { vf::count("calls_accepted"); all_rejected = false; break; }     // accepting is not a C08 matter
                vf::count("calls_rejected");
                std::string post = E.canon(f);
                if (post != pre) {
                    vf::violation("C08|" + sc[i].name + (form ? "(handle of an entity deleted earlier in the session)" : "(id of an entity deleted earlier in the session)") + "|rejected with " + r + "|state changed|" + first_kind(pre, post),
                                  std::string("seed ") + seedn + ": the target was linked and unlinked through the kept holder handle, then deleted through another handle; " + what, obs::diff(pre, post));
                    all_rejected = false; break;
                }
            }
            box = Box();
            f.close();
            if (all_rejected) {
                File g = File::open(p, FileMode::ReadOnly);
                std::string ro = E.canon(g);
                g.close();
                vf::count("reopen_checks");
                if (ro != pre) vf::violation("C08|" + sc[i].name + "(stale link target)|rejected|state changed after reopen|" + first_kind(pre, ro), std::string("seed ") + seedn, obs::diff(pre, ro));
            }
        }
    }
    vf::note("catalogue_size", std::to_string(cat.size()));
    { std::vector<std::string> names; for (auto &c : cat) names.push_back(c.name); vf::note("catalogue", vf::jvecs(names)); }
    return vf::finish();
}
