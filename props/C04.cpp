// C04 — deleting an entity leaves no dangling reference, invalidates its handles, removes source/section subtrees,
// and leaves everything else exactly as it was.
//
// Explicit enumeration (E1): a base graph with every entity kind; every subset of size <= k of a menu of ~30 links
// (references, features, positions/extents, group members, attached sources, metadata, section links, data-frame
// dimensions, alias dimension), optionally with a reopen before / between; then every entity of the graph is deleted in
// every available way (by name, by id, by handle through the owner's API).  Reference model = the structured observation
// taken before the delete with the victim's subtree removed and every link to a removed id dropped; it must equal the
// observation after the delete (same session, and after reopen).  Handles to the victim and to its subtree must report
// invalid (or throw); lookups by the old name and id must find nothing.
#include <nix.hpp>
#include "vf.hpp"
#include "obs.hpp"
#include "ops.hpp"
#include <algorithm>
#include <cstring>
#include <map>
#include <set>

using namespace nix;

struct Link { std::string name; std::function<void(File &)> make; };

static Block B(File &f) { return f.getBlock("b1"); }
static Source S(File &f, const std::string &path) {   // "s1/s2/s3"
    Source s; size_t p = 0; bool first = true;
    while (p <= path.size()) { size_t q = path.find('/', p); if (q == std::string::npos) q = path.size(); std::string n = path.substr(p, q - p); s = first ? B(f).getSource(n) : s.getSource(n); first = false; p = q + 1; }
    return s;
}
static Section X(File &f, const std::string &path) {
    Section s; size_t p = 0; bool first = true;
    while (p <= path.size()) { size_t q = path.find('/', p); if (q == std::string::npos) q = path.size(); std::string n = path.substr(p, q - p); s = first ? f.getSection(n) : s.getSection(n); first = false; p = q + 1; }
    return s;
}

static void build_base(File &f) {
    Section x1 = f.createSection("x1", "t"); x1.createSection("x2", "t"); x1.createSection("x2b", "t").createSection("x3b", "t");
    f.createSection("x3", "t");
    x1.createProperty("p1", Variant(1.5));
    Block b = f.createBlock("b1", "t");
    f.createBlock("b2", "t");
    DataArray a1 = b.createDataArray("a1", "t", DataType::Double, NDSize({3})); a1.setData(std::vector<double>{1, 2, 3});
    DataArray a2 = b.createDataArray("a2", "t", DataType::Double, NDSize({3})); a2.setData(std::vector<double>{4, 5, 6});
    DataArray a3 = b.createDataArray("a3", "t", DataType::Double, NDSize({2})); a3.setData(std::vector<double>{7, 8});
    DataFrame df = b.createDataFrame("f1", "t", std::vector<Column>{{"c0", "", DataType::Double}, {"c1", "mV", DataType::Int64}});
    df.rows(2);
    b.createTag("t1", "t", {1.0}); b.createTag("t2", "t", {0.0});
    b.createMultiTag("m1", "t", a1);
    b.createGroup("g1", "t");
    Source s1 = b.createSource("s1", "t"); s1.createSource("s2", "t").createSource("s3", "t"); s1.createSource("s2b", "t").createSource("s3b", "t");
    b.createSource("s5", "t");
}

static std::vector<Link> link_menu() {
    std::vector<Link> m;
    auto add = [&](const std::string &n, std::function<void(File &)> fn) { m.push_back(Link{n, fn}); };
    add("t1.ref(a1)", [](File &f) { B(f).getTag("t1").addReference(B(f).getDataArray("a1")); });
    add("t1.ref(a2)", [](File &f) { B(f).getTag("t1").addReference(B(f).getDataArray("a2")); });
    add("t2.ref(a1)", [](File &f) { B(f).getTag("t2").addReference(B(f).getDataArray("a1")); });
    add("t1.feature(a2,Untagged)", [](File &f) { B(f).getTag("t1").createFeature(B(f).getDataArray("a2"), LinkType::Untagged); });
    add("t2.feature(a1,Tagged)", [](File &f) { B(f).getTag("t2").createFeature(B(f).getDataArray("a1"), LinkType::Tagged); });
    add("m1.extents(a2)", [](File &f) { B(f).getMultiTag("m1").extents(B(f).getDataArray("a2")); });
    add("m1.ref(a2)", [](File &f) { B(f).getMultiTag("m1").addReference(B(f).getDataArray("a2")); });
    add("m1.feature(a3,Indexed)", [](File &f) { B(f).getMultiTag("m1").createFeature(B(f).getDataArray("a3"), LinkType::Indexed); });
    add("g1.add(a1)", [](File &f) { B(f).getGroup("g1").addDataArray(B(f).getDataArray("a1")); });
    add("g1.add(a2)", [](File &f) { B(f).getGroup("g1").addDataArray(B(f).getDataArray("a2")); });
    add("g1.add(f1)", [](File &f) { B(f).getGroup("g1").addDataFrame(B(f).getDataFrame("f1")); });
    add("g1.add(t1)", [](File &f) { B(f).getGroup("g1").addTag(B(f).getTag("t1")); });
    add("g1.add(m1)", [](File &f) { B(f).getGroup("g1").addMultiTag(B(f).getMultiTag("m1")); });
    add("a1.src(s1)", [](File &f) { B(f).getDataArray("a1").addSource(S(f, "s1")); });
    add("a1.src(s3)", [](File &f) { B(f).getDataArray("a1").addSource(S(f, "s1/s2/s3")); });
    add("a2.src(s2b)", [](File &f) { B(f).getDataArray("a2").addSource(S(f, "s1/s2b")); });
    add("t1.src(s3b)", [](File &f) { B(f).getTag("t1").addSource(S(f, "s1/s2b/s3b")); });
    add("m1.src(s2)", [](File &f) { B(f).getMultiTag("m1").addSource(S(f, "s1/s2")); });
    add("f1.src(s2b)", [](File &f) { B(f).getDataFrame("f1").addSource(S(f, "s1/s2b")); });
    add("g1.src(s5)", [](File &f) { B(f).getGroup("g1").addSource(S(f, "s5")); });
    add("b1.md(x1)", [](File &f) { B(f).metadata(X(f, "x1")); });
    add("b2.md(x2b)", [](File &f) { f.getBlock("b2").metadata(X(f, "x1/x2b")); });
    add("a1.md(x2)", [](File &f) { B(f).getDataArray("a1").metadata(X(f, "x1/x2")); });
    add("t1.md(x3b)", [](File &f) { B(f).getTag("t1").metadata(X(f, "x1/x2b/x3b")); });
    add("m1.md(x3)", [](File &f) { B(f).getMultiTag("m1").metadata(X(f, "x3")); });
    add("s2.md(x2b)", [](File &f) { S(f, "s1/s2").metadata(X(f, "x1/x2b")); });
    add("f1.md(x2)", [](File &f) { B(f).getDataFrame("f1").metadata(X(f, "x1/x2")); });
    add("x3.link(x2b)", [](File &f) { X(f, "x3").link(X(f, "x1/x2b")); });
    add("x2.link(x3)", [](File &f) { X(f, "x1/x2").link(X(f, "x3")); });
    add("a2.dfdim(f1)", [](File &f) { B(f).getDataArray("a2").appendDataFrameDimension(B(f).getDataFrame("f1"), 0u); });
    add("a3.aliasdim", [](File &f) { B(f).getDataArray("a3").appendAliasRangeDimension(); });
    add("a3.aliasdim+setdim", [](File &f) { DataArray a = B(f).getDataArray("a3"); if (a.dimensionCount() == 0) a.appendAliasRangeDimension(); a.appendSetDimension(); });
    return m;
}

// victims: (kind, path) and how to delete
struct Victim { std::string kind, name, owner; };   // owner: "" file, "b1", source path, section path, tag name
static std::vector<Victim> victims() {
    return {
        {"Block", "b1", ""}, {"Block", "b2", ""},
        {"DataArray", "a1", "b1"}, {"DataArray", "a2", "b1"}, {"DataArray", "a3", "b1"},
        {"DataFrame", "f1", "b1"}, {"Tag", "t1", "b1"}, {"Tag", "t2", "b1"}, {"MultiTag", "m1", "b1"}, {"Group", "g1", "b1"},
        {"Source", "s1", "b1"}, {"Source", "s5", "b1"}, {"Source", "s2", "s1"}, {"Source", "s2b", "s1"}, {"Source", "s3", "s1/s2"}, {"Source", "s3b", "s1/s2b"},
        {"Section", "x1", ""}, {"Section", "x3", ""}, {"Section", "x2", "x1"}, {"Section", "x2b", "x1"}, {"Section", "x3b", "x1/x2b"},
        {"Property", "p1", "x1"},
    };
}

static const char *MODES[] = {"by name", "by id", "by handle"};

// entities named in a link ("t1.ref(a1)" -> t1, a1) and the ancestors / descendants of a victim
static const char *ENTS[] = {"b1", "b2", "a1", "a2", "a3", "f1", "t1", "t2", "m1", "g1", "s1", "s2", "s2b", "s3", "s3b", "s5", "x1", "x2", "x2b", "x3", "x3b", "p1"};
static std::set<std::string> endpoints(const std::string &link) {
    std::set<std::string> r;
    std::string tok;
    for (size_t i = 0; i <= link.size(); i++) {
        char c = i < link.size() ? link[i] : '.';
        if (isalnum((unsigned char)c)) tok += c; else { for (const char *e : ENTS) if (tok == e) r.insert(tok); tok.clear(); }
    }
    return r;
}
static std::set<std::string> family(const std::string &v) {   // the victim, what it contains, and what contains it
    static const std::map<std::string, std::vector<std::string>> below = {
        {"b1", {"a1", "a2", "a3", "f1", "t1", "t2", "m1", "g1", "s1", "s2", "s2b", "s3", "s3b", "s5"}}, {"s1", {"s2", "s2b", "s3", "s3b"}}, {"s2", {"s3"}}, {"s2b", {"s3b"}},
        {"x1", {"x2", "x2b", "x3b", "p1"}}, {"x2b", {"x3b"}}};
    std::set<std::string> r = {v};
    for (auto &kv : below) {
        bool contains = std::find(kv.second.begin(), kv.second.end(), v) != kv.second.end();
        if (kv.first == v) r.insert(kv.second.begin(), kv.second.end());
        if (contains) r.insert(kv.first);
    }
    return r;
}

// perform the delete; returns the library's return value
static bool do_delete(File &f, const Victim &v, int mode, const std::string &id) {
    const std::string &n = v.name;
    if (v.kind == "Block") return mode == 0 ? f.deleteBlock(n) : mode == 1 ? f.deleteBlock(id) : f.deleteBlock(f.getBlock(n));
    if (v.kind == "DataArray") return mode == 0 ? B(f).deleteDataArray(n) : mode == 1 ? B(f).deleteDataArray(id) : B(f).deleteDataArray(B(f).getDataArray(n));
    if (v.kind == "DataFrame") return mode == 0 ? B(f).deleteDataFrame(n) : mode == 1 ? B(f).deleteDataFrame(id) : B(f).deleteDataFrame(B(f).getDataFrame(n));
    if (v.kind == "Tag") return mode == 0 ? B(f).deleteTag(n) : mode == 1 ? B(f).deleteTag(id) : B(f).deleteTag(B(f).getTag(n));
    if (v.kind == "MultiTag") return mode == 0 ? B(f).deleteMultiTag(n) : mode == 1 ? B(f).deleteMultiTag(id) : B(f).deleteMultiTag(B(f).getMultiTag(n));
    if (v.kind == "Group") return mode == 0 ? B(f).deleteGroup(n) : mode == 1 ? B(f).deleteGroup(id) : B(f).deleteGroup(B(f).getGroup(n));
    if (v.kind == "Source") {
        if (v.owner == "b1") return mode == 0 ? B(f).deleteSource(n) : mode == 1 ? B(f).deleteSource(id) : B(f).deleteSource(B(f).getSource(n));
        Source o = S(f, v.owner);
        return mode == 0 ? o.deleteSource(n) : mode == 1 ? o.deleteSource(id) : o.deleteSource(o.getSource(n));
    }
    if (v.kind == "Section") {
        if (v.owner.empty()) return mode == 0 ? f.deleteSection(n) : mode == 1 ? f.deleteSection(id) : f.deleteSection(f.getSection(n));
        Section o = X(f, v.owner);
        return mode == 0 ? o.deleteSection(n) : mode == 1 ? o.deleteSection(id) : o.deleteSection(o.getSection(n));
    }
    if (v.kind == "Property") { Section o = X(f, v.owner); return mode == 0 ? o.deleteProperty(n) : mode == 1 ? o.deleteProperty(id) : o.deleteProperty(o.getProperty(n)); }
    throw std::runtime_error("unknown victim kind");
}

// owner handles obtained BEFORE the deletion and already asked about the victim's id (a per-handle memo would be filled now)
struct Owners { Block b; Source so; Section xo; bool use = false; };
static Owners owners_before(File &f, const Victim &v, const std::string &id) {
    Owners o; o.use = true;
    vf::guarded([&] {
        if (f.hasBlock("b1")) {   // asked about the id in the container of the victim's kind only (what a program holding the id does)
            o.b = B(f);
            if (v.kind == "DataArray") { o.b.hasDataArray(id); o.b.getDataArray(id); } else if (v.kind == "DataFrame") { o.b.hasDataFrame(id); o.b.getDataFrame(id); }
            else if (v.kind == "Tag") { o.b.hasTag(id); o.b.getTag(id); } else if (v.kind == "MultiTag") { o.b.hasMultiTag(id); o.b.getMultiTag(id); }
            else if (v.kind == "Group") { o.b.hasGroup(id); o.b.getGroup(id); } else if (v.kind == "Source" && v.owner == "b1") { o.b.hasSource(id); o.b.getSource(id); }
        }
        if (v.kind == "Source" && v.owner != "b1") { o.so = S(f, v.owner); o.so.hasSource(id); o.so.getSource(id); }
        if ((v.kind == "Section" || v.kind == "Property") && !v.owner.empty()) { o.xo = X(f, v.owner); o.xo.hasSection(id); o.xo.hasProperty(id); }
        f.hasBlock(id); f.hasSection(id);
    });
    return o;
}

// lookups by the old name / id through the owner must find nothing
static std::string lookups_after(File &f, const Victim &v, const std::string &id, const Owners *own = nullptr, bool by_name = true) {
    std::string r;
    auto chk = [&](const char *what, const std::function<bool()> &found) {
        if (!by_name && strstr(what, "(name)")) return;
        std::string e = vf::guarded([&] { if (found()) r += std::string(what) + " "; }); (void)e; };
    const std::string &n = v.name;
    if (v.kind == "Block") { chk("hasBlock(name)", [&] { return f.hasBlock(n); }); chk("hasBlock(id)", [&] { return f.hasBlock(id); }); chk("getBlock(name)", [&] { return bool(f.getBlock(n)); }); chk("getBlock(id)", [&] { return bool(f.getBlock(id)); }); return r; }
    if (v.kind == "Section" && v.owner.empty()) { chk("hasSection(name)", [&] { return f.hasSection(n); }); chk("hasSection(id)", [&] { return f.hasSection(id); }); chk("getSection(id)", [&] { return bool(f.getSection(id)); });
        chk("findSections(id)", [&] { return !f.findSections(util::IdFilter<Section>(id)).empty(); }); return r; }
    if (v.kind == "Section") { Section o = own && own->xo ? own->xo : X(f, v.owner); chk("hasSection(name)", [&] { return o.hasSection(n); }); chk("hasSection(id)", [&] { return o.hasSection(id); }); chk("getSection(name)", [&] { return bool(o.getSection(n)); });
        chk("findSections(id)", [&] { return !f.findSections(util::IdFilter<Section>(id)).empty(); }); return r; }
    if (v.kind == "Property") { Section o = own && own->xo ? own->xo : X(f, v.owner); chk("hasProperty(name)", [&] { return o.hasProperty(n); }); chk("hasProperty(id)", [&] { return o.hasProperty(id); }); chk("getProperty(name)", [&] { return bool(o.getProperty(n)); }); return r; }
    if (!f.hasBlock("b1")) return r;
    Block b = own && own->b ? own->b : B(f);
    if (v.kind == "DataArray") { chk("hasDataArray(name)", [&] { return b.hasDataArray(n); }); chk("hasDataArray(id)", [&] { return b.hasDataArray(id); }); chk("getDataArray(name)", [&] { return bool(b.getDataArray(n)); }); chk("getDataArray(id)", [&] { return bool(b.getDataArray(id)); }); }
    if (v.kind == "DataFrame") { chk("hasDataFrame(name)", [&] { return b.hasDataFrame(n); }); chk("hasDataFrame(id)", [&] { return b.hasDataFrame(id); }); chk("getDataFrame(id)", [&] { return bool(b.getDataFrame(id)); }); }
    if (v.kind == "Tag") { chk("hasTag(name)", [&] { return b.hasTag(n); }); chk("hasTag(id)", [&] { return b.hasTag(id); }); chk("getTag(id)", [&] { return bool(b.getTag(id)); }); }
    if (v.kind == "MultiTag") { chk("hasMultiTag(name)", [&] { return b.hasMultiTag(n); }); chk("hasMultiTag(id)", [&] { return b.hasMultiTag(id); }); chk("getMultiTag(id)", [&] { return bool(b.getMultiTag(id)); }); }
    if (v.kind == "Group") { chk("hasGroup(name)", [&] { return b.hasGroup(n); }); chk("hasGroup(id)", [&] { return b.hasGroup(id); }); chk("getGroup(id)", [&] { return bool(b.getGroup(id)); }); }
    if (v.kind == "Source") {
        chk("findSources(id)", [&] { return !b.findSources(util::IdFilter<Source>(id)).empty(); });
        if (v.owner == "b1") { chk("hasSource(name)", [&] { return b.hasSource(n); }); chk("hasSource(id)", [&] { return b.hasSource(id); }); }
        else { Source o = own && own->so ? own->so : S(f, v.owner); chk("hasSource(name)", [&] { return o.hasSource(n); }); chk("hasSource(id)", [&] { return o.hasSource(id); }); chk("getSource(name)", [&] { return bool(o.getSource(n)); }); }
    }
    return r;
}

// re-create an entity of the victim's kind under the victim's name through fresh owner handles; returns the new id
static std::string recreate(File &f, const Victim &v) {
    const std::string &n = v.name;
    if (v.kind == "Block") return f.createBlock(n, "again").id();
    if (v.kind == "Section" && v.owner.empty()) return f.createSection(n, "again").id();
    if (v.kind == "Section") return X(f, v.owner).createSection(n, "again").id();
    if (v.kind == "Property") return X(f, v.owner).createProperty(n, Variant(2.5)).id();
    if (v.kind == "DataArray") return B(f).createDataArray(n, "again", DataType::Double, NDSize({2})).id();
    if (v.kind == "DataFrame") return B(f).createDataFrame(n, "again", std::vector<Column>{{"k", "", DataType::Int64}}).id();
    if (v.kind == "Tag") return B(f).createTag(n, "again", {0.5}).id();
    if (v.kind == "MultiTag") return B(f).createMultiTag(n, "again", B(f).getDataArray("a2")).id();
    if (v.kind == "Group") return B(f).createGroup(n, "again").id();
    if (v.kind == "Source") return (v.owner == "b1" ? B(f).createSource(n, "again") : S(f, v.owner).createSource(n, "again")).id();
    throw std::runtime_error("unknown victim kind");
}
// does the owner (fresh handle) still have an entity of that name, and which id does it show
static std::string id_by_name(File &f, const Victim &v) {
    const std::string &n = v.name; std::string id;
    vf::guarded([&] {
        if (v.kind == "Block") id = f.getBlock(n).id();
        else if (v.kind == "Section") id = (v.owner.empty() ? f.getSection(n) : X(f, v.owner).getSection(n)).id();
        else if (v.kind == "Property") id = X(f, v.owner).getProperty(n).id();
        else if (v.kind == "DataArray") id = B(f).getDataArray(n).id();
        else if (v.kind == "DataFrame") id = B(f).getDataFrame(n).id();
        else if (v.kind == "Tag") id = B(f).getTag(n).id();
        else if (v.kind == "MultiTag") id = B(f).getMultiTag(n).id();
        else if (v.kind == "Group") id = B(f).getGroup(n).id();
        else if (v.kind == "Source") id = (v.owner == "b1" ? B(f).getSource(n) : S(f, v.owner).getSource(n)).id();
    });
    return id;
}
// delete by (old) id through the owner handles kept since before the first deletion
static bool delete_by_id_kept(File &f, const Victim &v, const std::string &id, Owners o) {
    if (v.kind == "Block") return f.deleteBlock(id);
    if (v.kind == "Section") return v.owner.empty() ? f.deleteSection(id) : o.xo.deleteSection(id);
    if (v.kind == "Property") return o.xo.deleteProperty(id);
    if (v.kind == "DataArray") return o.b.deleteDataArray(id);
    if (v.kind == "DataFrame") return o.b.deleteDataFrame(id);
    if (v.kind == "Tag") return o.b.deleteTag(id);
    if (v.kind == "MultiTag") return o.b.deleteMultiTag(id);
    if (v.kind == "Group") return o.b.deleteGroup(id);
    if (v.kind == "Source") return v.owner == "b1" ? o.b.deleteSource(id) : o.so.deleteSource(id);
    throw std::runtime_error("unknown victim kind");
}

// "does not expose": a holder whose link target is gone may answer none or throw; both are normalised to the empty list.
// The per-link has-flags (one character per link) are derived from the link lists: they are taken out of the comparison
// and checked on their own (all remaining links must still be found by id).
static void normalise(obs::Node &root, std::string *bad_flags = nullptr) {
    obs::walk(root, [&](obs::Node &n) {
        std::vector<std::pair<std::string, std::string>> keep_s;
        for (auto &kv : n.scal) {
            if (kv.first == "refs_lk" || kv.first == "src_has" || kv.first == "members_has") {
                if (bad_flags && kv.second != "-" && kv.second.find_first_not_of('1') != std::string::npos) *bad_flags += n.kind + "." + kv.first + "=" + kv.second + " ";
                continue;
            }
            keep_s.push_back(kv);
        }
        n.scal.swap(keep_s);
        for (auto &l : n.links) {
            std::vector<std::string> keep;
            for (auto &t : l.second) if (t.compare(0, 5, "!exc:") != 0) keep.push_back(t);
            l.second.swap(keep);
        }
    });
}

// validity of the pooled (old) handles of the removed ids: "" if all invalid/throwing, else the list of still-valid ones
template <typename M> static void still_valid(const M &m, const std::set<std::string> &gone, const char *kind, std::string &out) {
    for (auto &kv : m) {
        if (!gone.count(kv.first)) continue;
        bool valid = false;
        vf::guarded([&] { valid = kv.second.isValidEntity(); });
        if (valid) out += std::string(kind) + " ";
    }
}

int main(int argc, char **argv) {
    vf::init(argc, argv, "C04");
    const bool thorough = vf::opt.tier == "thorough";
    const int K = atoi(vf::opt.extra.count("k") ? vf::opt.extra["k"].c_str() : (thorough ? "3" : "2"));
    std::vector<Link> menu = link_menu();
    std::vector<Victim> vict = victims();
    const int L = (int)menu.size();

    // enumerate link subsets of size <= K in a fixed order (by size, then lexicographic); plus the all-links graph
    std::vector<std::vector<int>> subsets;
    subsets.push_back({});
    for (int i = 0; i < L; i++) subsets.push_back({i});
    if (K >= 2) for (int i = 0; i < L; i++) for (int j = i + 1; j < L; j++) subsets.push_back({i, j});
    if (K >= 3) for (int i = 0; i < L; i++) for (int j = i + 1; j < L; j++) for (int k = j + 1; k < L; k++) subsets.push_back({i, j, k});
    { std::vector<int> all; for (int i = 0; i < L; i++) all.push_back(i); subsets.push_back(all); }

    const std::string basefile = vf::scratch_file("base.h5"), graph = vf::scratch_file("graph.h5"), work = vf::scratch_file("work.h5");
    { vf::set_clock(1500000000); File f = File::open(basefile, FileMode::Overwrite); build_base(f); f.close(); }

    obs::Options oo;
    long caseno = 0;
    for (size_t si = 0; si < subsets.size(); si++) {
        long cid = caseno++;
        if (!vf::take_case(cid)) continue;
        const std::vector<int> &sub = subsets[si];
        std::string sdesc = "links {";
        for (size_t i = 0; i < sub.size(); i++) sdesc += (i ? ", " : "") + (sub.size() > 6 ? std::to_string(sub[i]) : menu[sub[i]].name);
        sdesc += "}";
        vf::case_desc(sdesc);
        // reopen variants: 0 none, 1 reopen after all links, 2 reopen after the first link
        std::vector<int> variants;
        if (thorough || sub.size() > 6) variants = {0, 1, 2}; else variants = {(int)(si % 3)};
        for (int var : variants) {
            if (var == 2 && sub.size() < 2) continue;
            // build the graph once per (subset, variant)
            ops::copy_file(basefile, graph);
            bool built = true;
            {
                vf::set_clock(1500000100);
                File f = File::open(graph, FileMode::ReadWrite);
                for (size_t i = 0; i < sub.size(); i++) {
                    std::string e = vf::guarded([&] { menu[sub[i]].make(f); });
                    if (!e.empty()) { vf::violation("C04|graph construction|" + menu[sub[i]].name + "|throws " + e, sdesc); built = false; break; }
                    if (var == 2 && i == 0) { f.close(); f = File::open(graph, FileMode::ReadWrite); }
                }
                f.close();
            }
            if (!built) continue;
            // independence reduction (quick tier, graphs with >= 2 links): a victim none of whose family members is an
            // endpoint of a link of the graph is skipped: that deletion with each single link alone is covered by the 0- and
            // 1-link graphs.  The thorough tier runs every victim in every graph.
            std::set<std::string> ends;
            for (int li : sub) { std::set<std::string> e = endpoints(menu[li].name); ends.insert(e.begin(), e.end()); }
            for (size_t vi = 0; vi < vict.size(); vi++) for (int mode = 0; mode < 3; mode++) {
                const Victim &v = vict[vi];
                if (!thorough && sub.size() >= 2 && sub.size() <= 6) {
                    bool related = false;
                    for (auto &m : family(v.name)) if (ends.count(m)) related = true;
                    if (!related) { vf::count("scenarios_skipped_unrelated_victim"); continue; }
                }
                ops::copy_file(graph, work);
                vf::set_clock(1500000200);
                File f = File::open(work, FileMode::ReadWrite);
                if (var == 0) { /* the links were made in an earlier session anyway (graph file); var 0 = delete right after open */ }
                obs::Pool pool;
                obs::Node before = obs::observe(f, oo, &pool);
                // the victim node
                obs::Node *vn = nullptr;
                obs::walk(before, [&](obs::Node &n) { if (!vn && n.kind == v.kind && n.name == v.name) {
                    // nested sources/sections: match the owner by checking the full path through a fresh lookup below
                    vn = &n; } });
                if (!vn) { vf::violation("C04|harness|victim not found in observation", v.kind + " " + v.name); f.close(); continue; }
                std::string vid = vn->id;
                std::set<std::string> gone;
                obs::collect_ids(*vn, gone);
                obs::Node expected = before;
                obs::remove_entities(expected, gone);
                normalise(expected);
                std::string ctx = sdesc + " variant " + std::to_string(var) + "; delete " + v.kind + " " + v.name + " " + MODES[mode];
                std::string sigbase = "C04|delete " + v.kind + " " + MODES[mode];
                bool ret = false; std::string what;
                Owners own = owners_before(f, v, vid);
                Owners own_quiet = owners_before(f, v, vid);   // a second set that is NOT asked between the deletion and the re-creation
                vf::set_clock(1500000300);
                std::string exc = vf::guarded([&] { ret = do_delete(f, v, mode, vid); }, &what);
                vf::count("deletions");
                if (!exc.empty() || !ret) { vf::violation(sigbase + "|" + (exc.empty() ? "returned false" : "throws " + exc), ctx + " " + what); f.close(); continue; }
                // (1) everything else unchanged, nothing exposes the victim (same session)
                obs::Node after = obs::observe(f, oo);
                std::string bad_flags;
                normalise(after, &bad_flags);
                if (!bad_flags.empty()) vf::violation(sigbase + "|a remaining link is not found by has(id)", ctx + ": " + bad_flags);
                std::string te = obs::render(expected), ta = obs::render(after);
                vf::count("observations_compared");
                // which link kinds pointed at the removed ids (for the signature)
                auto linkkinds = [&]() { std::set<std::string> ks; obs::walk(before, [&](const obs::Node &n) { if (gone.count(n.id)) return; for (auto &l : n.links) for (auto &t : l.second) if (gone.count(t)) ks.insert(n.kind + "." + l.first); }); std::string s; for (auto &k : ks) s += k + ","; return s.empty() ? std::string("no incoming link") : s; };
                if (te != ta) {
                    std::string d = obs::diff(te, ta, 12);
                    size_t p = d.find_first_not_of("+- ");
                    std::string kind = p == std::string::npos ? "?" : d.substr(p, d.find(' ', p) - p);
                    vf::violation(sigbase + "|state after delete differs from model|first differing line: " + kind + "|incoming: " + linkkinds(), ctx, d);
                }
                // (2) lookups by old name / id
                std::string found = lookups_after(f, v, vid);
                if (!found.empty()) vf::violation(sigbase + "|deleted entity still found|" + found, ctx);
                found = lookups_after(f, v, vid, &own);
                if (!found.empty()) vf::violation(sigbase + "|deleted entity still found through an owner handle obtained before the deletion|" + found, ctx);
                // (3) old handles to the victim and its subtree
                std::string valid;
                // the statement constrains handles to the deleted entity itself and (sources, sections) to the nodes of its
                // subtree; handles to other entities that lived inside the victim (arrays of a block, properties of a
                // section, features of a tag) are not constrained
                std::set<std::string> self = {vid};
                still_valid(pool.blocks, self, "Block", valid); still_valid(pool.arrays, self, "DataArray", valid); still_valid(pool.frames, self, "DataFrame", valid);
                still_valid(pool.tags, self, "Tag", valid); still_valid(pool.mtags, self, "MultiTag", valid); still_valid(pool.groups, self, "Group", valid);
                still_valid(pool.properties, self, "Property", valid);
                if (v.kind == "Source") still_valid(pool.sources, gone, "Source", valid); else still_valid(pool.sources, self, "Source", valid);
                if (v.kind == "Section") still_valid(pool.sections, gone, "Section", valid); else still_valid(pool.sections, self, "Section", valid);
                if (!valid.empty()) vf::violation(sigbase + "|handle still reports valid|" + valid + "|incoming: " + linkkinds(), ctx);
                vf::distinct("outcomes", v.kind + "|" + MODES[mode] + "|" + linkkinds() + "|" + (te == ta ? "ok" : "differs"));
                vf::distinct("scenarios", ctx);
                // (3') an entity created afterwards under the victim's name is a new entity: the old id still resolves to nothing
                // (through fresh owner handles and through the ones kept since before the deletion), the old handles stay invalid,
                // and a deletion by the old id removes nothing.  Done in the 0- and 1-link graphs and the all-links graph.
                if ((sub.size() <= 1 || sub.size() > 6) && te == ta && !(v.kind == "DataArray" && v.name == "a2") ) {
                    std::string nid, w2;
                    std::string e2 = vf::guarded([&] { nid = recreate(f, v); }, &w2);
                    vf::count("recreations");
                    if (!e2.empty()) vf::violation(sigbase + "|re-creating an entity under the name of the deleted one|throws " + e2, ctx + " " + w2);
                    else {
                        if (nid == vid) vf::violation(sigbase + "|entity re-created under the victim's name|carries the id of the deleted entity", ctx);
                        std::string f1 = lookups_after(f, v, vid, nullptr, false), f2 = lookups_after(f, v, vid, &own, false), f3 = lookups_after(f, v, vid, &own_quiet, false);
                        if (!f1.empty() || !f2.empty() || !f3.empty())
                            vf::violation(sigbase + "|after re-creating an entity under the victim's name the OLD id resolves again|" + (f1.empty() ? "" : "fresh owner handle: " + f1) + (f2.empty() ? "" : "owner handle kept since before the deletion: " + f2) +
                                          (f3.empty() ? "" : "owner handle kept since before the deletion and not used in between: " + f3), ctx);
                        std::string valid2;
                        still_valid(pool.blocks, self, "Block", valid2); still_valid(pool.arrays, self, "DataArray", valid2); still_valid(pool.frames, self, "DataFrame", valid2);
                        still_valid(pool.tags, self, "Tag", valid2); still_valid(pool.mtags, self, "MultiTag", valid2); still_valid(pool.groups, self, "Group", valid2);
                        still_valid(pool.properties, self, "Property", valid2); still_valid(pool.sources, self, "Source", valid2); still_valid(pool.sections, self, "Section", valid2);
                        if (!valid2.empty()) vf::violation(sigbase + "|after re-creating an entity under the victim's name a handle of the deleted entity reports valid|" + valid2, ctx);
                        bool r2 = false;
                        vf::guarded([&] { r2 = delete_by_id_kept(f, v, vid, own_quiet); });
                        std::string now = id_by_name(f, v);
                        if (r2 || now != nid)
                            vf::violation(sigbase + "|deletion by the OLD id after re-creating an entity under the victim's name|" + (now != nid ? "the new entity is gone" : "answers true"), ctx);
                        // put the state back to what the model expects: remove the new entity again
                        bool r3 = false;
                        std::string e3 = vf::guarded([&] { if (!id_by_name(f, v).empty()) r3 = do_delete(f, v, 0, nid); else r3 = true; });
                        obs::Node again = obs::observe(f, oo); normalise(again);
                        if (!e3.empty() || !r3 || obs::render(again) != te) vf::violation(sigbase + "|deleting the re-created entity|state differs from the one before its creation", ctx, obs::diff(te, obs::render(again), 12));
                    }
                }
                // (3'') a SECOND deletion in the same session: one entity that a link of the graph connects with the first victim's family
                // (the other end of such a link) is deleted next - by the handles of the observation taken before the FIRST deletion it must
                // report invalid, and the state must be the model's.  (Whatever the first deletion left behind must not keep it alive.)
                bool second_done = false;
                if (!sub.empty() && sub.size() <= 6 && te == ta) {
                    std::set<std::string> fam = family(v.name);
                    for (const Victim &v2 : vict) {
                        if (fam.count(v2.name) || v2.kind == "Block") continue;
                        bool linked = false;
                        for (int li : sub) { std::set<std::string> e = endpoints(menu[li].name); bool a = false, bb = false; for (auto &x : e) { if (fam.count(x)) a = true; if (x == v2.name) bb = true; } if (a && bb) linked = true; }
                        if (!linked) continue;
                        obs::Node *vn2 = nullptr;
                        obs::walk(after, [&](obs::Node &n) { if (!vn2 && n.kind == v2.kind && n.name == v2.name) vn2 = &n; });
                        if (!vn2) continue;
                        std::string vid2 = vn2->id;
                        std::set<std::string> gone2; obs::collect_ids(*vn2, gone2);
                        obs::Node expected2 = after; obs::remove_entities(expected2, gone2); normalise(expected2);
                        // variant A (every second scenario): the handles of the first victim's subtree taken before its deletion are dropped
                        // first - nothing of it is alive any more; variant B: they stay alive (a program still holding a handle of a deleted
                        // holder), which the pinned tree does not survive: see known findings
                        const bool holder_handles_alive = ((vi + (size_t)mode + si) % 2) == 1;
                        if (!holder_handles_alive) {
                            own = Owners(); own_quiet = Owners();     // (they may be handles of the first victim: a block, a parent source / section)
                            for (auto &gid : gone) { pool.blocks.erase(gid); pool.arrays.erase(gid); pool.frames.erase(gid); pool.tags.erase(gid); pool.mtags.erase(gid); pool.groups.erase(gid);
                                                     pool.sources.erase(gid); pool.sections.erase(gid); pool.properties.erase(gid); pool.features.erase(gid); }
                            for (auto it = pool.dims.begin(); it != pool.dims.end();) { bool drop = false; for (auto &gid : gone) if (it->first.compare(0, gid.size(), gid) == 0) drop = true; if (drop) it = pool.dims.erase(it); else ++it; }
                        }
                        const std::string alive_cls = holder_handles_alive ? "a handle of the first victim still alive" : "no handle of the first victim alive";
                        bool ret2 = false; std::string what2;
                        std::string exc2 = vf::guarded([&] { ret2 = do_delete(f, v2, (mode + 1) % 3, vid2); }, &what2);
                        vf::count("second_deletions");
                        std::string ctx2 = ctx + "; then delete " + v2.kind + " " + v2.name + " " + MODES[(mode + 1) % 3];
                        if (!exc2.empty() || !ret2) { vf::violation("C04|second deletion in the session|delete " + v2.kind + "|" + (exc2.empty() ? "returned false" : "throws " + exc2), ctx2 + " " + what2); second_done = true; break; }
                        obs::Node after2 = obs::observe(f, oo); std::string bf2; normalise(after2, &bf2);
                        std::string t2e = obs::render(expected2), t2a = obs::render(after2);
                        if (t2e != t2a) vf::violation("C04|second deletion in the session|delete " + v2.kind + "|state after delete differs from model", ctx2, obs::diff(t2e, t2a, 12));
                        std::set<std::string> self2 = {vid2}; std::string valid3;
                        still_valid(pool.arrays, self2, "DataArray", valid3); still_valid(pool.frames, self2, "DataFrame", valid3); still_valid(pool.tags, self2, "Tag", valid3); still_valid(pool.mtags, self2, "MultiTag", valid3);
                        still_valid(pool.groups, self2, "Group", valid3); still_valid(pool.properties, self2, "Property", valid3);
                        still_valid(pool.sources, v2.kind == "Source" ? gone2 : self2, "Source", valid3); still_valid(pool.sections, v2.kind == "Section" ? gone2 : self2, "Section", valid3);
                        if (!valid3.empty()) {
                            if (holder_handles_alive) vf::violation("C04|second deletion in the session, " + alive_cls + "|handle of the second victim still reports valid", ctx2 + " (" + valid3 + ", first victim " + v.kind + ")");
                            else vf::violation("C04|second deletion in the session, " + alive_cls + "|delete " + v2.kind + "|handle still reports valid|" + valid3 + "|first victim: " + v.kind, ctx2);
                        }
                        std::string found2 = lookups_after(f, v2, vid2);
                        if (!found2.empty()) vf::violation("C04|second deletion in the session|delete " + v2.kind + "|deleted entity still found|" + found2, ctx2);
                        te = t2e; ta = t2a;      // the reopen comparison below refers to the state after both deletions
                        second_done = true;
                        break;
                    }
                }
                (void)second_done;
                // (4) after reopen
                pool.clear();
                vf::set_clock(1500000400);
                f.close();
                f = File::open(work, FileMode::ReadOnly);
                obs::Node re = obs::observe(f, oo);
                normalise(re);
                std::string tr = obs::render(re);
                vf::count("observations_compared");
                if (tr != te && te == ta) vf::violation(sigbase + "|state after reopen differs from model|incoming: " + linkkinds(), ctx, obs::diff(te, tr, 12));
                f.close();
                vf::count("traces");
            }
        }
        if (si == 5 || si == 40) vf::sample("{\"graph\":" + vf::jstr(sdesc) + ",\"victims\":" + std::to_string(vict.size()) + ",\"delete_modes\":3}");
        if (vf::deadline_hit()) break;
    }
    vf::note("k", std::to_string(K));
    vf::note("link_menu", std::to_string(L));
    vf::note("graphs", std::to_string(subsets.size()));
    return vf::finish();
}
