// C03 — names are unique per parent; name / id / index lookups, has-queries, counts, enumeration and order agree.
//
// Explicit-state exploration (E1) per container kind: every sequence (up to the depth bound) of
//   create(name in adversarial pool) | delete(child k, by name | by id | by handle) | REOPEN
// from an empty and from a pre-populated container, replayed on a fresh file; the reference model is the ordered
// list of (name, id) pairs (creation order; deletions remove, nothing else moves; duplicate names are rejected).
// After every step all lookups of the container are compared with the model.
#include <nix.hpp>
#include "vf.hpp"
#include "ops.hpp"
#include <map>
#include <memory>

using namespace nix;

struct Child { std::string name, id; };

// ---- witness handles: in "kept" mode the container's parent / holder is not fetched afresh for every question but taken from a
// handle obtained (and asked) BEFORE the steps of the trace; all modifications go through fresh handles.  What a container
// shows must not depend on when the handle to its parent was obtained.
static bool g_use_kept = false;
static std::map<std::string, std::shared_ptr<void>> g_kept;
template <typename T, typename F> static T parent_of(const char *key, F make) {
    if (!g_use_kept) return make();
    auto it = g_kept.find(key);
    if (it == g_kept.end()) it = g_kept.emplace(std::string(key), std::shared_ptr<void>(std::make_shared<T>(make()))).first;
    return *std::static_pointer_cast<T>(it->second);
}

struct Cont {
    std::string name;                                  // e.g. "Block.dataArrays"
    bool link = false;                                 // link container (add/remove of existing targets) vs owning container
    bool by_name = true;                               // lookups by name are part of the API of this container
    std::function<void(File &, const std::vector<std::string> &)> setup;       // parent (+ link targets for every pool name)
    std::function<std::string(File &, const std::string &)> create;            // returns id
    std::function<size_t(File &)> count;
    std::function<Child(File &, size_t)> at;
    std::function<std::string(File &, const std::string &)> by;                // lookup by name or id -> id or ""
    std::function<bool(File &, const std::string &)> has;
    std::function<bool(File &, size_t)> has_handle;
    std::function<bool(File &, const std::string &)> del;
    std::function<bool(File &, size_t)> del_handle;
    std::function<std::vector<std::string>(File &)> list;                      // enumeration -> ids
};

#define OWNING(CNAME, PARENT_T, PARENT_EXPR, SETUP, CREATE_EXPR, COUNT, GETI, GETS, HAS, DEL, LIST)            \
    {                                                                                                          \
        Cont c; c.name = CNAME;                                                                                \
        c.setup = [](File &f, const std::vector<std::string> &) { SETUP; };                                    \
        c.create = [](File &f, const std::string &n) { PARENT_T p = parent_of<PARENT_T>(CNAME, [&]() -> PARENT_T { return PARENT_EXPR; }); return (CREATE_EXPR).id(); }; \
        c.count = [](File &f) { PARENT_T p = parent_of<PARENT_T>(CNAME, [&]() -> PARENT_T { return PARENT_EXPR; }); return (size_t)p.COUNT(); };                         \
        c.at = [](File &f, size_t i) { PARENT_T p = parent_of<PARENT_T>(CNAME, [&]() -> PARENT_T { return PARENT_EXPR; }); auto e = p.GETI(i); return Child{e.name(), e.id()}; }; \
        c.by = [](File &f, const std::string &k) { PARENT_T p = parent_of<PARENT_T>(CNAME, [&]() -> PARENT_T { return PARENT_EXPR; }); auto e = p.GETS(k); return e ? e.id() : std::string(); }; \
        c.has = [](File &f, const std::string &k) { PARENT_T p = parent_of<PARENT_T>(CNAME, [&]() -> PARENT_T { return PARENT_EXPR; }); return p.HAS(k); };              \
        c.has_handle = [](File &f, size_t i) { PARENT_T p = parent_of<PARENT_T>(CNAME, [&]() -> PARENT_T { return PARENT_EXPR; }); return p.HAS(p.GETI(i)); };           \
        c.del = [](File &f, const std::string &k) { PARENT_T p = parent_of<PARENT_T>(CNAME, [&]() -> PARENT_T { return PARENT_EXPR; }); return p.DEL(k); };              \
        c.del_handle = [](File &f, size_t i) { PARENT_T p = parent_of<PARENT_T>(CNAME, [&]() -> PARENT_T { return PARENT_EXPR; }); return p.DEL(p.GETI(i)); };           \
        c.list = [](File &f) { PARENT_T p = parent_of<PARENT_T>(CNAME, [&]() -> PARENT_T { return PARENT_EXPR; }); std::vector<std::string> v; for (auto &e : p.LIST()) v.push_back(e.id()); return v; }; \
        conts.push_back(c);                                                                                    \
    }

static std::vector<Cont> make_containers() {
    std::vector<Cont> conts;
    OWNING("File.blocks", File, f, (void)f, p.createBlock(n, "t"), blockCount, getBlock, getBlock, hasBlock, deleteBlock, blocks)
    OWNING("File.sections", File, f, (void)f, p.createSection(n, "t"), sectionCount, getSection, getSection, hasSection, deleteSection, sections)
    OWNING("Section.sections", Section, f.getSection("root"), f.createSection("root", "t"), p.createSection(n, "t"), sectionCount, getSection, getSection, hasSection, deleteSection, sections)
    OWNING("Section.properties", Section, f.getSection("root"), f.createSection("root", "t"), p.createProperty(n, Variant(1.5)), propertyCount, getProperty, getProperty, hasProperty, deleteProperty, properties)
    OWNING("Block.sources", Block, f.getBlock("blk"), f.createBlock("blk", "t"), p.createSource(n, "t"), sourceCount, getSource, getSource, hasSource, deleteSource, sources)
    OWNING("Source.sources", Source, f.getBlock("blk").getSource("root"), f.createBlock("blk", "t").createSource("root", "t"), p.createSource(n, "t"), sourceCount, getSource, getSource, hasSource, deleteSource, sources)
    OWNING("Block.dataArrays", Block, f.getBlock("blk"), f.createBlock("blk", "t"), p.createDataArray(n, "t", DataType::Double, NDSize({1})), dataArrayCount, getDataArray, getDataArray, hasDataArray, deleteDataArray, dataArrays)
    OWNING("Block.dataFrames", Block, f.getBlock("blk"), f.createBlock("blk", "t"), p.createDataFrame(n, "t", std::vector<Column>{{"c", "", DataType::Double}}), dataFrameCount, getDataFrame, getDataFrame, hasDataFrame, deleteDataFrame, dataFrames)
    OWNING("Block.tags", Block, f.getBlock("blk"), f.createBlock("blk", "t"), p.createTag(n, "t", {1.0}), tagCount, getTag, getTag, hasTag, deleteTag, tags)
    OWNING("Block.multiTags", Block, f.getBlock("blk"), f.createBlock("blk", "t").createDataArray("positions", "t", DataType::Double, NDSize({2})), p.createMultiTag(n, "t", p.getDataArray("positions")), multiTagCount, getMultiTag, getMultiTag, hasMultiTag, deleteMultiTag, multiTags)
    OWNING("Block.groups", Block, f.getBlock("blk"), f.createBlock("blk", "t"), p.createGroup(n, "t"), groupCount, getGroup, getGroup, hasGroup, deleteGroup, groups)

    // ---- link containers: the targets (one per pool name) are created by setup ----
    {
        Cont c; c.name = "Tag.references"; c.link = true;
        c.setup = [](File &f, const std::vector<std::string> &names) { Block b = f.createBlock("blk", "t"); b.createTag("holder", "t", {1.0}); for (auto &n : names) b.createDataArray(n, "t", DataType::Double, NDSize({1})); };
        c.create = [](File &f, const std::string &n) { Block b = f.getBlock("blk"); Tag t = b.getTag("holder"); DataArray a = b.getDataArray(n); if (t.hasReference(a.id())) throw DuplicateName("reference exists"); t.addReference(a); return a.id(); };
        c.count = [](File &f) { return (size_t)parent_of<Tag>("holder", [&]() -> Tag { return f.getBlock("blk").getTag("holder"); }).referenceCount(); };
        c.at = [](File &f, size_t i) { auto e = parent_of<Tag>("holder", [&]() -> Tag { return f.getBlock("blk").getTag("holder"); }).getReference(i); return Child{e.name(), e.id()}; };
        c.by = [](File &f, const std::string &k) { auto e = parent_of<Tag>("holder", [&]() -> Tag { return f.getBlock("blk").getTag("holder"); }).getReference(k); return e ? e.id() : std::string(); };
        c.has = [](File &f, const std::string &k) { return parent_of<Tag>("holder", [&]() -> Tag { return f.getBlock("blk").getTag("holder"); }).hasReference(k); };
        c.has_handle = [](File &f, size_t i) { Tag t = parent_of<Tag>("holder", [&]() -> Tag { return f.getBlock("blk").getTag("holder"); }); return t.hasReference(t.getReference(i)); };
        c.del = [](File &f, const std::string &k) { return parent_of<Tag>("holder", [&]() -> Tag { return f.getBlock("blk").getTag("holder"); }).removeReference(k); };
        c.del_handle = [](File &f, size_t i) { Tag t = parent_of<Tag>("holder", [&]() -> Tag { return f.getBlock("blk").getTag("holder"); }); return t.removeReference(t.getReference(i)); };
        c.list = [](File &f) { std::vector<std::string> v; for (auto &e : parent_of<Tag>("holder", [&]() -> Tag { return f.getBlock("blk").getTag("holder"); }).references()) v.push_back(e.id()); return v; };
        conts.push_back(c);
    }
    {
        Cont c; c.name = "MultiTag.references"; c.link = true;
        c.setup = [](File &f, const std::vector<std::string> &names) { Block b = f.createBlock("blk", "t"); DataArray p = b.createDataArray("positions", "t", DataType::Double, NDSize({2})); b.createMultiTag("holder", "t", p); for (auto &n : names) b.createDataArray(n, "t", DataType::Double, NDSize({1})); };
        c.create = [](File &f, const std::string &n) { Block b = f.getBlock("blk"); MultiTag t = b.getMultiTag("holder"); DataArray a = b.getDataArray(n); if (t.hasReference(a.id())) throw DuplicateName("reference exists"); t.addReference(a); return a.id(); };
        c.count = [](File &f) { return (size_t)parent_of<MultiTag>("holder", [&]() -> MultiTag { return f.getBlock("blk").getMultiTag("holder"); }).referenceCount(); };
        c.at = [](File &f, size_t i) { auto e = parent_of<MultiTag>("holder", [&]() -> MultiTag { return f.getBlock("blk").getMultiTag("holder"); }).getReference(i); return Child{e.name(), e.id()}; };
        c.by = [](File &f, const std::string &k) { auto e = parent_of<MultiTag>("holder", [&]() -> MultiTag { return f.getBlock("blk").getMultiTag("holder"); }).getReference(k); return e ? e.id() : std::string(); };
        c.has = [](File &f, const std::string &k) { return parent_of<MultiTag>("holder", [&]() -> MultiTag { return f.getBlock("blk").getMultiTag("holder"); }).hasReference(k); };
        c.has_handle = [](File &f, size_t i) { MultiTag t = parent_of<MultiTag>("holder", [&]() -> MultiTag { return f.getBlock("blk").getMultiTag("holder"); }); return t.hasReference(t.getReference(i)); };
        c.del = [](File &f, const std::string &k) { return parent_of<MultiTag>("holder", [&]() -> MultiTag { return f.getBlock("blk").getMultiTag("holder"); }).removeReference(k); };
        c.del_handle = [](File &f, size_t i) { MultiTag t = parent_of<MultiTag>("holder", [&]() -> MultiTag { return f.getBlock("blk").getMultiTag("holder"); }); return t.removeReference(t.getReference(i)); };
        c.list = [](File &f) { std::vector<std::string> v; for (auto &e : parent_of<MultiTag>("holder", [&]() -> MultiTag { return f.getBlock("blk").getMultiTag("holder"); }).references()) v.push_back(e.id()); return v; };
        conts.push_back(c);
    }
    {
        Cont c; c.name = "Group.dataArrays"; c.link = true;
        c.setup = [](File &f, const std::vector<std::string> &names) { Block b = f.createBlock("blk", "t"); b.createGroup("holder", "t"); for (auto &n : names) b.createDataArray(n, "t", DataType::Double, NDSize({1})); };
        c.create = [](File &f, const std::string &n) { Block b = f.getBlock("blk"); Group g = b.getGroup("holder"); DataArray a = b.getDataArray(n); if (g.hasDataArray(a.id())) throw DuplicateName("member exists"); g.addDataArray(a); return a.id(); };
        c.count = [](File &f) { return (size_t)parent_of<Group>("holder", [&]() -> Group { return f.getBlock("blk").getGroup("holder"); }).dataArrayCount(); };
        c.at = [](File &f, size_t i) { auto e = parent_of<Group>("holder", [&]() -> Group { return f.getBlock("blk").getGroup("holder"); }).getDataArray(i); return Child{e.name(), e.id()}; };
        c.by = [](File &f, const std::string &k) { auto e = parent_of<Group>("holder", [&]() -> Group { return f.getBlock("blk").getGroup("holder"); }).getDataArray(k); return e ? e.id() : std::string(); };
        c.has = [](File &f, const std::string &k) { return parent_of<Group>("holder", [&]() -> Group { return f.getBlock("blk").getGroup("holder"); }).hasDataArray(k); };
        c.has_handle = [](File &f, size_t i) { Group g = parent_of<Group>("holder", [&]() -> Group { return f.getBlock("blk").getGroup("holder"); }); return g.hasDataArray(g.getDataArray(i)); };
        c.del = [](File &f, const std::string &k) { return parent_of<Group>("holder", [&]() -> Group { return f.getBlock("blk").getGroup("holder"); }).removeDataArray(k); };
        c.del_handle = [](File &f, size_t i) { Group g = parent_of<Group>("holder", [&]() -> Group { return f.getBlock("blk").getGroup("holder"); }); return g.removeDataArray(g.getDataArray(i)); };
        c.list = [](File &f) { std::vector<std::string> v; for (auto &e : parent_of<Group>("holder", [&]() -> Group { return f.getBlock("blk").getGroup("holder"); }).dataArrays()) v.push_back(e.id()); return v; };
        conts.push_back(c);
    }
    {
        Cont c; c.name = "Group.tags"; c.link = true;
        c.setup = [](File &f, const std::vector<std::string> &names) { Block b = f.createBlock("blk", "t"); b.createGroup("holder", "t"); for (auto &n : names) b.createTag(n, "t", {1.0}); };
        c.create = [](File &f, const std::string &n) { Block b = f.getBlock("blk"); Group g = b.getGroup("holder"); Tag a = b.getTag(n); if (g.hasTag(a.id())) throw DuplicateName("member exists"); g.addTag(a); return a.id(); };
        c.count = [](File &f) { return (size_t)parent_of<Group>("holder", [&]() -> Group { return f.getBlock("blk").getGroup("holder"); }).tagCount(); };
        c.at = [](File &f, size_t i) { auto e = parent_of<Group>("holder", [&]() -> Group { return f.getBlock("blk").getGroup("holder"); }).getTag(i); return Child{e.name(), e.id()}; };
        c.by = [](File &f, const std::string &k) { auto e = parent_of<Group>("holder", [&]() -> Group { return f.getBlock("blk").getGroup("holder"); }).getTag(k); return e ? e.id() : std::string(); };
        c.has = [](File &f, const std::string &k) { return parent_of<Group>("holder", [&]() -> Group { return f.getBlock("blk").getGroup("holder"); }).hasTag(k); };
        c.has_handle = [](File &f, size_t i) { Group g = parent_of<Group>("holder", [&]() -> Group { return f.getBlock("blk").getGroup("holder"); }); return g.hasTag(g.getTag(i)); };
        c.del = [](File &f, const std::string &k) { return parent_of<Group>("holder", [&]() -> Group { return f.getBlock("blk").getGroup("holder"); }).removeTag(k); };
        c.del_handle = [](File &f, size_t i) { Group g = parent_of<Group>("holder", [&]() -> Group { return f.getBlock("blk").getGroup("holder"); }); return g.removeTag(g.getTag(i)); };
        c.list = [](File &f) { std::vector<std::string> v; for (auto &e : parent_of<Group>("holder", [&]() -> Group { return f.getBlock("blk").getGroup("holder"); }).tags()) v.push_back(e.id()); return v; };
        conts.push_back(c);
    }
    {
        Cont c; c.name = "DataArray.sources"; c.link = true; c.by_name = false;   // entity sources are addressed by id only
        c.setup = [](File &f, const std::vector<std::string> &names) { Block b = f.createBlock("blk", "t"); b.createDataArray("holder", "t", DataType::Double, NDSize({1})); for (auto &n : names) b.createSource(n, "t"); };
        c.create = [](File &f, const std::string &n) { Block b = f.getBlock("blk"); DataArray h = b.getDataArray("holder"); Source s = b.getSource(n); if (h.hasSource(s.id())) throw DuplicateName("source attached"); h.addSource(s); return s.id(); };
        c.count = [](File &f) { return (size_t)parent_of<DataArray>("holder", [&]() -> DataArray { return f.getBlock("blk").getDataArray("holder"); }).sourceCount(); };
        c.at = [](File &f, size_t i) { auto e = parent_of<DataArray>("holder", [&]() -> DataArray { return f.getBlock("blk").getDataArray("holder"); }).getSource(i); return Child{e.name(), e.id()}; };
        c.by = [](File &f, const std::string &k) { auto e = parent_of<DataArray>("holder", [&]() -> DataArray { return f.getBlock("blk").getDataArray("holder"); }).getSource(k); return e ? e.id() : std::string(); };
        c.has = [](File &f, const std::string &k) { return parent_of<DataArray>("holder", [&]() -> DataArray { return f.getBlock("blk").getDataArray("holder"); }).hasSource(k); };
        c.has_handle = [](File &f, size_t i) { DataArray h = parent_of<DataArray>("holder", [&]() -> DataArray { return f.getBlock("blk").getDataArray("holder"); }); return h.hasSource(h.getSource(i)); };
        c.del = [](File &f, const std::string &k) { return parent_of<DataArray>("holder", [&]() -> DataArray { return f.getBlock("blk").getDataArray("holder"); }).removeSource(k); };
        c.del_handle = [](File &f, size_t i) { DataArray h = parent_of<DataArray>("holder", [&]() -> DataArray { return f.getBlock("blk").getDataArray("holder"); }); return h.removeSource(h.getSource(i)); };
        c.list = [](File &f) { std::vector<std::string> v; for (auto &e : parent_of<DataArray>("holder", [&]() -> DataArray { return f.getBlock("blk").getDataArray("holder"); }).sources()) v.push_back(e.id()); return v; };
        conts.push_back(c);
    }
    {
        // features: entities with an id of their own, addressed by id (the data array's name is the "name" here:
        // getFeature(name_or_id) also accepts the name or id of the linked data array)
        Cont c; c.name = "Tag.features"; c.link = true;
        c.setup = [](File &f, const std::vector<std::string> &names) { Block b = f.createBlock("blk", "t"); b.createTag("holder", "t", {1.0}); for (auto &n : names) b.createDataArray(n, "t", DataType::Double, NDSize({1})); };
        c.create = [](File &f, const std::string &n) { Block b = f.getBlock("blk"); Tag t = b.getTag("holder"); DataArray a = b.getDataArray(n); if (t.hasFeature(a.id())) throw DuplicateName("feature exists"); return t.createFeature(a, LinkType::Untagged).id(); };
        c.count = [](File &f) { return (size_t)parent_of<Tag>("holder", [&]() -> Tag { return f.getBlock("blk").getTag("holder"); }).featureCount(); };
        c.at = [](File &f, size_t i) { auto e = parent_of<Tag>("holder", [&]() -> Tag { return f.getBlock("blk").getTag("holder"); }).getFeature(i); return Child{e.data().name(), e.id()}; };
        c.by = [](File &f, const std::string &k) { auto e = parent_of<Tag>("holder", [&]() -> Tag { return f.getBlock("blk").getTag("holder"); }).getFeature(k); return e ? e.id() : std::string(); };
        c.has = [](File &f, const std::string &k) { return parent_of<Tag>("holder", [&]() -> Tag { return f.getBlock("blk").getTag("holder"); }).hasFeature(k); };
        c.has_handle = [](File &f, size_t i) { Tag t = parent_of<Tag>("holder", [&]() -> Tag { return f.getBlock("blk").getTag("holder"); }); return t.hasFeature(t.getFeature(i)); };
        c.del = [](File &f, const std::string &k) { return parent_of<Tag>("holder", [&]() -> Tag { return f.getBlock("blk").getTag("holder"); }).deleteFeature(k); };
        c.del_handle = [](File &f, size_t i) { Tag t = parent_of<Tag>("holder", [&]() -> Tag { return f.getBlock("blk").getTag("holder"); }); return t.deleteFeature(t.getFeature(i)); };
        c.list = [](File &f) { std::vector<std::string> v; for (auto &e : parent_of<Tag>("holder", [&]() -> Tag { return f.getBlock("blk").getTag("holder"); }).features()) v.push_back(e.id()); return v; };
        conts.push_back(c);
    }
    return conts;
}

// ---- steps ----
struct Step { int kind; int arg; int mode; };   // kind 0 create(name idx) ; 1 delete(child pos selector, mode 0 name/1 id/2 handle) ; 2 reopen
static const char *MODE[] = {"by name", "by id", "by handle"};

static const std::string UUIDNAME = "0f1e2d3c-4b5a-6978-8796-a5b4c3d2e1f0";
static std::vector<std::string> name_pool(bool thorough) {
    std::vector<std::string> p = {"a", "A", "a ", "..", "\xc3\xa4", UUIDNAME};
    if (thorough) { p.push_back(std::string(200, 'n')); p.push_back("b c"); }
    return p;
}

static std::string step_str(const std::vector<std::string> &pool, const Step &s) {
    if (s.kind == 0) return "create(" + vf::jstr(pool[s.arg]) + ")";
    if (s.kind == 1) return std::string("delete(child[") + (s.arg == 0 ? "first" : s.arg == 1 ? "last" : "middle") + "]," + MODE[s.mode] + ")";
    return "REOPEN";
}

static std::string name_class(const std::string &n) {
    if (n == UUIDNAME) return "UUID-shaped name";
    if (n.size() > 100) return "long name";
    for (unsigned char ch : n) if (ch >= 0x80) return "UTF-8 name";
    if (n == "..") return "name '..'";
    if (n.find(' ') != std::string::npos) return "name with blank";
    return "plain name";
}

struct Runner {
    const Cont &c;
    std::vector<std::string> pool;   // (by value: the length sweep swaps it per step)
    std::string path;
    long traces;
    Runner(const Cont &c_, const std::vector<std::string> &p_, const std::string &path_) : c(c_), pool(p_), path(path_), traces(0) {}

    // executes the steps on a fresh file; checks every invariant after the LAST step (prefixes are traces of their own)
    // returns false if the last step was rejected / not applicable (the trace is not extended)
    bool via_kept = false;
    // the witness handle is obtained now and asked every question once (so anything it memoises, it memoises now)
    void warm(File &f) {
        g_kept.clear(); g_use_kept = true;
        vf::guarded([&] { c.count(f); c.list(f); for (auto &nm : pool) { vf::guarded([&] { c.has(f, nm); }); vf::guarded([&] { c.by(f, nm); }); } });
        g_use_kept = false;
    }
    bool run(int seed_children, const std::vector<Step> &steps, std::vector<Child> *model_out) {
        g_kept.clear();
        struct Drop { ~Drop() { g_kept.clear(); g_use_kept = false; } } drop;   // witness handles never outlive the trace's file
        vf::set_clock(1500000000);
        File f = File::open(path, FileMode::Overwrite);
        c.setup(f, pool);
        std::vector<Child> model;
        for (int i = 0; i < seed_children; i++) { std::string n = "p" + std::to_string(i); if (c.link) continue; model.push_back(Child{n, c.create(f, n)}); }
        if (c.link) for (int i = 0; i < seed_children && i < (int)pool.size(); i++) model.push_back(Child{pool[i], c.create(f, pool[i])});
        bool extended = true;
        warm(f);
        for (size_t si = 0; si < steps.size(); si++) {
            const Step &s = steps[si];
            bool last = si + 1 == steps.size();
            vf::set_clock(1500000000 + (long)si + 1);
            std::string ctx = c.name + " " + step_str(pool, s);
            if (s.kind == 2) { g_kept.clear(); f.close(); f = File::open(path, FileMode::ReadWrite); warm(f); }
            else if (s.kind == 0) {
                const std::string &n = pool[s.arg];
                bool present = false;
                for (auto &m : model) if (m.name == n) present = true;
                std::string id, what;
                std::string exc = vf::guarded([&] { id = c.create(f, n); }, &what);
                if (present) {
                    if (last) {
                        vf::count("duplicate_creates");
                        if (exc.empty()) vf::violation("C03|" + c.name + "|create|duplicate name accepted|" + name_class(n), ctx + ": a second child named " + vf::jstr(n) + " was created");
                    }
                    if (exc.empty()) model.push_back(Child{n, id});   // keep the model aligned with what happened
                    if (last) extended = false;
                } else if (!exc.empty()) {
                    // whether a legal-looking name is accepted is not asserted (DESIGN 5/C03); a rejected create must change nothing
                    if (last) { vf::count("rejected_creates"); vf::distinct("outcomes", c.name + "|create rejected|" + name_class(n) + "|" + exc); extended = false; }
                } else model.push_back(Child{n, id});
            } else {
                if (model.empty()) { if (last) return false; continue; }
                size_t k = s.arg == 0 ? 0 : s.arg == 1 ? model.size() - 1 : model.size() / 2;
                if ((s.arg == 1 && model.size() < 2) || (s.arg == 2 && (model.size() < 3))) { if (last) return false; continue; }
                if (s.mode == 0 && !c.by_name) { if (last) return false; continue; }
                bool r = false; std::string what;
                std::string exc = vf::guarded([&] {
                    if (s.mode == 0) r = c.del(f, model[k].name); else if (s.mode == 1) r = c.del(f, model[k].id);
                    else {
                        // the handle is fetched by index k: if the index getter is off, the model follows the handle
                        r = c.del_handle(f, k);
                    }
                }, &what);
                if (last && (!exc.empty() || !r))
                    vf::violation("C03|" + c.name + "|delete " + MODE[s.mode] + "|" + name_class(model[k].name) + "|" + (exc.empty() ? "returned false" : "throws " + exc),
                                  ctx + ": deleting existing child " + vf::jstr(model[k].name) + " " + (exc.empty() ? "returned false" : "threw " + exc + ": " + what));
                if (exc.empty() && r) model.erase(model.begin() + k);
                else if (last) extended = false;
            }
        }
        if (!steps.empty()) {
            check(f, model, steps);
            via_kept = true; g_use_kept = true;
            check(f, model, steps);
            via_kept = false; g_use_kept = false;
        }
        g_kept.clear();
        f.close();
        if (model_out) *model_out = model;
        traces++;
        return extended;
    }

    void check(File &f, const std::vector<Child> &model, const std::vector<Step> &steps) {
        std::string last = step_str(pool, steps.back());
        std::string lastkind = steps.back().kind == 0 ? "create" : steps.back().kind == 1 ? std::string("delete ") + MODE[steps.back().mode] : "REOPEN";
        auto V = [&](const std::string &assertion, const std::string &cls, const std::string &what) {
            vf::violation("C03|" + c.name + "|after " + lastkind + "|" + assertion + (via_kept ? " through a parent handle obtained before the steps" : "") + "|" + cls, c.name + ": " + what + " (last step " + last + ")");
        };
        vf::count("invariant_checks");
        size_t n = 0;
        std::string exc = vf::guarded([&] { n = c.count(f); });
        if (!exc.empty()) { V("count throws", exc, "count() throws"); return; }
        if (n != model.size()) V("count differs from model", n > model.size() ? "too large" : "too small", "count()=" + std::to_string(n) + " model has " + std::to_string(model.size()));
        std::vector<std::string> ids;
        exc = vf::guarded([&] { ids = c.list(f); });
        if (!exc.empty()) V("enumeration throws", exc, "enumeration throws");
        else {
            std::vector<std::string> want; for (auto &m : model) want.push_back(m.id);
            if (ids != want) {
                std::vector<std::string> a = ids, b = want; std::sort(a.begin(), a.end()); std::sort(b.begin(), b.end());
                V("enumeration differs from model", a == b ? "order" : "membership", "enumeration ids " + vf::jvecs(ids) + " expected (creation order) " + vf::jvecs(want));
            }
        }
        for (size_t i = 0; i < model.size() && i < n; i++) {
            const Child &m = model[i];
            std::string nc = name_class(m.name);
            Child got;
            exc = vf::guarded([&] { got = c.at(f, i); });
            if (!exc.empty()) { V("get(index) throws", nc, "get(" + std::to_string(i) + ") throws " + exc); continue; }
            if (got.id != m.id || got.name != m.name) V("get(index) is not the i-th child in creation order", nc, "get(" + std::to_string(i) + ") = " + vf::jstr(got.name) + " expected " + vf::jstr(m.name));
            std::string byid, byname;
            exc = vf::guarded([&] { byid = c.by(f, m.id); });
            if (!exc.empty() || byid != m.id) V("get(id) disagrees", nc, "get(id of " + vf::jstr(m.name) + ") -> " + (exc.empty() ? vf::jstr(byid) : exc));
            bool h = false;
            exc = vf::guarded([&] { h = c.has(f, m.id); });
            if (!exc.empty() || !h) V("has(id) is false", nc, "has(id of " + vf::jstr(m.name) + ")");
            exc = vf::guarded([&] { h = c.has_handle(f, i); });
            if (!exc.empty() || !h) V("has(handle) is false", nc, "has(handle of " + vf::jstr(m.name) + ")" + exc);
            if (c.by_name) {
                exc = vf::guarded([&] { byname = c.by(f, m.name); });
                if (!exc.empty() || byname != m.id) V("get(name) disagrees", nc, "get(" + vf::jstr(m.name) + ") -> " + (exc.empty() ? vf::jstr(byname) : exc));
                exc = vf::guarded([&] { h = c.has(f, m.name); });
                if (!exc.empty() || !h) V("has(name) is false", nc, "has(" + vf::jstr(m.name) + ")");
            }
            vf::count("lookups", 6);
        }
        // absent names / ids find nothing
        for (auto &nm : pool) {
            bool present = false;
            for (auto &m : model) if (m.name == nm) present = true;
            if (present || !c.by_name) continue;
            bool h = true; std::string id = "x";
            exc = vf::guarded([&] { h = c.has(f, nm); });
            if (exc.empty() && h) V("has(name) true for an absent name", name_class(nm), "has(" + vf::jstr(nm) + ") although no such child exists");
            exc = vf::guarded([&] { id = c.by(f, nm); });
            if (exc.empty() && !id.empty()) V("get(name) finds an absent name", name_class(nm), "get(" + vf::jstr(nm) + ") returned an entity");
            vf::count("lookups", 2);
        }
        std::string mk;
        for (auto &m : model) mk += m.name + "\x1f";
        vf::distinct("states", c.name + "|" + mk);
    }
};

int main(int argc, char **argv) {
    vf::init(argc, argv, "C03");
    const bool thorough = vf::opt.tier == "thorough";
    std::vector<Cont> conts = make_containers();
    std::vector<std::string> pool = name_pool(thorough);
    int depth = atoi(vf::opt.extra.count("depth") ? vf::opt.extra["depth"].c_str() : (thorough ? "4" : "3"));

    // the step alphabet
    std::vector<Step> alpha;
    for (int i = 0; i < (int)pool.size(); i++) alpha.push_back(Step{0, i, 0});
    for (int sel = 0; sel < 3; sel++) for (int m = 0; m < 3; m++) alpha.push_back(Step{1, sel, m});
    alpha.push_back(Step{2, 0, 0});

    long caseno = 0;
    for (size_t ci = 0; ci < conts.size(); ci++) {
        for (int seedn : {0, 2}) {
            // the subtree below each first step is one case (unit of sharding and crash attribution)
            for (size_t first = 0; first < alpha.size(); first++) {
                long cid = caseno++;
                if (!vf::take_case(cid)) continue;
                Runner R(conts[ci], pool, vf::scratch_file("c03.h5"));
                vf::case_desc(conts[ci].name + " seed=" + std::to_string(seedn) + " children, sequences starting with " + step_str(pool, alpha[first]) + ", depth " + std::to_string(depth));
                // depth-first enumeration of all step sequences
                std::vector<Step> seq = {alpha[first]};
                std::function<void()> rec = [&]() {
                    if (vf::deadline_hit()) return;
                    bool ext = R.run(seedn, seq, nullptr);
                    vf::count("traces");
                    if (ext) vf::count("transitions");
                    if (!ext || (int)seq.size() >= depth) return;
                    for (const Step &s : alpha) {
                        if (s.kind == 2 && seq.back().kind == 2) continue;
                        seq.push_back(s); rec(); seq.pop_back();
                    }
                };
                rec();
                if (first == 0 && seedn == 0 && ci < 3) vf::sample(vf::jstr(conts[ci].name + ": " + step_str(pool, alpha[first]) + " ; delete(child[first],by id) ; create(\"a\")"), 6);
            }
        }
    }
    // ---- name-length sweep: names of every length 1..Lmax (paths cross every internal buffer size), sliding window of
    //      siblings so that the name one shorter / one longer exists when an entity is deleted
    {
        const size_t LMAX = thorough ? 600 : 300;
        for (size_t ci = 0; ci < conts.size(); ci++) {
            if (conts[ci].link) continue;
            long cid = caseno++;
            if (!vf::take_case(cid)) continue;
            const Cont &c = conts[ci];
            vf::case_desc(c.name + ": name-length sweep 1.." + std::to_string(LMAX));
            std::vector<std::string> nopool;
            Runner R(c, nopool, vf::scratch_file("c03len.h5"));
            vf::set_clock(1500000000);
            File f = File::open(R.path, FileMode::Overwrite);
            c.setup(f, nopool);
            std::vector<Child> model;
            auto nm = [](size_t L) { std::string s(L, 'x'); for (size_t i = 0; i < L; i++) s[i] = (char)('a' + (i * 7 + L) % 26); return s; };
            bool ok = true;
            for (size_t L = 1; L <= LMAX && ok; L++) {
                std::string n = nm(L), what;
                std::string id;
                std::string exc = vf::guarded([&] { id = c.create(f, n); }, &what);
                if (!exc.empty()) { vf::distinct("outcomes", c.name + "|create rejected|name of length " + std::to_string(L)); vf::count("rejected_creates"); continue; }   // acceptance of a name is not asserted
                model.push_back(Child{n, id});
                std::vector<Step> st = {Step{0, 0, 0}};
                R.pool = {n};
                R.check(f, model, st);
                if (model.size() >= 3) {
                    // delete the middle one of (L-2, L-1, L): both neighbours in length exist
                    size_t k = model.size() - 2;
                    bool r = false;
                    int mode = (int)(L % 3);
                    exc = vf::guarded([&] { r = mode == 0 ? c.del(f, model[k].name) : mode == 1 ? c.del(f, model[k].id) : c.del_handle(f, k); }, &what);
                    vf::count("transitions");
                    if (!exc.empty() || !r) { vf::violation("C03|" + c.name + "|delete " + MODE[mode] + "|name-length sweep|" + (exc.empty() ? "returned false" : "throws " + exc), c.name + ": deleting the child whose name has " + std::to_string(model[k].name.size()) + " characters: " + what); ok = false; break; }
                    model.erase(model.begin() + k);
                    std::vector<Step> sd = {Step{1, 2, mode}};
                    R.pool = {n};
                    R.check(f, model, sd);
                }
                if (L % 50 == 0) { f.close(); f = File::open(R.path, FileMode::ReadWrite); std::vector<Step> sr = {Step{2, 0, 0}}; R.check(f, model, sr); }
                vf::count("traces");
            }
            f.close();
        }
    }
    vf::note("depth", std::to_string(depth));
    vf::note("containers", std::to_string(conts.size()));
    vf::note("name_pool", vf::jvecs(pool));
    return vf::finish();
}
