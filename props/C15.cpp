// C15 — DataFrame cells round trip through row, cell and column access.
//
// Explicit-state exploration (E1) per column schema (every single-type schema of 1 and 2 columns over Bool, Int32,
// UInt32, Int64, UInt64, Double, String; two mixed 3-column schemas; one mixed 8-column schema; with units): every
// sequence (up to the depth bound) of
//   rows(n in 0..3) | writeRow(r) | writeCell(r,c) | writeCells(r, subset by name | by index | mixed) |
//   writeColumn(c, vals, offset, count) inside / touching / past the end of the rows / empty | REOPEN
// from an empty frame and from a frame with two fully written rows, each sequence replayed on a fresh file.
// Reference model: a grid rows x columns (unwritten = 0 / false / ""; shrinking drops rows, growing adds zero rows; a
// column write that does not fit into the rows must throw and change nothing; for an empty column write only "changes
// nothing" is asserted).  Row / cell writes to rows that do not exist, values of another type than the column and rows
// with a wrong number of values are outside the statement and not generated.
// After the LAST step of every sequence (every prefix is a sequence of its own, so this is "after every step") a
// handle kept alive across the steps and a freshly fetched handle are both read and compared with the grid for every
// cell.  One of the two (alternating with the sequence) goes through every read path: readRow, readCell by index and by
// name, readCells (all names, reversed, subset), readColumn by name / by index with resize on / off, with offsets, into
// short and into over-long pre-sized vectors and with an explicit count; the other one through readRow and a whole
// readColumn per column.  Both: rows(), columns() (names, units, types, order), colIndex / colName (scalar and vector).
// A cell that every path reads wrongly in the same way is reported against the last operation (what is stored is not
// what the history says); a path that disagrees with the others is reported against that read path.
// Every written value is distinct within a sequence (a counter mapped into the type's domain, interleaved with the
// type's extreme values: INT_MIN/MAX, UINT64_MAX, NaN with payload, +-inf, -0.0, "", UTF-8, 300 characters ...; doubles
// are compared bitwise); every read buffer is pre-filled with sentinels.  A sequence is not extended past the first
// step after which something is wrong.
#include <nix.hpp>
#include <algorithm>
#include <cstring>
#include <climits>
#include <cfloat>
#include <cmath>
#include <limits>
#include "vf.hpp"

using namespace nix;

// ---------------------------------------------------------------- values
struct Val {
    DataType t = DataType::Nothing;
    bool b = false;
    int64_t i = 0;      // Int32, Int64
    uint64_t u = 0;     // UInt32, UInt64
    double d = 0.0;
    std::string s;
    std::string cls = "zero";   // class of the value (for signatures and coverage)
};

static const char *tname(DataType t) {
    switch (t) {
    case DataType::Bool: return "Bool"; case DataType::Int32: return "Int32"; case DataType::UInt32: return "UInt32";
    case DataType::Int64: return "Int64"; case DataType::UInt64: return "UInt64"; case DataType::Double: return "Double";
    case DataType::String: return "String"; case DataType::Nothing: return "Nothing"; default: return "other";
    }
}

static uint64_t dbits(double d) { uint64_t u; std::memcpy(&u, &d, sizeof u); return u; }
static double bitsd(uint64_t u) { double d; std::memcpy(&d, &u, sizeof d); return d; }

// injective rendering: type + payload (doubles by bit pattern)
static std::string key(const Val &v) {
    char buf[80];
    switch (v.t) {
    case DataType::Bool: return std::string("Bool:") + (v.b ? "true" : "false");
    case DataType::Int32: return "Int32:" + std::to_string(v.i);
    case DataType::Int64: return "Int64:" + std::to_string(v.i);
    case DataType::UInt32: return "UInt32:" + std::to_string(v.u);
    case DataType::UInt64: return "UInt64:" + std::to_string(v.u);
    case DataType::Double: snprintf(buf, sizeof buf, "Double:0x%016llx(%.17g)", (unsigned long long)dbits(v.d), v.d); return buf;
    case DataType::String: return "String:" + v.s;
    default: return std::string(tname(v.t)) + ":?";
    }
}
static std::string shorten(const std::string &k) {
    if (k.size() <= 48) return k;
    return k.substr(0, 32) + "...(" + std::to_string(k.size()) + " bytes)";
}
static std::string show(const Val &v) { return shorten(key(v)); }

static Val zero_of(DataType t) { Val v; v.t = t; return v; }

static Variant to_variant(const Val &v) {
    switch (v.t) {
    case DataType::Bool: return Variant(v.b);
    case DataType::Int32: return Variant((int32_t)v.i);
    case DataType::Int64: return Variant((int64_t)v.i);
    case DataType::UInt32: return Variant((uint32_t)v.u);
    case DataType::UInt64: return Variant((uint64_t)v.u);
    case DataType::Double: return Variant(v.d);
    case DataType::String: return Variant(v.s);
    default: return Variant();
    }
}
static Val from_variant(const Variant &x) {
    Val v; v.t = x.type(); v.cls = "read";
    switch (v.t) {
    case DataType::Bool: x.get(v.b); break;
    case DataType::Int32: { int32_t t; x.get(t); v.i = t; break; }
    case DataType::Int64: { int64_t t; x.get(t); v.i = t; break; }
    case DataType::UInt32: { uint32_t t; x.get(t); v.u = t; break; }
    case DataType::UInt64: { uint64_t t; x.get(t); v.u = t; break; }
    case DataType::Double: x.get(v.d); break;
    case DataType::String: x.get(v.s); break;
    default: break;
    }
    return v;
}

// native element types of the column access path
template <typename T> struct Nat;
#define NAT_INT(T, DT, FIELD, SENT)                                                                   \
    template <> struct Nat<T> {                                                                       \
        static DataType dt() { return DataType::DT; }                                                 \
        static T get(const Val &v) { return (T)v.FIELD; }                                             \
        static Val mk(const T &x) { Val v; v.t = DataType::DT; v.FIELD = x; v.cls = "read"; return v; } \
        static T sentinel() { return (T)SENT; }                                                       \
    };
NAT_INT(int32_t, Int32, i, 0x5A5A5A5A)
NAT_INT(uint32_t, UInt32, u, 0xA5A5A5A5u)
NAT_INT(int64_t, Int64, i, 0x5A5A5A5A5A5A5A5ALL)
NAT_INT(uint64_t, UInt64, u, 0xA5A5A5A5A5A5A5A5ULL)
template <> struct Nat<double> {
    static DataType dt() { return DataType::Double; }
    static double get(const Val &v) { return v.d; }
    static Val mk(const double &x) { Val v; v.t = DataType::Double; v.d = x; v.cls = "read"; return v; }
    static double sentinel() { return -777.25; }
};
template <> struct Nat<std::string> {
    static DataType dt() { return DataType::String; }
    static std::string get(const Val &v) { return v.s; }
    static Val mk(const std::string &x) { Val v; v.t = DataType::String; v.s = x; v.cls = "read"; return v; }
    static std::string sentinel() { return "\x01SENTINEL\x02"; }
};
static std::string sentinel_key(DataType t) {
    switch (t) {
    case DataType::Int32: return key(Nat<int32_t>::mk(Nat<int32_t>::sentinel()));
    case DataType::UInt32: return key(Nat<uint32_t>::mk(Nat<uint32_t>::sentinel()));
    case DataType::Int64: return key(Nat<int64_t>::mk(Nat<int64_t>::sentinel()));
    case DataType::UInt64: return key(Nat<uint64_t>::mk(Nat<uint64_t>::sentinel()));
    case DataType::Double: return key(Nat<double>::mk(Nat<double>::sentinel()));
    case DataType::String: return key(Nat<std::string>::mk(Nat<std::string>::sentinel()));
    default: return "";
    }
}

#define DISPATCH(DT, CALL)                                  \
    switch (DT) {                                           \
    case DataType::Int32: CALL(int32_t); break;             \
    case DataType::UInt32: CALL(uint32_t); break;           \
    case DataType::Int64: CALL(int64_t); break;             \
    case DataType::UInt64: CALL(uint64_t); break;           \
    case DataType::Double: CALL(double); break;             \
    case DataType::String: CALL(std::string); break;        \
    default: break;                                         \
    }

// ---- the value generator: distinct values per sequence; extremes of the type interleaved with counter values ----
static Val mkI(DataType t, int64_t x, const char *cls) { Val v; v.t = t; v.i = x; v.cls = cls; return v; }
static Val mkU(DataType t, uint64_t x, const char *cls) { Val v; v.t = t; v.u = x; v.cls = cls; return v; }
static Val mkD(double x, const char *cls) { Val v; v.t = DataType::Double; v.d = x; v.cls = cls; return v; }
static Val mkS(const std::string &x, const char *cls) { Val v; v.t = DataType::String; v.s = x; v.cls = cls; return v; }

static const std::vector<Val> &extremes(DataType t) {
    static std::map<int, std::vector<Val>> E;
    if (E.empty()) {
        E[(int)DataType::Bool] = {};
        E[(int)DataType::Int32] = {mkI(DataType::Int32, INT32_MIN, "min"), mkI(DataType::Int32, INT32_MAX, "max"), mkI(DataType::Int32, -1, "-1"), mkI(DataType::Int32, 0, "explicit zero")};
        E[(int)DataType::UInt32] = {mkU(DataType::UInt32, UINT32_MAX, "max"), mkU(DataType::UInt32, 0x80000000u, "sign bit"), mkU(DataType::UInt32, 0, "explicit zero")};
        E[(int)DataType::Int64] = {mkI(DataType::Int64, INT64_MIN, "min"), mkI(DataType::Int64, INT64_MAX, "max"), mkI(DataType::Int64, -1, "-1"), mkI(DataType::Int64, 0, "explicit zero")};
        E[(int)DataType::UInt64] = {mkU(DataType::UInt64, UINT64_MAX, "max"), mkU(DataType::UInt64, 0x8000000000000000ULL, "sign bit"), mkU(DataType::UInt64, 0, "explicit zero")};
        E[(int)DataType::Double] = {mkD(std::numeric_limits<double>::quiet_NaN(), "NaN"), mkD(bitsd(0x7ff8000000000123ULL), "NaN with payload"),
                                    mkD(std::numeric_limits<double>::infinity(), "+inf"), mkD(-std::numeric_limits<double>::infinity(), "-inf"),
                                    mkD(-0.0, "-0.0"), mkD(DBL_MAX, "DBL_MAX"), mkD(std::numeric_limits<double>::denorm_min(), "denormal"), mkD(0.0, "explicit zero")};
        std::string longs;
        for (int k = 0; k < 300; k++) longs += (char)('a' + (k * 7) % 26);
        E[(int)DataType::String] = {mkS("", "empty string"), mkS("\xc3\xa4\xe2\x82\xac\xf0\x9d\x84\x9e \xce\xbc", "UTF-8 string"), mkS(longs, "300-char string"),
                                    mkS(" ", "blank"), mkS("line1\nline2\t.", "control characters")};
    }
    return E[(int)t];
}

struct Gen {
    long k = 0;
    uint64_t h = 7;
    std::map<int, std::set<size_t>> used;
    void mix(int a) { h = h * 31 + (uint64_t)a + 1; }
    Val ordinary(DataType t) const {
        bool neg = (k & 1) != 0;
        switch (t) {
        case DataType::Bool: { Val v; v.t = t; v.b = ((h >> 2) + (uint64_t)k) & 1; v.cls = v.b ? "true" : "false"; return v; }
        case DataType::Int32: return mkI(t, (neg ? -1 : 1) * (1000 + 37 * k), "ordinary");
        case DataType::UInt32: return mkU(t, 3000000000u + 41u * (uint64_t)k, "ordinary > INT32_MAX");
        case DataType::Int64: return mkI(t, (neg ? -1 : 1) * (5000000000000LL + 43 * k), "ordinary beyond 32 bit");
        case DataType::UInt64: return mkU(t, 0x8000000000000000ULL + 1000 + 47ULL * (uint64_t)k, "ordinary > INT64_MAX");
        case DataType::Double: return mkD((neg ? -1.0 : 1.0) * ((double)k + 0.5 + (double)k / 1073741824.0), "ordinary");
        case DataType::String: return mkS("v" + std::to_string(k) + std::string((size_t)(k % 5), '#'), "ordinary");
        default: return Val();
        }
    }
    Val next(DataType t) {
        k++;
        const std::vector<Val> &E = extremes(t);
        if (!E.empty() && (h + (uint64_t)k) % 2 == 0) {
            size_t start = (size_t)((h / 2 + (uint64_t)k) % E.size());
            for (size_t j = 0; j < E.size(); j++) {
                size_t idx = (start + j) % E.size();
                if (used[(int)t].insert(idx).second) return E[idx];
            }
        }
        return ordinary(t);
    }
};

// ---------------------------------------------------------------- schemas and steps
struct Sub { std::vector<int> cols; int mode; };   // mode 0 = by name, 1 = by index, 2 = alternating name/index
struct Schema {
    std::string label;
    std::string cls;                 // "single-type" | "mixed"
    std::vector<Column> cols;
    std::vector<Sub> subs;           // writeCells subsets
    std::vector<std::vector<int>> read_subsets;
};

static Column col(const std::string &n, const std::string &u, DataType t) { Column c; c.name = n; c.unit = u; c.dtype = t; return c; }

static std::vector<Schema> make_schemas() {
    std::vector<Schema> S;
    const DataType types[] = {DataType::Bool, DataType::Int32, DataType::UInt32, DataType::Int64, DataType::UInt64, DataType::Double, DataType::String};
    for (DataType t : types) {
        Schema s; s.label = std::string("1x") + tname(t); s.cls = "single-type";
        s.cols = {col("c0", "mV", t)};
        s.subs = {Sub{{0}, 0}};
        s.read_subsets = {{0}};
        S.push_back(s);
    }
    for (DataType t : types) {
        Schema s; s.label = std::string("2x") + tname(t); s.cls = "single-type";
        s.cols = {col("a", "s", t), col("b", "", t)};
        s.subs = {Sub{{1}, 0}, Sub{{0, 1}, 0}, Sub{{1, 0}, 1}, Sub{{1, 0}, 2}};
        s.read_subsets = {{0, 1}, {1, 0}, {1}};
        S.push_back(s);
    }
    {
        Schema s; s.label = "3:Double,String,Bool"; s.cls = "mixed";
        s.cols = {col("t", "ms", DataType::Double), col("name", "", DataType::String), col("ok", "", DataType::Bool)};
        s.subs = {Sub{{2}, 0}, Sub{{0, 2}, 1}, Sub{{2, 0, 1}, 0}, Sub{{1, 2}, 2}};
        s.read_subsets = {{0, 1, 2}, {2, 1, 0}, {1}, {2, 0}};
        S.push_back(s);
    }
    {
        Schema s; s.label = "3:Int32,UInt64,Double"; s.cls = "mixed";
        s.cols = {col("n", "", DataType::Int32), col("big id", "a.u.", DataType::UInt64), col("gr\xc3\xb6\xc3\x9f" "e", "\xc2\xb5m", DataType::Double)};
        s.subs = {Sub{{2}, 0}, Sub{{0, 2}, 1}, Sub{{2, 0, 1}, 0}, Sub{{1, 2}, 2}};
        s.read_subsets = {{0, 1, 2}, {2, 1, 0}, {1}, {2, 0}};
        S.push_back(s);
    }
    {
        Schema s; s.label = "8:Int32,Bool,String,Double,UInt64,Int64,UInt32,String"; s.cls = "mixed";
        s.cols = {col("i32", "mV", DataType::Int32), col("flag", "", DataType::Bool), col("label", "", DataType::String), col("x", "s", DataType::Double),
                  col("u64", "", DataType::UInt64), col("i64", "ms", DataType::Int64), col("u32", "Hz", DataType::UInt32), col("note two", "", DataType::String)};
        s.subs = {Sub{{7, 0}, 0}, Sub{{2, 5, 3}, 1}, Sub{{7, 6, 5, 4, 3, 2, 1, 0}, 0}, Sub{{1, 4, 6}, 2}};
        s.read_subsets = {{0, 1, 2, 3, 4, 5, 6, 7}, {7, 6, 5, 4, 3, 2, 1, 0}, {2, 5}, {1, 7, 3}};
        S.push_back(s);
    }
    {
        // column names that are prefixes of one another (in both orders, different cell types) and units that a unit
        // "sanitizer" would rewrite (blanks, the letters mu, a micro sign)
        Schema s; s.label = "4:Double,Int32,UInt64,String (names prefix one another)"; s.cls = "mixed";
        s.cols = {col("time_ms", "mV / ms", DataType::Double), col("time", "mumol", DataType::Int32), col("lab", "\xc2\xb5V", DataType::UInt64), col("label", " s ", DataType::String)};
        s.subs = {Sub{{1}, 0}, Sub{{3, 1}, 0}, Sub{{2, 0, 1, 3}, 0}, Sub{{1, 2}, 2}};
        s.read_subsets = {{0, 1, 2, 3}, {3, 2, 1, 0}, {1}, {2, 1}};
        S.push_back(s);
    }
    return S;
}

enum Kind { ROWS, WROW, WCELL, WCELLS, WCOL, REOPEN };
struct Step {
    Kind kind;
    int a, b, c, d;   // ROWS: a=n | WROW: a=r | WCELL: a=r b=col | WCELLS: a=r b=subset | WCOL: a=col b=offset c=len d=mode (0 name/default count, 1 index/explicit count)
    int ai;           // index in the alphabet
};
static const int MAXR = 3;

static std::vector<Step> make_alphabet(const Schema &s) {
    std::vector<Step> A;
    const int C = (int)s.cols.size();
    for (int n = 0; n <= MAXR; n++) A.push_back(Step{ROWS, n, 0, 0, 0, 0});
    for (int r = 0; r < MAXR; r++) A.push_back(Step{WROW, r, 0, 0, 0, 0});
    // single cells: every (row, column) up to 3 columns, a diagonal pattern above
    if (C <= 3) { for (int r = 0; r < MAXR; r++) for (int c = 0; c < C; c++) A.push_back(Step{WCELL, r, c, 0, 0, 0}); }
    else for (int c = 0; c < C; c++) A.push_back(Step{WCELL, c % MAXR, c, 0, 0, 0});
    // cell subsets: 1 column: every row; 2-3 columns: (row, subset) pairs in a checkerboard; above: subset k on row k mod 3
    for (int r = 0; r < MAXR; r++) for (int k = 0; k < (int)s.subs.size(); k++) {
        bool take = C == 1 ? true : C <= 3 ? (r + k) % 2 == 0 : r == k % MAXR;
        if (take) A.push_back(Step{WCELLS, r, k, 0, 0, 0});
    }
    // (offset, len): relative to the current row count these are inside, touching or past the end; (0,0) is the empty write.
    // 1 column: all 9; 2 columns: all 9 on the second, 4 on the first; more: 3 per column, rotating through the list.
    static const int P[][2] = {{0, 1}, {0, 2}, {0, 3}, {1, 1}, {1, 2}, {2, 1}, {2, 2}, {3, 1}, {0, 0}};
    int nb = 0;
    for (int c = 0; c < C; c++) {
        if (s.cols[c].dtype == DataType::Bool) continue;   // std::vector<bool> cannot go through the column path
        std::vector<int> pl;
        if (C == 1 || (C == 2 && c == 1)) pl = {0, 1, 2, 3, 4, 5, 6, 7, 8};
        else if (C == 2) pl = {0, 2, 4, 5};
        else pl = {(nb * 2) % 8, (nb * 2 + 3) % 8, (nb * 2 + 5) % 8};
        for (int p : pl) A.push_back(Step{WCOL, c, P[p][0], P[p][1], (p + c) % 2, 0});
        nb++;
    }
    A.push_back(Step{REOPEN, 0, 0, 0, 0, 0});
    for (size_t i = 0; i < A.size(); i++) A[i].ai = (int)i;
    return A;
}

static const char *SUBMODE[] = {"by name", "by index", "name/index mixed"};

static std::string step_str(const Schema &s, const Step &st) {
    std::ostringstream o;
    switch (st.kind) {
    case ROWS: o << "rows(" << st.a << ")"; break;
    case WROW: o << "writeRow(" << st.a << ")"; break;
    case WCELL: o << "writeCell(" << st.a << "," << st.b << ")"; break;
    case WCELLS: o << "writeCells(" << st.a << ",cols " << vf::jvec(s.subs[st.b].cols) << " " << SUBMODE[s.subs[st.b].mode] << ")"; break;
    case WCOL: o << "writeColumn(" << (st.d ? "index " : "name of ") << st.a << ",offset=" << st.b << ",len=" << st.c << (st.c == 0 ? ",empty vector" : st.d ? ",explicit count,2 surplus values" : ",default count") << ")"; break;
    case REOPEN: o << "REOPEN"; break;
    }
    return o.str();
}

// ---------------------------------------------------------------- model
struct Model {
    const Schema *s;
    int R = 0;
    std::vector<std::vector<Val>> g;          // [row][col]
    std::vector<std::vector<char>> written;   // since the row exists
    explicit Model(const Schema &sc) : s(&sc) {}
    void rows(int n) {
        std::vector<Val> z; for (auto &c : s->cols) z.push_back(zero_of(c.dtype));
        g.resize((size_t)n, z);
        written.resize((size_t)n, std::vector<char>(s->cols.size(), 0));
        R = n;
    }
    void set(int r, int c, const Val &v) { g[r][c] = v; written[r][c] = 1; }
    // 0 = not enabled (precondition of the alphabet not met), 1 = must be accepted, 2 = must be rejected, 3 = outcome not asserted (must change nothing)
    int classify(const Step &st) const {
        switch (st.kind) {
        case ROWS: case REOPEN: return 1;
        case WROW: case WCELL: case WCELLS: return st.a < R ? 1 : 0;
        case WCOL: if (st.c == 0) return 3; return st.b + st.c <= R ? 1 : 2;
        }
        return 0;
    }
    std::string state_key() const {
        std::string k = s->label + "|";
        for (int r = 0; r < R; r++) { for (size_t c = 0; c < s->cols.size(); c++) k += written[r][c] ? 'w' : 'u'; k += '/'; }
        return k;
    }
};

// model only: class of the LAST step of the sequence (0 = not enabled there); only the row count matters for that
static int classify_last(const Schema &s, int seed, const std::vector<Step> &seq) {
    Model m(s);
    m.R = seed ? 2 : 0;
    int cl = 0;
    for (const Step &st : seq) { cl = m.classify(st); if (cl == 1 && st.kind == ROWS) m.R = st.a; }
    return cl;
}

static std::string op_class(const Schema &s, const Model &m, const Step &st) {
    switch (st.kind) {
    case ROWS: return st.a > m.R ? "rows(grow)" : st.a < m.R ? "rows(shrink)" : "rows(same)";
    case WROW: return "writeRow";
    case WCELL: return "writeCell";
    case WCELLS: return std::string("writeCells(") + SUBMODE[s.subs[st.b].mode] + ")";
    case WCOL: {
        std::string how = st.d ? "by index, explicit count" : "by name, default count";
        if (st.c == 0) return std::string("writeColumn(empty vector; ") + (st.d ? "by index" : "by name") + ")";
        if (st.b + st.c > m.R) return std::string("writeColumn(") + (st.b > m.R ? "offset past the end" : st.b == m.R ? "offset at the end" : "runs past the end") + "; " + how + ")";
        return std::string("writeColumn(") + (st.b + st.c == m.R ? (st.b == 0 ? "whole column" : "touching the end") : (st.b == 0 ? "inside, from 0" : "inside, from offset")) + "; " + how + ")";
    }
    case REOPEN: return "REOPEN";
    }
    return "?";
}

// coarse class of an operation for violation signatures
static std::string op_sig(const Model &m, const Step &st) {
    switch (st.kind) {
    case ROWS: return st.a > m.R ? "rows(grow)" : st.a < m.R ? "rows(shrink)" : "rows(same)";
    case WROW: return "writeRow";
    case WCELL: return "writeCell";
    case WCELLS: return "writeCells";
    case WCOL: return st.c == 0 ? "writeColumn(empty vector)" : st.b + st.c > m.R ? "writeColumn(past the end)" : "writeColumn(within the rows)";
    case REOPEN: return "REOPEN";
    }
    return "?";
}

// ---------------------------------------------------------------- runner
struct Obs { bool kept; std::string path; std::string got; };

struct Runner {
    const Schema &S;
    std::string path;
    Runner(const Schema &s, const std::string &p) : S(s), path(p) {}

    bool quiet = false;     // run and check, but report nothing (used to decide whether a leading step can be extended)
    long nviol = 0;         // deviations found by the current run
    void viol(const std::string &sig, const std::string &what) { nviol++; if (!quiet) vf::violation(sig, what); }
    void cnt(const char *name, long n = 1) { if (!quiet) vf::count(name, n); }
    void dst(const char *bucket, const std::string &v) { if (!quiet) vf::distinct(bucket, v); }

    uint64_t rot = 0;       // derived from the sequence: rotates the variants that are not all taken on every trace
    std::string trace;      // the sequence with the values written, for messages
    std::string lastop;     // class of the last step
    std::map<std::pair<int, int>, std::vector<Obs>> seen;

    template <typename T>
    static void wcol(DataFrame &df, const Schema &S, int c, bool byindex, const std::vector<Val> &vals, int off, int count) {
        std::vector<T> v;
        for (auto &x : vals) v.push_back(Nat<T>::get(x));
        if (byindex) df.writeColumn<T>((unsigned)c, v, (ndsize_t)off, (ndsize_t)count);
        else df.writeColumn<T>(S.cols[c].name, v, (ndsize_t)off, (ndsize_t)count);
    }

    // executes the steps on a fresh file; with report: counts, and checks every read path after the LAST step.
    // returns true iff the last step was enabled, behaved as the model says and changed the frame's history (the trace may be extended)
    bool run(int seed, const std::vector<Step> &steps, bool report, bool quietly = false) {
        vf::set_clock(1500000000);
        quiet = quietly; nviol = 0;
        Model m(S);
        Gen gen;
        trace = seed ? "seed{rows(2);writeRow(0);writeRow(1)}" : "seed{}";
        lastop = "seed";
        File f = File::open(path, FileMode::Overwrite);
        Block b = f.createBlock("blk", "t");
        DataFrame df;
        std::string what;
        std::string exc = vf::guarded([&] { df = b.createDataFrame("frame", "t", S.cols); }, &what);
        if (!exc.empty()) {
            if (report) viol("C15|createDataFrame|" + S.cls + " schema|rejected|" + exc, "schema " + S.label + ": " + what);
            return false;
        }
        if (seed) {
            exc = vf::guarded([&] {
                df.rows(2); m.rows(2);
                for (int r = 0; r < 2; r++) {
                    std::vector<Variant> row;
                    for (size_t c = 0; c < S.cols.size(); c++) { Val v = gen.next(S.cols[c].dtype); m.set(r, (int)c, v); row.push_back(to_variant(v)); }
                    df.writeRow((ndsize_t)r, row);
                }
            }, &what);
            if (!exc.empty()) {
                if (report) viol("C15|writeRow|" + S.cls + " schema, seed|rejected|" + exc, "schema " + S.label + " seed: " + what);
                return false;
            }
        }
        bool extend = true;
        for (size_t si = 0; si < steps.size(); si++) {
            const Step &st = steps[si];
            const bool last = si + 1 == steps.size();
            const bool rep = last && report;
            vf::set_clock(1500000000 + (long)si + 1);
            gen.mix(st.ai);
            int cl = m.classify(st);
            if (cl == 0) return false;
            std::string opc = op_class(S, m, st);
            std::string ops = op_sig(m, st);
            std::string desc = step_str(S, st);
            std::vector<Val> vals;       // the values handed to the library
            std::function<void()> call, apply;
            const Sub *sub = nullptr;
            DataType wdt = DataType::Nothing;
            int wcount = 0;
            switch (st.kind) {
            case ROWS:
                call = [&] { df.rows((ndsize_t)st.a); };
                apply = [&] { m.rows(st.a); };
                break;
            case REOPEN:
                call = [&] { df = DataFrame(); b = Block(); f.close(); f = File::open(path, FileMode::ReadWrite); b = f.getBlock("blk"); df = b.getDataFrame("frame"); };
                apply = [] {};
                break;
            case WROW:
                for (auto &c : S.cols) vals.push_back(gen.next(c.dtype));
                call = [&] { std::vector<Variant> row; for (auto &v : vals) row.push_back(to_variant(v)); df.writeRow((ndsize_t)st.a, row); };
                apply = [&] { for (size_t c = 0; c < vals.size(); c++) m.set(st.a, (int)c, vals[c]); };
                break;
            case WCELL:
                vals.push_back(gen.next(S.cols[st.b].dtype));
                call = [&] { df.writeCell((ndsize_t)st.a, (unsigned)st.b, to_variant(vals[0])); };
                apply = [&] { m.set(st.a, st.b, vals[0]); };
                break;
            case WCELLS: {
                sub = &S.subs[st.b];
                for (int c : sub->cols) vals.push_back(gen.next(S.cols[c].dtype));
                call = [&] {
                    std::vector<Cell> cells;
                    for (size_t k = 0; k < sub->cols.size(); k++) {
                        bool byname = sub->mode == 0 || (sub->mode == 2 && k % 2 == 0);
                        if (byname) cells.push_back(Cell(S.cols[sub->cols[k]].name, to_variant(vals[k])));
                        else cells.push_back(Cell((unsigned)sub->cols[k], to_variant(vals[k])));
                    }
                    // the same cells as a caller would also hand them over: assigned into pre-sized storage, reordered, or with
                    // an element erased (Cell has its own swap / copy-and-swap assignment; the order of the cells is irrelevant)
                    const int how = (st.a + st.b) % 3;
                    if (how == 1) { std::vector<Cell> c2(cells.size()); for (size_t k = 0; k < cells.size(); k++) c2[cells.size() - 1 - k] = cells[k]; cells = c2; }
                    else if (how == 2) { cells.insert(cells.begin(), Cell(0u, Variant())); std::reverse(cells.begin(), cells.end()); cells.erase(cells.end() - 1); if (cells.size() > 1) std::swap(cells.front(), cells.back()); }
                    df.writeCells((ndsize_t)st.a, cells);
                };
                apply = [&] { for (size_t k = 0; k < sub->cols.size(); k++) m.set(st.a, sub->cols[k], vals[k]); };
                break;
            }
            case WCOL: {
                wdt = S.cols[st.a].dtype;
                int nvals = st.c == 0 ? 0 : st.c + (st.d ? 2 : 0);   // mode 1: two surplus values that must not be written
                for (int k = 0; k < nvals; k++) vals.push_back(gen.next(wdt));
                wcount = st.d ? st.c : 0;     // 0 = "all of vals"
                call = [&] {
#define WC(T) wcol<T>(df, S, st.a, st.d != 0, vals, st.b, wcount)
                    DISPATCH(wdt, WC)
#undef WC
                };
                apply = [&] { for (int k = 0; k < st.c; k++) m.set(st.b + k, st.a, vals[k]); };
                break;
            }
            }
            trace += " ; " + desc;
            if (!vals.empty()) { trace += "<-["; for (size_t k = 0; k < vals.size(); k++) trace += (k ? "," : "") + show(vals[k]); trace += "]"; }
            exc = vf::guarded(call, &what);
            if (rep) {
                cnt("steps_checked");
                dst("outcomes", opc + "|" + (exc.empty() ? "accepted" : exc));
                if (vf::opt.verbose) fprintf(stderr, "C15 %strace: %s => %s%s%s\n", quiet ? "(quiet) " : "", trace.c_str(), exc.empty() ? "accepted" : exc.c_str(), exc.empty() ? "" : ": ", exc.empty() ? "" : what.c_str());
                for (auto &v : vals) dst("values", std::string(tname(v.t)) + "|" + v.cls);
            }
            lastop = ops;
            if (cl == 1) {
                if (!exc.empty()) {
                    if (rep) viol("C15|" + ops + "|" + S.cls + " schema|legal operation rejected|" + exc, "schema " + S.label + ": " + trace + " threw " + exc + ": " + what);
                    return false;     // the trace is not extended past the first failing step
                }
                apply();
            } else if (cl == 2) {
                if (rep) cnt("rejections_expected");
                if (exc.empty()) {
                    if (rep) {
                        std::string rows_now = "?";
                        vf::guarded([&] { rows_now = std::to_string(df.rows()); });
                        viol("C15|" + ops + "|" + std::string(tname(S.cols[st.a].dtype)) + " column|write past the end of the rows must be rejected|accepted",
                                      "schema " + S.label + ": " + trace + " returned normally with " + std::to_string(m.R) + " rows (rows() afterwards: " + rows_now + ")");
                    }
                    return false;
                }
                extend = false;       // rejected: the state is the one of the prefix; checked below, not extended
            } else {
                extend = false;       // outcome not asserted; must change nothing
            }
        }
        rot = gen.h >> 1;
        if (report && !steps.empty()) {
            check(f, b, df, m);
            dst("states", m.state_key());
        }
        df = DataFrame(); b = Block();
        f.close();
        return extend && nviol == 0;     // a trace is not extended past the first step after which something is wrong
    }

    // ------------------------------------------------------------ the oracle
    std::string ctx(const Model &) const { return "schema " + S.label + ": " + trace; }

    void see(bool kept, const std::string &p, int r, int c, const Val &got) {
        seen[std::make_pair(r, c)].push_back(Obs{kept, p, key(got)});
        cnt("cell_reads");
    }
    void read_throws(bool kept, const std::string &p, const std::string &input, const std::string &exc, const std::string &what, const Model &m) {
        viol("C15|" + p + "|" + input + "|read of existing cells throws|" + exc, ctx(m) + " ; then " + (kept ? "kept" : "fresh") + " handle " + p + " threw " + exc + ": " + what);
    }

    template <typename T>
    void check_column(DataFrame &h, bool kept, bool full, int c, const Model &m) {
        const std::string &name = S.cols[c].name;
        const std::string tn = std::string(tname(S.cols[c].dtype)) + " column";
        const int R = m.R;
        std::string what, exc;
        auto cmp = [&](const std::string &p, const std::vector<T> &v, int off, int n, size_t expect_size) {
            // v[0..n) are rows off..off+n, the rest of v must still be the sentinel
            if (v.size() != expect_size) {
                viol("C15|" + p + "|" + tn + "|size of the result vector|" + (v.size() < expect_size ? "too short" : "too long"),
                              ctx(m) + " ; then " + p + "(offset " + std::to_string(off) + ") left a vector of " + std::to_string(v.size()) + " elements, expected " + std::to_string(expect_size));
                return;
            }
            for (int k = 0; k < n; k++) see(kept, p, off + k, c, Nat<T>::mk(v[k]));
            for (size_t k = (size_t)n; k < v.size(); k++)
                if (!(key(Nat<T>::mk(v[k])) == key(Nat<T>::mk(Nat<T>::sentinel()))))
                    viol("C15|" + p + "|" + tn + "|elements beyond the requested count are untouched|overwritten",
                                  ctx(m) + " ; then " + p + "(offset " + std::to_string(off) + ", count " + std::to_string(n) + ") changed element " + std::to_string(k) + " of the vector to " + show(Nat<T>::mk(v[k])));
        };
        // (a) by name, resize = true, whole column
        {
            const std::string p = "readColumn(name,resize=true)";
            std::vector<T> v((size_t)R + 2, Nat<T>::sentinel());
            exc = vf::guarded([&] { h.readColumn(name, v, (bool)true, (ndsize_t)0); }, &what);
            cnt("read_calls");
            if (R == 0) {
                // no cell exists: whether an empty read is served is not part of the statement; if it is, the result is empty
                dst("outcomes", "readColumn of a frame without rows|" + (exc.empty() ? std::string("returns") : exc));
                if (vf::opt.verbose) fprintf(stderr, "C15   readColumn of a frame without rows: %s %s\n", exc.empty() ? "returns" : exc.c_str(), exc.empty() ? "" : what.c_str());
                if (exc.empty() && !v.empty()) cmp(p, v, 0, 0, 0);
            } else if (!exc.empty()) read_throws(kept, p, tn, exc, what, m);
            else cmp(p, v, 0, R, (size_t)R);
        }
        if (!full) return;
        // the offsets that are not all taken on every trace rotate with the sequence
        const int offB = R >= 2 ? 1 + (int)(rot % (uint64_t)(R - 1)) : 0;
        const int offC = R >= 2 ? 1 + (int)((rot / 2) % (uint64_t)(R - 1)) : 0;
        const int offE = (R >= 2 && (rot & 1)) ? R - 1 : 0;
        // (b) by index, resize = true, with an offset
        for (int off = offB; off >= 1 && off == offB; off++) {
            const std::string p = "readColumn(index,resize=true,offset)";
            std::vector<T> v(1, Nat<T>::sentinel());
            exc = vf::guarded([&] { h.readColumn((unsigned)c, v, (bool)true, (ndsize_t)off); }, &what);
            cnt("read_calls");
            if (!exc.empty()) read_throws(kept, p, tn, exc, what, m);
            else cmp(p, v, off, R - off, (size_t)(R - off));
        }
        // (c) resize = false into a pre-sized vector: the vector's size says how much to read (alternating by name / by index)
        for (int off = 0; off < R; off++) {
            if (off != 0 && off != offC) continue;
            const bool byname = off % 2 == 0;
            const std::string p = byname ? "readColumn(name,resize=false,offset)" : "readColumn(index,resize=false,offset)";
            std::vector<T> v((size_t)(R - off), Nat<T>::sentinel());
            exc = vf::guarded([&] { if (byname) h.readColumn(name, v, (bool)false, (ndsize_t)off); else h.readColumn((unsigned)c, v, (bool)false, (ndsize_t)off); }, &what);
            cnt("read_calls");
            if (!exc.empty()) read_throws(kept, p, tn, exc, what, m);
            else cmp(p, v, off, R - off, (size_t)(R - off));
        }
        // (d) short pre-sized vector at offset 0: only the first row is read
        if (R >= 2) {
            const std::string p = "readColumn(index,resize=false,short vector)";
            std::vector<T> v(1, Nat<T>::sentinel());
            exc = vf::guarded([&] { h.readColumn((unsigned)c, v, (bool)false, (ndsize_t)0); }, &what);
            cnt("read_calls");
            if (!exc.empty()) read_throws(kept, p, tn, exc, what, m);
            else cmp(p, v, 0, 1, 1);
        }
        // (e) explicit count smaller than the vector, resize = false: the surplus element keeps the sentinel
        for (int off = offE; off < R && off == offE; off++) {
            const bool byname = off != 0;
            const std::string p = byname ? "readColumn(name,count,resize=false,offset)" : "readColumn(index,count,resize=false,offset)";
            const int n = R - off;
            std::vector<T> v((size_t)n + 1, Nat<T>::sentinel());
            exc = vf::guarded([&] { if (byname) h.readColumn(name, v, (size_t)n, (bool)false, (ndsize_t)off); else h.readColumn((unsigned)c, v, (size_t)n, (bool)false, (ndsize_t)off); }, &what);
            cnt("read_calls");
            if (!exc.empty()) read_throws(kept, p, tn, exc, what, m);
            else cmp(p, v, off, n, (size_t)n + 1);
        }
        // (f) explicit count, resize = true
        if (R >= 1) {
            const std::string p = "readColumn(name,count,resize=true)";
            std::vector<T> v(5, Nat<T>::sentinel());
            exc = vf::guarded([&] { h.readColumn(name, v, (size_t)R, (bool)true, (ndsize_t)0); }, &what);
            cnt("read_calls");
            if (!exc.empty()) read_throws(kept, p, tn, exc, what, m);
            else cmp(p, v, 0, R, (size_t)R);
        }
    }

    // full: every read path; otherwise schema, readRow of every row and one whole-column read per column
    void check_handle(DataFrame &h, bool kept, bool full, const Model &m) {
        const int C = (int)S.cols.size();
        const std::string who = kept ? "kept handle" : "fresh handle";
        const std::string after = "after " + lastop;
        std::string what, exc;
        auto V = [&](const std::string &site, const std::string &assertion, const std::string &dev, const std::string &w) {
            viol("C15|" + site + "|" + after + ", " + S.cls + " schema|" + assertion + "|" + dev, ctx(m) + " ; then " + who + ": " + w);
        };
        // ---- schema ----
        cnt("schema_checks");
        ndsize_t nr = 9999;
        exc = vf::guarded([&] { nr = h.rows(); }, &what);
        if (!exc.empty()) { V("rows()", "throws", exc, what); return; }
        if (nr != (ndsize_t)m.R) { V("rows()", "row count differs from the model", nr > (ndsize_t)m.R ? "too large" : "too small", "rows()=" + std::to_string(nr) + " expected " + std::to_string(m.R)); return; }
        std::vector<Column> cols;
        exc = vf::guarded([&] { cols = h.columns(); }, &what);
        if (!exc.empty()) V("columns()", "throws", exc, what);
        else if ((int)cols.size() != C) V("columns()", "number of columns", "differs", std::to_string(cols.size()) + " columns, schema has " + std::to_string(C));
        else for (int c = 0; c < C; c++) {
            if (cols[c].name != S.cols[c].name) V("columns()", "column name / order", "differs", "column " + std::to_string(c) + " is named " + vf::jstr(cols[c].name) + " expected " + vf::jstr(S.cols[c].name));
            if (cols[c].unit != S.cols[c].unit) V("columns()", "column unit", "differs", "column " + std::to_string(c) + " has unit " + vf::jstr(cols[c].unit) + " expected " + vf::jstr(S.cols[c].unit));
            if (cols[c].dtype != S.cols[c].dtype) V("columns()", std::string("column type ") + tname(S.cols[c].dtype), std::string("reported as ") + tname(cols[c].dtype), "column " + std::to_string(c));
        }
        std::vector<std::string> names; std::vector<unsigned> idx;
        for (int c = 0; c < C; c++) { names.push_back(S.cols[c].name); idx.push_back((unsigned)c); }
        for (int c = 0; c < C; c++) {
            unsigned gi = 999; std::string gn;
            exc = vf::guarded([&] { gi = h.colIndex(S.cols[c].name); }, &what);
            if (!exc.empty() || gi != (unsigned)c) V("colIndex(name)", "index of a column name", exc.empty() ? "wrong index" : exc, "colIndex(" + vf::jstr(S.cols[c].name) + ") = " + std::to_string(gi) + " expected " + std::to_string(c));
            exc = vf::guarded([&] { gn = h.colName((unsigned)c); }, &what);
            if (!exc.empty() || gn != S.cols[c].name) V("colName(index)", "name of a column index", exc.empty() ? "wrong name" : exc, "colName(" + std::to_string(c) + ") = " + vf::jstr(gn));
        }
        {
            std::vector<std::string> rn(names.rbegin(), names.rend()); std::vector<unsigned> ri(idx.rbegin(), idx.rend());
            std::vector<unsigned> gi; std::vector<std::string> gn;
            exc = vf::guarded([&] { gi = h.colIndex(rn); }, &what);
            if (!exc.empty() || gi != ri) V("colIndex(names)", "indices of a name list", exc.empty() ? "wrong indices" : exc, "colIndex(" + vf::jvecs(rn) + ") = " + vf::jvec(gi));
            exc = vf::guarded([&] { gn = h.colName(ri); }, &what);
            if (!exc.empty() || gn != rn) V("colName(indices)", "names of an index list", exc.empty() ? "wrong names" : exc, "colName(" + vf::jvec(ri) + ") = " + vf::jvecs(gn));
        }
        // ---- cells ----
        for (int r = 0; r < m.R; r++) {
            {
                std::vector<Variant> row;
                exc = vf::guarded([&] { row = h.readRow((ndsize_t)r); }, &what);
                cnt("read_calls");
                if (!exc.empty()) read_throws(kept, "readRow", S.cls + " schema", exc, what, m);
                else if ((int)row.size() != C) V("readRow", "one value per column", row.size() < (size_t)C ? "too few" : "too many", "readRow(" + std::to_string(r) + ") has " + std::to_string(row.size()) + " values");
                else for (int c = 0; c < C; c++) see(kept, "readRow", r, c, from_variant(row[c]));
            }
            if (!full) continue;
            for (int c = 0; c < C; c++) {
                const std::string tn = std::string(tname(S.cols[c].dtype)) + " column";
                Cell ce;
                exc = vf::guarded([&] { ce = h.readCell((ndsize_t)r, (unsigned)c); }, &what);
                cnt("read_calls");
                if (!exc.empty()) read_throws(kept, "readCell(index)", tn, exc, what, m); else see(kept, "readCell(index)", r, c, from_variant(ce));
                Cell cn;
                exc = vf::guarded([&] { cn = h.readCell((ndsize_t)r, S.cols[c].name); }, &what);
                cnt("read_calls");
                if (!exc.empty()) read_throws(kept, "readCell(name)", tn, exc, what, m); else see(kept, "readCell(name)", r, c, from_variant(cn));
            }
            for (size_t k = 0; k < S.read_subsets.size(); k++) {
                const std::vector<int> &sub = S.read_subsets[k];
                std::vector<std::string> want; for (int c : sub) want.push_back(S.cols[c].name);
                const std::string p = k == 0 ? "readCells(all names)" : k == 1 ? "readCells(names reversed)" : "readCells(subset of names)";
                std::vector<Cell> cells;
                exc = vf::guarded([&] { cells = h.readCells((ndsize_t)r, want); }, &what);
                cnt("read_calls");
                if (!exc.empty()) read_throws(kept, p, S.cls + " schema", exc, what, m);
                else if (cells.size() != sub.size()) V(p, "one cell per requested name", cells.size() < sub.size() ? "too few" : "too many", "readCells(" + std::to_string(r) + "," + vf::jvecs(want) + ") has " + std::to_string(cells.size()) + " cells");
                else for (size_t j = 0; j < sub.size(); j++) see(kept, p, r, sub[j], from_variant(cells[j]));
            }
        }
        for (int c = 0; c < C; c++) {
            DataType dt = S.cols[c].dtype;
#define CC(T) check_column<T>(h, kept, full, c, m)
            DISPATCH(dt, CC)
#undef CC
        }
    }

    std::string deviation(const Model &m, int r, int c, const std::string &got) const {
        const Val &want = m.g[r][c];
        std::string tprefix = std::string(tname(want.t)) + ":";
        if (got.compare(0, tprefix.size(), tprefix) != 0) return "value of type " + got.substr(0, got.find(':'));
        if (got == sentinel_key(want.t)) return "sentinel left in the buffer";
        std::string where;
        for (int rr = 0; rr < m.R && where.empty(); rr++) for (int cc = 0; cc < (int)S.cols.size(); cc++) {
            if ((rr == r && cc == c) || !m.written[rr][cc] || key(m.g[rr][cc]) != got) continue;
            if (key(m.g[rr][cc]) == key(zero_of(m.g[rr][cc].t))) continue;
            if (cc == c) where = rr == r - 1 ? "value of the cell one row above" : rr == r + 1 ? "value of the cell one row below" : "value of another row of the column";
            else if (rr == r) where = "value of another column of the row";
            else where = "value of a cell in another row and column";
            break;
        }
        if (!where.empty()) return where;
        if (got == key(zero_of(want.t))) return m.written[r][c] ? "zero/empty instead of the written value" : "zero";
        if (!m.written[r][c]) return "non-zero value in a never-written cell";
        return "neither the written value nor another cell's";
    }

    void check(File &, Block &b, DataFrame &kept, const Model &m) {
        seen.clear();
        cnt("invariant_checks");
        // both handles are read; which of them goes through every read path alternates with the sequence
        const bool kept_full = ((rot >> 3) & 1) == 0;
        check_handle(kept, true, kept_full, m);
        DataFrame fresh;
        std::string what;
        std::string exc = vf::guarded([&] { fresh = b.getDataFrame("frame"); }, &what);
        if (!exc.empty() || !fresh) viol("C15|Block::getDataFrame|after " + lastop + "|frame not found|" + (exc.empty() ? "none" : exc), ctx(m));
        else check_handle(fresh, false, !kept_full, m);
        // ---- verdict per cell (row-major): do the read paths agree with the grid? ----
        // Reported per check: the FIRST cell that every path reads wrongly in the same way (what is stored is not what the
        // history says), and for every read path that disagrees with the others its first deviating cell.
        size_t stored_wrong = 0; std::string stored_sig, stored_what;
        std::map<std::string, std::pair<std::string, std::string>> path_first;   // path -> (signature, what)
        std::map<std::string, size_t> path_cells;
        for (auto &e : seen) {
            const int r = e.first.first, c = e.first.second;
            const std::string want = key(m.g[r][c]);
            const std::string tn = std::string(tname(S.cols[c].dtype)) + " column";
            const std::string vc = m.written[r][c] ? "written cell" : "never-written cell";
            size_t wrong = 0; bool same = true; std::string first;
            for (auto &o : e.second) if (o.got != want) { if (!wrong) first = o.got; else if (o.got != first) same = false; wrong++; }
            if (!wrong) continue;
            const std::string cell = "cell (row " + std::to_string(r) + ", column " + std::to_string(c) + " " + vf::jstr(S.cols[c].name) + ")";
            if (wrong == e.second.size() && same) {
                if (!stored_wrong++) {
                    stored_sig = "C15|" + lastop + "|" + tn + ", " + vc + "|every read path returns the same value, but not the one written last|" + deviation(m, r, c, first);
                    stored_what = cell + " reads " + shorten(first) + " through all " + std::to_string(wrong) + " read paths, expected " + shorten(want);
                }
                continue;
            }
            // some paths deviate: group by path, tell kept / fresh apart
            std::map<std::string, std::pair<int, int>> dev, right;   // path -> (#kept, #fresh) wrong / right reads of this cell
            std::map<std::string, std::string> example;
            for (auto &o : e.second) {
                if (o.got != want) { (o.kept ? dev[o.path].first : dev[o.path].second)++; example[o.path] = o.got; }
                else (o.kept ? right[o.path].first : right[o.path].second)++;
            }
            for (auto &d : dev) {
                if (path_cells[d.first]++) continue;
                // a handle is named only if the same path is right on the other handle
                std::string which = d.second.first && right[d.first].second ? ", kept handle only" : d.second.second && right[d.first].first ? ", fresh handle only" : "";
                path_first[d.first] = std::make_pair(
                    "C15|" + d.first + "|" + tn + ", " + vc + "|read path disagrees with the other paths and the value written last" + which + "|" + deviation(m, r, c, example[d.first]),
                    d.first + " returns " + shorten(example[d.first]) + " for " + cell + ", expected " + shorten(want) +
                    " (" + std::to_string(e.second.size() - wrong) + " of " + std::to_string(e.second.size()) + " reads of the cell are right)");
            }
        }
        if (stored_wrong) viol(stored_sig, ctx(m) + " ; then " + stored_what + (stored_wrong > 1 ? " (first of " + std::to_string(stored_wrong) + " such cells)" : ""));
        for (auto &pf : path_first)
            viol(pf.second.first, ctx(m) + " ; then " + pf.second.second + (path_cells[pf.first] > 1 ? " (first of " + std::to_string(path_cells[pf.first]) + " such cells)" : ""));
    }
};

int main(int argc, char **argv) {
    vf::init(argc, argv, "C15");
    const bool thorough = vf::opt.tier == "thorough";
    std::vector<Schema> schemas = make_schemas();
    // depth = number of steps after the seed; the filled seed is already three writes deep
    const int depthA = atoi(vf::opt.extra.count("depth") ? vf::opt.extra["depth"].c_str() : (thorough ? "4" : "3"));
    const int depthB = atoi(vf::opt.extra.count("depth-filled") ? vf::opt.extra["depth-filled"].c_str() : (thorough ? "3" : "2"));

    long caseno = 0;
    long sampled = 0;
    for (size_t si = 0; si < schemas.size(); si++) {
        const Schema &S = schemas[si];
        std::vector<Step> alpha = make_alphabet(S);
        for (int seed = 0; seed < 2; seed++) {
            const int depth = seed ? depthB : depthA;
            // the state the seed leaves (model only): decides statically which first steps can be extended
            Model m0(S); if (seed) m0.rows(2);
            const bool split = depth >= (seed ? 4 : 3);    // deep trees: one case per pair of leading steps
            for (size_t first = 0; first < alpha.size(); first++) {
                std::vector<long> seconds = {-1};
                if (split && m0.classify(alpha[first]) == 1) for (size_t k = 0; k < alpha.size(); k++) seconds.push_back((long)k);
                for (long second : seconds) {
                    long cid = caseno++;
                    if (!vf::take_case(cid)) continue;
                    Runner R(S, vf::scratch_file("c15.h5"));
                    std::string lead = step_str(S, alpha[first]);
                    if (second >= 0) lead += " ; " + step_str(S, alpha[(size_t)second]);
                    const std::string base = "schema " + S.label + ", " + (seed ? "seed 2 written rows" : "seed empty frame") + ", depth " + std::to_string(depth) +
                                             ", sequences starting with " + lead + (split && second < 0 ? " (that sequence alone)" : "");
                    vf::case_desc(base);
                    std::vector<Step> seq = {alpha[first]};
                    // the sequence that is running goes into the progress record, so that a crash is attributed to it
                    auto mark = [&](const char *how) {
                        std::string q;
                        for (const Step &s : seq) q += (q.empty() ? "" : " ; ") + step_str(S, s);
                        vf::case_desc(base + " | " + how + ": " + q);
                    };
                    std::function<void()> rec = [&]() {
                        if (vf::deadline_hit()) return;
                        mark("running");
                        bool ext = R.run(seed, seq, true);
                        vf::count("traces");
                        if (ext) vf::count("transitions");
                        if (!ext || (int)seq.size() >= depth) return;
                        for (const Step &s : alpha) {
                            if (s.kind == REOPEN && seq.back().kind == REOPEN) continue;
                            seq.push_back(s);
                            if (classify_last(S, seed, seq) != 0) rec();     // not enabled in that state: not a trace
                            seq.pop_back();
                        }
                    };
                    if (m0.classify(alpha[first]) == 0) continue;
                    if (!split || m0.classify(alpha[first]) != 1) { if (second < 0) rec(); }
                    else if (second < 0) { mark("running"); if (R.run(seed, seq, true)) vf::count("transitions"); vf::count("traces"); }
                    else {
                        const Step &s2 = alpha[(size_t)second];
                        if (s2.kind == REOPEN && alpha[first].kind == REOPEN) continue;
                        mark("re-checking the leading step quietly");
                        if (!R.run(seed, seq, true, true)) continue;      // checked quietly: the leading step alone is reported by its own case
                        seq.push_back(s2);
                        if (classify_last(S, seed, seq) != 0) rec();
                        seq.pop_back();
                    }
                    if (sampled < 6 && alpha[first].kind == ROWS && alpha[first].a == 3 && seed == 0 && si % 5 == 1) {
                        sampled++;
                        vf::sample("{\"schema\":" + vf::jstr(S.label) + ",\"last_trace_of_case\":" + vf::jstr(R.trace) + "}", 6);
                    }
                }
            }
        }
    }
    vf::note("depth_empty_seed", std::to_string(depthA));
    vf::note("depth_filled_seed", std::to_string(depthB));
    vf::note("schemas", std::to_string(schemas.size()));
    {
        std::string al = "{";
        for (size_t si = 0; si < schemas.size(); si++) al += (si ? "," : "") + vf::jstr(schemas[si].label) + ":" + std::to_string(make_alphabet(schemas[si]).size());
        vf::note("alphabet_sizes", al + "}");
    }
    return vf::finish();
}
