// C05 — Tag retrieval returns exactly the tagged region.
//
// Exhaustive grid (E2).  One case = one array configuration (rank 1..3, extent <= 5 per axis, cell value = linear
// index, one dimension descriptor per axis out of sampled / range / set / data-frame with fixed parameter families).
// Inside a case a single Tag is re-positioned over the full product of per-axis (position, extent) candidates
// (dagrid.hpp: FULL for rank 1, REDUCED for rank 2, MINI for rank 3), with fewer / as many / more position entries
// than dimensions and with the extent absent or present, and every retrieval entry point is compared with the
// reference region transcribed from the statement:
//   Tag::taggedData(index | name), util::taggedData(tag, array | index, match), util::getOffsetAndCount(tag, ...),
//   Tag::featureData(index | name | id), util::featureData(tag, feature | index, match)
// in both RangeMatch modes and with the documented defaults (taggedData/featureData: Exclusive, getOffsetAndCount:
// Inclusive).  Tagged features live on a second array with other extents and are cut by the same rule; untagged and
// indexed features are returned whole.  Units are not used (C18).
#include "dagrid.hpp"

#pragma GCC diagnostic ignored "-Wdeprecated-declarations"
using namespace nix;
using namespace dag;

static const std::string P = "C05";
static bool g_after_axis_change = false;   // the axes were rewritten in place since the arrays were built
static const RangeMatch MODES[] = {RangeMatch::Inclusive, RangeMatch::Exclusive};

struct Setup {
    Tag tag;
    Built ref, ft, fu, fi;
    Feature feat_t, feat_u, feat_i;
    size_t idx_t, idx_u, idx_i;
    bool tag_has_extent;
};

static Goc call_goc(const Tag &tag, const DataArray &da, const RangeMatch *m) {
    Goc g; NDSize off, cnt;
    g.exc = vf::guarded([&] { if (m) util::getOffsetAndCount(tag, da, off, cnt, *m); else util::getOffsetAndCount(tag, da, off, cnt); }, &g.what);
    if (g.exc.empty()) { ndsize_to(off, g.off); ndsize_to(cnt, g.cnt); }
    return g;
}

static void note_outcome(const InputInfo &in, const Expect &x, const Got &g) {
    // per axis: (kind, position class, end class, mode) x (result) — the variety a non-vacuous run must show
    for (size_t d = 0; d < in.arr->axes.size(); d++)
        vf::distinct("outcomes", axis_input_class(in, static_cast<int>(d)) + "|" + in.mode + "|" + (g.exc.empty() ? "data" : "raises"));
    vf::distinct("blocks", (x.throws ? std::string("raise:") + x.why : "block " + vs(x.cnt)) + "|" + in.entries_class);
    vf::count(x.throws ? "expected_raise" : "expected_data");
}

// all checks for the tag as currently stored (position pos, extent ext / absent)
static void check_tag(Setup &S, const std::vector<double> &pos, const std::vector<double> &ext, bool has_ext, bool rich, long k) {
    InputInfo in; in.arr = &S.ref; in.pos = pos; in.ext = ext; in.has_ext = has_ext;
    in.entries_class = entries_class(pos.size(), S.ref.axes.size());
    in.family = "taggedData(Tag)";
    InputInfo inf = in; inf.arr = &S.ft; // the feature array has the same rank as the reference
    inf.family = "featureData(Tag), tagged feature";
    InputInfo ing = in; ing.family = "util::getOffsetAndCount(Tag)";
    const DataArray &da = S.ref.array;
    Expect x[2], xf[2];
    Goc goc[2];
    for (int mi = 0; mi < 2; mi++) {
        RangeMatch m = MODES[mi];
        in.mode = mode_name(m); inf.mode = in.mode; ing.mode = in.mode;
        in.match = inf.match = ing.match = m;
        x[mi] = ref_block(S.ref, pos, has_ext ? ext : std::vector<double>(), m);
        goc[mi] = call_goc(S.tag, da, &m);
        vf::count("getOffsetAndCount_calls");
        check_goc(P, "util::getOffsetAndCount(Tag,array,match)", ing, x[mi], goc[mi]);
        Got g = observe([&] { return util::taggedData(S.tag, da, m); });
        vf::count("retrievals");
        note_outcome(in, x[mi], g);
        check_retrieval(P, "util::taggedData(Tag,array,match)", in, x[mi], g, [&] { return goc[mi]; });
        // tagged feature: same rule on the feature array
        xf[mi] = ref_block(S.ft, pos, has_ext ? ext : std::vector<double>(), m);
        Got f = observe([&] { return util::featureData(S.tag, S.feat_t, m); });
        vf::count("retrievals"); vf::count("feature_retrievals");
        vf::distinct("feature_outcomes", std::string("tagged|") + in.mode + "|" + (f.exc.empty() ? "data" : "raises"));
        check_retrieval(P, "util::featureData(Tag,tagged feature,match)", inf, xf[mi], f, [&] { return call_goc(S.tag, S.ft.array, &m); });
    }
    // the other entry points: all of them when `rich`, else one per tag in rotation
    const int INC = 0, EXC = 1;
    for (int e = 0; e < 7; e++) {
        if (!rich && k % 7 != e) continue;
        Got g; int mi = EXC; std::string site;
        switch (e) {
        case 0: site = "Tag::taggedData(index)"; in.mode = "default(Exclusive)"; g = observe([&] { return S.tag.taggedData(0); }); break;
        case 1: site = "Tag::taggedData(name)"; in.mode = "default(Exclusive)"; g = observe([&] { return S.tag.taggedData("ref"); }); break;
        case 2: site = "util::taggedData(Tag,array)"; in.mode = "default(Exclusive)"; g = observe([&] { return util::taggedData(S.tag, da); }); break;
        case 3: site = "util::taggedData(Tag,index,match)"; in.mode = "Inclusive"; mi = INC; g = observe([&] { return util::taggedData(S.tag, 0, RangeMatch::Inclusive); }); break;
        case 4: site = "util::taggedData(Tag,index,match)"; in.mode = "Exclusive"; g = observe([&] { return util::taggedData(S.tag, 0, RangeMatch::Exclusive); }); break;
        case 5: site = "util::taggedData(Tag,index)"; in.mode = "default(Exclusive)"; g = observe([&] { return util::taggedData(S.tag, 0); }); break;
        default: {
            ing.mode = "default(Inclusive)"; ing.match = RangeMatch::Inclusive;
            Goc gd = call_goc(S.tag, da, nullptr);
            vf::count("getOffsetAndCount_calls");
            check_goc(P, "util::getOffsetAndCount(Tag,array)", ing, x[INC], gd);
            continue;
        }
        }
        vf::count("retrievals");
        in.match = MODES[mi];
        check_retrieval(P, site, in, x[mi], g, [&] { return goc[mi]; });
    }
    // the deprecated spellings (forwarders; util::retrieveData / retrieveFeatureData default to Inclusive, the members to the
    // default of their replacement): one per tag in rotation, all of them when `rich`
    for (int e = 0; e < 8; e++) {
        if (!rich && (k + 5) % 8 != e) continue;
        Got g; int mi = EXC; std::string site; bool feature = false;
        switch (e) {
        case 0: site = "Tag::retrieveData(index) [deprecated]"; in.mode = "default(Exclusive)"; g = observe([&] { return S.tag.retrieveData(0); }); break;
        case 1: site = "Tag::retrieveData(name) [deprecated]"; in.mode = "default(Exclusive)"; g = observe([&] { return S.tag.retrieveData("ref"); }); break;
        case 2: site = "util::retrieveData(Tag,index) [deprecated]"; in.mode = "default(Inclusive)"; mi = INC; g = observe([&] { return util::retrieveData(S.tag, 0); }); break;
        case 3: site = "util::retrieveData(Tag,array,match) [deprecated]"; in.mode = "Exclusive"; g = observe([&] { return util::retrieveData(S.tag, da, RangeMatch::Exclusive); }); break;
        case 4: site = "util::retrieveData(Tag,array) [deprecated]"; in.mode = "default(Inclusive)"; mi = INC; g = observe([&] { return util::retrieveData(S.tag, da); }); break;
        case 5: feature = true; site = "Tag::retrieveFeatureData(index) tagged [deprecated]"; inf.mode = "default(Exclusive)"; g = observe([&] { return S.tag.retrieveFeatureData(S.idx_t); }); break;
        case 6: feature = true; site = "util::retrieveFeatureData(Tag,index) tagged [deprecated]"; inf.mode = "default(Inclusive)"; mi = INC; g = observe([&] { return util::retrieveFeatureData(S.tag, S.idx_t); }); break;
        default: feature = true; site = "util::retrieveFeatureData(Tag,feature,match) tagged [deprecated]"; inf.mode = "Exclusive"; g = observe([&] { return util::retrieveFeatureData(S.tag, S.feat_t, RangeMatch::Exclusive); }); break;
        }
        vf::count("retrievals");
        if (!feature) { in.match = MODES[mi]; check_retrieval(P, site, in, x[mi], g, [&] { return goc[mi]; }); }
        else { inf.match = MODES[mi]; RangeMatch m = MODES[mi]; check_retrieval(P, site, inf, xf[mi], g, [&] { return call_goc(S.tag, S.ft.array, &m); }); }
    }
    for (int e = 0; e < 7; e++) {
        if (!rich && (k + 3) % 7 != e) continue;
        Got g; int mi = EXC; std::string site;
        switch (e) {
        case 0: site = "Tag::featureData(index) tagged"; inf.mode = "default(Exclusive)"; g = observe([&] { return S.tag.featureData(S.idx_t); }); break;
        case 1: site = "Tag::featureData(data name) tagged"; inf.mode = "default(Exclusive)"; g = observe([&] { return S.tag.featureData("ft"); }); break;
        case 2: site = "Tag::featureData(feature id) tagged"; inf.mode = "default(Exclusive)"; g = observe([&] { return S.tag.featureData(S.feat_t.id()); }); break;
        case 3: site = "util::featureData(Tag,index,match) tagged"; inf.mode = "Inclusive"; mi = INC; g = observe([&] { return util::featureData(S.tag, S.idx_t, RangeMatch::Inclusive); }); break;
        case 4: site = "util::featureData(Tag,index,match) tagged"; inf.mode = "Exclusive"; g = observe([&] { return util::featureData(S.tag, S.idx_t, RangeMatch::Exclusive); }); break;
        case 5: site = "util::featureData(Tag,index) tagged"; inf.mode = "default(Exclusive)"; g = observe([&] { return util::featureData(S.tag, S.idx_t); }); break;
        default: site = "util::featureData(Tag,feature) tagged"; inf.mode = "default(Exclusive)"; g = observe([&] { return util::featureData(S.tag, S.feat_t); }); break;
        }
        vf::count("retrievals"); vf::count("feature_retrievals");
        inf.match = MODES[mi];
        check_retrieval(P, site, inf, xf[mi], g, [&] { return call_goc(S.tag, S.ft.array, &MODES[mi]); });
    }
    // untagged and indexed features: the whole array whatever the tag says (every 10th tag, every entry point, both modes)
    if (k % 10 == 0) {
        for (int which = 0; which < 2; which++) {
            const Built &fa = which == 0 ? S.fu : S.fi;
            const Feature &feat = which == 0 ? S.feat_u : S.feat_i;
            size_t fidx = which == 0 ? S.idx_u : S.idx_i;
            std::string fname = which == 0 ? "fu" : "fi";
            std::string lt = which == 0 ? "untagged" : "indexed";
            Expect w = whole_array(fa);
            InputInfo iw; iw.arr = &fa; iw.pos = pos; iw.ext = ext; iw.has_ext = has_ext; iw.plain = true; iw.family = "featureData(Tag), " + lt + " feature";
            iw.plain_class = lt + " feature";
            iw.plain_assertion = lt + " feature is returned whole";
            for (int e = 0; e < 7; e++) {
                Got g; std::string site;
                switch (e) {
                case 0: site = "util::featureData(Tag,feature,match)"; iw.mode = "Inclusive"; g = observe([&] { return util::featureData(S.tag, feat, RangeMatch::Inclusive); }); break;
                case 1: site = "util::featureData(Tag,feature,match)"; iw.mode = "Exclusive"; g = observe([&] { return util::featureData(S.tag, feat, RangeMatch::Exclusive); }); break;
                case 2: site = "util::featureData(Tag,index,match)"; iw.mode = "Inclusive"; g = observe([&] { return util::featureData(S.tag, fidx, RangeMatch::Inclusive); }); break;
                case 3: site = "util::featureData(Tag,index,match)"; iw.mode = "Exclusive"; g = observe([&] { return util::featureData(S.tag, fidx, RangeMatch::Exclusive); }); break;
                case 4: site = "Tag::featureData(index)"; iw.mode = "default(Exclusive)"; g = observe([&] { return S.tag.featureData(fidx); }); break;
                case 5: site = "Tag::featureData(data name)"; iw.mode = "default(Exclusive)"; g = observe([&] { return S.tag.featureData(fname); }); break;
                default: site = "Tag::featureData(feature id)"; iw.mode = "default(Exclusive)"; g = observe([&] { return S.tag.featureData(feat.id()); }); break;
                }
                vf::count("retrievals"); vf::count("feature_retrievals");
                vf::distinct("feature_outcomes", lt + "|" + iw.mode + "|" + (g.exc.empty() ? "data" : "raises"));
                check_retrieval(P, site, iw, w, g);
            }
        }
    }
}

static void store(Setup &S, const std::vector<double> &pos, const std::vector<double> &ext, bool has_ext) {
    S.tag.position(pos);
    if (has_ext) { S.tag.extent(ext); S.tag_has_extent = true; }
    else if (S.tag_has_extent) { S.tag.extent(boost::none); S.tag_has_extent = false; }
}

// all tags with L position entries whose first min(L, rank) entries run over the product of the axis candidates
static long run_entries(Setup &S, size_t L, Level lv, long &k) {
    const size_t r = S.ref.axes.size();
    const size_t m = std::min(L, r);
    long tags = 0;
    if (L == 0) {
        // no position entry at all: every dimension is unspecified (the library may refuse to store such a tag)
        std::string w;
        std::string e = vf::guarded([&] { store(S, std::vector<double>(), std::vector<double>(), false); }, &w);
        if (!e.empty()) { vf::count("empty_position_refused"); return 0; }
        check_tag(S, std::vector<double>(), std::vector<double>(), false, true, k++);
        return 1;
    }
    std::vector<std::vector<double>> P_(m);
    std::vector<std::vector<PE>> PE_(m);
    std::vector<size_t> np(m), npe(m);
    for (size_t d = 0; d < m; d++) {
        P_[d] = position_candidates(S.ref.axes[d], lv);
        PE_[d] = pe_candidates(S.ref.axes[d], lv);
        np[d] = P_[d].size(); npe[d] = PE_[d].size();
    }
    // small products go through every entry point for every tag, large ones rotate the secondary entry points
    size_t prod_p = 1, prod_pe = 1;
    for (size_t d = 0; d < m; d++) { prod_p *= np[d]; prod_pe *= npe[d]; }
    bool rich = prod_p <= 64;
    // extent absent: product of the position candidates
    std::vector<size_t> idx(m, 0);
    do {
        std::vector<double> pos;
        for (size_t d = 0; d < m; d++) pos.push_back(P_[d][idx[d]]);
        for (size_t d = m; d < L; d++) pos.push_back(1.5);
        store(S, pos, std::vector<double>(), false);
        check_tag(S, pos, std::vector<double>(), false, rich, k++);
        tags++;
        if (vf::deadline_hit()) return tags;
    } while (next_index(idx, np));
    // extent present: product of the (position, extent) candidates
    rich = prod_pe <= 64;
    idx.assign(m, 0);
    do {
        std::vector<double> pos, ext;
        for (size_t d = 0; d < m; d++) { pos.push_back(PE_[d][idx[d]].p); ext.push_back(PE_[d][idx[d]].e); }
        for (size_t d = m; d < L; d++) { pos.push_back(1.5); ext.push_back(0.5); }
        store(S, pos, ext, true);
        check_tag(S, pos, ext, true, rich, k++);
        tags++;
        if (vf::deadline_hit()) return tags;
    } while (next_index(idx, npe));
    return tags;
}

int main(int argc, char **argv) {
    vf::init(argc, argv, "C05");
    vf::set_clock(1500000000);
    const bool thorough = vf::opt.tier == "thorough";
    std::vector<Config> cfgs = configurations(thorough, 14, 7);
    long idx = 0;
    int samples = 0;
    for (const Config &cfg : cfgs) {
        long ci = idx++;
        if (!vf::take_case(ci)) continue;
        const size_t r = cfg.specs.size();
        vf::case_desc(cfg.label + ": " + specs_name(cfg.specs));
        File f = File::open(vf::scratch_file("c05.h5"), FileMode::Overwrite);
        Block b = f.createBlock("b", "t");
        Setup S;
        S.ref = build_array(b, "ref", cfg.specs, 0.0, P);
        S.ft = build_array(b, "ft", tagged_feature_specs(cfg.specs), 1000.0, P);
        std::vector<AxisSpec> us = {{SET, 0, 2}, {SAMPLED, 0, 3}}, is = {{SET, 1, 3}, {RANGE, 0, 2}};
        S.fu = build_array(b, "fu", us, 5000.0, P);
        S.fi = build_array(b, "fi", is, 7000.0, P);
        if (!S.ref.ok || !S.ft.ok || !S.fu.ok || !S.fi.ok) { f.close(); continue; }
        S.tag = b.createTag("tag", "t", std::vector<double>(1, 0.0));
        S.tag_has_extent = false;
        S.tag.addReference(S.ref.array);
        S.feat_t = S.tag.createFeature(S.ft.array, LinkType::Tagged);
        S.feat_u = S.tag.createFeature(S.fu.array, LinkType::Untagged);
        S.feat_i = S.tag.createFeature(S.fi.array, LinkType::Indexed);
        S.idx_t = S.idx_u = S.idx_i = 99;
        for (size_t i = 0; i < S.tag.featureCount(); i++) {
            std::string dn = S.tag.getFeature(i).data().name();
            if (dn == "ft") S.idx_t = i; else if (dn == "fu") S.idx_u = i; else if (dn == "fi") S.idx_i = i;
        }
        if (S.idx_t == 99 || S.idx_u == 99 || S.idx_i == 99) { vf::violation(P + "|setup|features not listed by index", specs_name(cfg.specs)); f.close(); continue; }
        vf::count("cases_rank" + std::to_string(r));
        long k = 0, tags = 0;
        for (size_t L = 0; L <= r + 1; L++) {
            Level lv;
            if (r == 1) lv = L <= 1 ? FULL : REDUCED;
            else if (r == 2) lv = L <= 1 ? FULL : L == 2 ? REDUCED : MINI;
            else lv = L <= 1 ? REDUCED : L <= 3 ? MINI : TINY;
            long t = run_entries(S, L, lv, k);
            tags += t;
            vf::count(L < r ? "tags_fewer_entries" : L == r ? "tags_equal_entries" : "tags_more_entries", t);
            if (vf::deadline_hit()) break;
        }
        vf::count("tags", tags);
        // ---- the axes of the referenced array and of the tagged feature are changed in place; the tags with as many entries as
        //      dimensions (and with one entry) are evaluated again against the new coordinates
        if (!vf::deadline_hit()) {
            int c1 = mutate_axes(S.ref), c2 = mutate_axes(S.ft);
            if (c1 > 0 && c2 >= 0) {
                g_after_axis_change = true;
                vf::case_desc(cfg.label + ": " + specs_name(cfg.specs) + " AFTER the axes of the referenced array and of the tagged feature were changed in place (ticks 2t+0.75; interval doubled, offset +0.75)");
                vf::count("configurations_with_axes_changed_in_place");
                long t2 = 0;
                for (size_t L : {r, (size_t)1}) { if (L == 1 && r == 1) break; t2 += run_entries(S, L, r == 1 ? REDUCED : r == 2 ? MINI : TINY, k); if (vf::deadline_hit()) break; }
                vf::count("tags_after_axis_change", t2);
                g_after_axis_change = false;
            } else if (c1 < 0 || c2 < 0) vf::count("axis_change_not_usable");
        }
        if (samples < 3 && (ci % 16 == vf::opt.shard % 16 || vf::opt.only >= 0)) {
            samples++;
            vf::sample("{\"case\":" + std::to_string(ci) + ",\"array\":" + vf::jstr(specs_name(cfg.specs)) + ",\"tagged_feature_array\":" +
                       vf::jstr(specs_name(tagged_feature_specs(cfg.specs))) + ",\"tags\":" + std::to_string(tags) +
                       ",\"axis0_coordinates\":" + vf::jvecd(S.ref.axes[0].c) + ",\"axis0_position_candidates\":" +
                       vf::jvecd(position_candidates(S.ref.axes[0], r == 1 ? FULL : r == 2 ? REDUCED : MINI)) + "}");
        }
        f.close();
        if (vf::deadline_hit()) break;
    }
    vf::note("configurations", std::to_string(cfgs.size()));
    return vf::finish();
}
