// C13 — dimension descriptors are gap-free and faithful; alias range dimensions mirror their array.
//
// Explicit-state exploration (E1) per array configuration (rank 1 x {Double, Int32, UInt8, String, Bool}; rank 2 and 3 x
// {Double, Int32}): every sequence (up to the depth bound) over the alphabet
//   appendSetDimension(no | 1 | n | n+1 labels)
//   appendSampledDimension(interval 1 | 0.1 | 0 | -1; label "" | "time"; unit "" | "ms" | "foo"; offset 0 | 2.5 | -2.5)
//   appendRangeDimension(ticks sorted | unsorted | with duplicates | length 1 | empty; label; unit "" | "s" | "foo")
//   appendAliasRangeDimension()
//   appendDataFrameDimension(frame; no column | 0 | last | last+1 | by name | unknown name | uninitialised frame)
//   createSetDimension(id) | createRangeDimension(id, ticks) | createSampledDimension(id, interval)   (deprecated)
//   every setter and none-setter of the sampled / range / set descriptor with legal and illegal values, addressed to the
//   first (some also to the last) descriptor of that kind
//   DataArray unit / label / setData / dataExtent / appendData           (alias mirroring)
//   deleteDimensions() | REOPEN
// is replayed on a fresh file.  A step is applied through the handle kept alive since it was obtained (array handle since
// creation, dimension handle as returned by append*) at even positions of the sequence and through freshly fetched handles
// (block.getDataArray / array.getDimension(i)) at odd positions.
// Reference model: the ordered list of descriptors (kind + attributes) plus the array's label, unit and (rank 1 numeric)
// data; an alias descriptor has no attributes of its own: its ticks / label / unit ARE the array's data / label / unit.
// Between the steps every attribute is read through the kept handles (so that a handle that caches what it read is exposed by
// a later write through another handle).
// After the LAST step of every sequence (every prefix is a sequence of its own) the whole state is read through five access
// paths and compared with the model: (1) the handles kept alive across the steps, (2) array.getDimension(i), (3)
// array.dimensions(), (4) a freshly fetched array handle, (5) after close + reopen ReadOnly ((2)/(3) take turns in reading
// every attribute vs. kind and index only, (4) reads every attribute on every other sequence; after a step that threw:
// (1), (2) and the comparison of (2) before / after the call).  Read: dimensionCount,
// dimensions().size, getDimension(0) / getDimension(n+1) (none or exception), per descriptor kind, index and every
// attribute (interval, offset [none == 0], ticks [also ticks(0,n)], labels, label, unit, alias flag, data-frame column
// index, frame id, the column's name / unit / type), the array's label / unit / extent / data.  In every state every range
// descriptor's ticks are ascending (std::is_sorted) and every sampling interval is > 0.
// Step classes (decided by the model, not by the library):
//   accept   must return normally and have the modelled effect
//   reject   the statement's preconditions: alias on a rank > 1 / non-numeric / already dimensioned / non-SI-unit array, a
//            non-SI unit written to an aliased array, a data-frame column that does not exist -> must throw, change nothing
//   illegal  unsorted ticks, non-positive interval: if it throws nothing changes; if it returns the invariants decide
//   either   empty label / unit string, non-SI unit of a non-alias descriptor, empty tick vector, a deprecated create with an
//            id past the end: the statement is silent; if it throws nothing changes, if it returns the value reads back as
//            given (and the descriptor is number count+1: no gap)
// Enumeration: per configuration an alphabet (a selection of the catalogue below; "core" letters marked); all sequences up to
// depth --depth (3) over the whole alphabet plus all sequences up to --depth-core (3 quick, 4 thorough; rank <= 2) over
// the core letters; letters that are not enabled in the model state (setter without a descriptor of the kind) are skipped.
// A sequence is not extended past a step that threw or after which something is wrong.  Unsorted data written through the
// ARRAY of an alias is outside the sortedness clause (the statement cannot hold both); only the mirroring is asserted.
// Violation signatures: C13|<operation>|<input class>|<assertion>|<deviation>.
#include <nix.hpp>
#include <algorithm>
#include <cstring>
#include "vf.hpp"

using namespace nix;

// ---------------------------------------------------------------- configurations
enum Level { LF = 1, LA = 2, LS = 4, LM = 8, LR = 16, LT = 32 };   // full | alias-focused | small | many appends | reduced | thorough tier only (with full)

struct Cfg {
    std::string label;
    DataType dt;
    std::vector<size_t> extent;
    int level;          // which letters of the catalogue make up the alphabet
    bool track;         // rank 1 numeric: the data is modelled, an alias is legal
    bool integer;       // data and ticks are integer valued (the element type cannot hold fractions)
};

static const char *tname(DataType t) {
    switch (t) {
    case DataType::Bool: return "Bool"; case DataType::Int32: return "Int32"; case DataType::UInt8: return "UInt8";
    case DataType::Double: return "Double"; case DataType::String: return "String"; default: return "other";
    }
}

static std::vector<Cfg> make_cfgs(bool thorough) {
    std::vector<Cfg> C;
    auto add = [&](DataType dt, std::vector<size_t> ext, int lv) {
        Cfg c; c.dt = dt; c.extent = ext; c.level = lv;
        c.track = ext.size() == 1 && (dt == DataType::Double || dt == DataType::Int32 || dt == DataType::UInt8);
        c.integer = c.track && dt != DataType::Double;
        c.label = "rank " + std::to_string(ext.size()) + " " + tname(dt);
        C.push_back(c);
    };
    add(DataType::Double, {3}, thorough ? (LF | LT) : LF);
    add(DataType::Int32, {3}, LA);
    add(DataType::UInt8, {3}, LA);
    add(DataType::String, {3}, LS);
    add(DataType::Bool, {3}, LS);
    add(DataType::Double, {2, 3}, LM);
    add(DataType::Int32, {2, 3}, LR);
    add(DataType::Double, {2, 3, 4}, thorough ? LM : LR);
    add(DataType::Int32, {2, 3, 4}, LR);
    return C;
}

// ---------------------------------------------------------------- letters
enum DK { K_SET, K_SMP, K_RNG, K_DFR };
static const char *KN[] = {"set", "sampled", "range", "data-frame"};

enum Op { APP_SET, APP_SMP, APP_RNG, APP_ALIAS, APP_DFR, DEP_SET, DEP_RNG, DEP_SMP,
          S_LABEL, S_UNIT, S_INTERVAL, S_OFFSET, S_TICKS, S_LABELS,
          A_UNIT, A_LABEL, A_SETDATA, A_EXTENT, A_APPEND, DEL_DIMS, REOPEN };

enum Tk { T_SORTED, T_UNSORTED, T_DUPS, T_LEN1, T_EMPTY };
static const char *TKN[] = {"sorted ticks", "unsorted ticks", "ticks with duplicates", "one tick", "empty tick vector"};
enum Dfm { DF_NOCOL, DF_0, DF_LAST, DF_LAST1, DF_NAME, DF_UNKNOWN, DF_UNINIT, DF_FOREIGN };

struct Letter {
    Op op = REOPEN;
    DK kind = K_SET;        // setters: kind of the addressed descriptor
    bool last = false;      // setters: the last descriptor of the kind instead of the first
    bool none = false;      // none-setter
    std::string s1, s2;     // label, unit (appends) / value (string setters)
    double d1 = 0, d2 = 0;  // interval, offset / value
    int tk = T_SORTED;      // tick class
    int n = 0;              // set labels: 0 none, 1 one, 2 n, 3 n+1, 4 the fixed pair, 5 empty vector; extents; id mode of the deprecated calls
    int dfm = DF_NOCOL;
    int levels = 0;
    bool core = false;
    std::string name;       // rendering
    std::string cls;        // input class (signatures)
    int ai = 0;
};

static bool is_si(const std::string &u) { return u == "ms" || u == "s" || u == "mV" || u == "Hz"; }

static std::vector<double> tickvec(const Cfg &c, int cls, int salt) {
    // salt: 0 append, 1 tick setter, 2 setData, 3 appendData, 4 initial data
    static const std::vector<double> F[5][5] = {
        {{-1.5, 0.25, 2.5}, {2.0, -1.0, 3.5}, {1.25, 1.25, 3.0}, {7.5}, {}},
        {{1.5, 2.25, 7.0, 7.5}, {3.0, 1.0, 2.5}, {0.5, 0.5, 2.0}, {5.5}, {}},
        {{0.25, 0.75, 2.5, 8.0}, {3.5, 1.25}, {}, {}, {}},
        {{9.5, 10.5}, {}, {}, {}, {}},
        {{0.5, 1.5, 4.0}, {}, {}, {}, {}}};
    static const std::vector<double> I[5][5] = {
        {{1, 3, 6}, {4, 2, 9}, {2, 2, 5}, {7}, {}},
        {{2, 3, 8, 9}, {6, 1, 3}, {1, 1, 4}, {5}, {}},
        {{1, 3, 5, 9}, {7, 2}, {}, {}, {}},
        {{20, 21}, {}, {}, {}, {}},
        {{1, 2, 4}, {}, {}, {}, {}}};
    return c.integer ? I[salt][cls] : F[salt][cls];
}

static std::string q(const std::string &s) { return "\"" + s + "\""; }

static std::vector<Letter> catalogue() {
    std::vector<Letter> A;
    auto push = [&](Letter l, int levels, bool core) { l.levels = levels; l.core = core; A.push_back(l); };
    const int ALL = LF | LA | LS | LM | LR | LT;
    // ---- appendSetDimension
    {
        static const char *nm[] = {"no labels", "1 label", "n labels", "n+1 labels"};
        const int lv[] = {ALL, LF | LM, LF | LM | LR, LF | LM | LS};
        const bool co[] = {true, false, true, false};
        for (int k = 0; k < 4; k++) { Letter l; l.op = APP_SET; l.n = k; l.name = std::string("appendSetDimension(") + nm[k] + ")"; l.cls = nm[k]; push(l, lv[k], co[k]); }
    }
    // ---- appendSampledDimension
    {
        struct S { double i; const char *lab, *unit; double off; int lv; bool core; const char *cls; };
        const S s[] = {
            {1.0, "", "", 0.0, ALL, true, "interval 1, defaults"},
            {0.1, "", "", 0.0, LF | LM, false, "interval 0.1, defaults"},
            {0.0, "", "", 0.0, LF | LS | LM | LR, true, "interval 0"},
            {-1.0, "", "", 0.0, LF | LM, false, "interval negative"},
            {1.0, "time", "ms", 0.0, LF | LM | LR, true, "label and SI unit"},
            {1.0, "", "foo", 0.0, LF | LS | LM, false, "non-SI unit"},
            {0.1, "time", "", 2.5, LF | LM, false, "offset positive"},
            {0.1, "", "", -2.5, LF | LM | LR, true, "offset negative"},
            {0.0, "time", "ms", 2.5, LT | LM, false, "interval 0 with label, unit and offset"}};
        for (auto &x : s) {
            Letter l; l.op = APP_SMP; l.d1 = x.i; l.s1 = x.lab; l.s2 = x.unit; l.d2 = x.off; l.cls = x.cls;
            l.name = "appendSampledDimension(" + vf::hexd(x.i) + "," + q(x.lab) + "," + q(x.unit) + "," + vf::hexd(x.off) + ")";
            push(l, x.lv, x.core);
        }
    }
    // ---- appendRangeDimension
    {
        struct S { int tk; const char *lab, *unit; int lv; bool core; const char *cls; };
        const S s[] = {
            {T_SORTED, "", "", ALL, true, "sorted ticks"},
            {T_SORTED, "time", "s", LF | LM | LR, true, "sorted ticks, label and SI unit"},
            {T_SORTED, "", "foo", LF | LS | LM, false, "sorted ticks, non-SI unit"},
            {T_UNSORTED, "", "", ALL, true, "unsorted ticks"},
            {T_UNSORTED, "time", "s", LT | LM, false, "unsorted ticks, label and SI unit"},
            {T_DUPS, "", "s", LF | LM, false, "ticks with duplicates"},
            {T_LEN1, "time", "", LF | LM, false, "one tick"},
            {T_EMPTY, "", "", LF | LS | LM, false, "empty tick vector"}};
        for (auto &x : s) {
            Letter l; l.op = APP_RNG; l.tk = x.tk; l.s1 = x.lab; l.s2 = x.unit; l.cls = x.cls;
            l.name = std::string("appendRangeDimension(") + TKN[x.tk] + "," + q(x.lab) + "," + q(x.unit) + ")";
            push(l, x.lv, x.core);
        }
    }
    { Letter l; l.op = APP_ALIAS; l.name = "appendAliasRangeDimension()"; l.cls = "alias"; push(l, ALL, true); }
    // ---- appendDataFrameDimension
    {
        static const char *nm[] = {"no column", "column 0", "last column", "column index == number of columns", "column by name", "unknown column name", "uninitialised frame",
                                   "frame of another block that carries the name of a frame of this block"};
        const int lv[] = {LF | LM | LR, ALL, LF | LM, LF | LS | LM | LR, LF | LM, LF | LS | LM, LT | LM, LF | LS | LM};
        const bool co[] = {false, true, false, true, false, false, false, true};
        for (int k = 0; k < 8; k++) { Letter l; l.op = APP_DFR; l.dfm = k; l.name = std::string("appendDataFrameDimension(frame, ") + nm[k] + ")"; l.cls = nm[k]; push(l, lv[k], co[k]); }
    }
    // ---- deprecated create*Dimension(id, ...): n = 0 -> id = count+1, n = 1 -> id = count+2 (would leave a gap if honoured; may be refused)
    { Letter l; l.op = DEP_SET; l.n = 1; l.name = "createSetDimension(id=count+2)"; l.cls = "id past the end"; push(l, LF | LM | LR, true); }
    { Letter l; l.op = DEP_RNG; l.n = 0; l.tk = T_SORTED; l.name = "createRangeDimension(id=count+1, sorted ticks)"; l.cls = "sorted ticks"; push(l, LF | LM, false); }
    { Letter l; l.op = DEP_RNG; l.n = 1; l.tk = T_UNSORTED; l.name = "createRangeDimension(id=count+2, unsorted ticks)"; l.cls = "unsorted ticks"; push(l, LF | LM | LR, false); }
    { Letter l; l.op = DEP_SMP; l.n = 1; l.d1 = 0.5; l.name = "createSampledDimension(id=count+2, 0.5)"; l.cls = "id past the end"; push(l, LF | LM, false); }
    { Letter l; l.op = DEP_SMP; l.n = 0; l.d1 = -1.0; l.name = "createSampledDimension(id=count+1, -1)"; l.cls = "interval negative"; push(l, LF | LM | LR, false); }
    // ---- setters
    auto setter = [&](Op op, DK k, const std::string &fn, const std::string &arg, const std::string &cls, int lv, bool core) {
        Letter l; l.op = op; l.kind = k; l.cls = cls; l.name = std::string(KN[k]) + " (first)." + fn + "(" + arg + ")";
        l.levels = lv; l.core = core; return l;
    };
    {   // sampled
        Letter l;
        l = setter(S_LABEL, K_SMP, "label", q("t2"), "label", LF | LS, true); l.s1 = "t2"; A.push_back(l);
        l = setter(S_LABEL, K_SMP, "label", q(""), "empty label", LF, false); l.s1 = ""; A.push_back(l);
        l = setter(S_LABEL, K_SMP, "label", "none", "label none", LF | LM, false); l.none = true; A.push_back(l);
        l = setter(S_UNIT, K_SMP, "unit", q("s"), "SI unit", LF | LM, true); l.s1 = "s"; A.push_back(l);
        l = setter(S_UNIT, K_SMP, "unit", q("foo"), "non-SI unit", LF | LS, false); l.s1 = "foo"; A.push_back(l);
        l = setter(S_UNIT, K_SMP, "unit", q(""), "empty unit", LT, false); l.s1 = ""; A.push_back(l);
        l = setter(S_UNIT, K_SMP, "unit", "none", "unit none", LF, false); l.none = true; A.push_back(l);
        l = setter(S_INTERVAL, K_SMP, "samplingInterval", "2.5", "interval positive", LF | LM, true); l.d1 = 2.5; A.push_back(l);
        l = setter(S_INTERVAL, K_SMP, "samplingInterval", "0", "interval 0", LF | LS | LM, true); l.d1 = 0.0; A.push_back(l);
        l = setter(S_INTERVAL, K_SMP, "samplingInterval", "-0.5", "interval negative", LF | LR, false); l.d1 = -0.5; A.push_back(l);
        l = setter(S_OFFSET, K_SMP, "offset", "1.5", "offset positive", LF | LR, false); l.d1 = 1.5; A.push_back(l);
        l = setter(S_OFFSET, K_SMP, "offset", "-3.25", "offset negative", LF | LS | LM, true); l.d1 = -3.25; A.push_back(l);
        l = setter(S_OFFSET, K_SMP, "offset", "0", "offset 0", LF | LM, true); l.d1 = 0.0; A.push_back(l);
        l = setter(S_OFFSET, K_SMP, "offset", "none", "offset none", LF, true); l.none = true; A.push_back(l);
        l = setter(S_INTERVAL, K_SMP, "samplingInterval", "4", "interval positive", LF, false); l.d1 = 4.0; l.last = true; l.name = "sampled (last).samplingInterval(4)"; A.push_back(l);
    }
    {   // range (applies to an alias as well)
        Letter l;
        l = setter(S_LABEL, K_RNG, "label", q("x"), "label", LF | LA | LR, true); l.s1 = "x"; A.push_back(l);
        l = setter(S_LABEL, K_RNG, "label", q(""), "empty label", LF | LA | LS, false); l.s1 = ""; A.push_back(l);
        l = setter(S_LABEL, K_RNG, "label", "none", "label none", LF | LA | LM, false); l.none = true; A.push_back(l);
        l = setter(S_UNIT, K_RNG, "unit", q("mV"), "SI unit", LF | LA | LS | LM, true); l.s1 = "mV"; A.push_back(l);
        l = setter(S_UNIT, K_RNG, "unit", q("foo"), "non-SI unit", LF | LA, false); l.s1 = "foo"; A.push_back(l);
        l = setter(S_UNIT, K_RNG, "unit", "none", "unit none", LF | LA, true); l.none = true; A.push_back(l);
        l = setter(S_TICKS, K_RNG, "ticks", TKN[T_SORTED], "sorted ticks", LF | LA | LM, true); l.tk = T_SORTED; A.push_back(l);
        l = setter(S_TICKS, K_RNG, "ticks", TKN[T_UNSORTED], "unsorted ticks", LF | LA | LS | LM | LR, true); l.tk = T_UNSORTED; A.push_back(l);
        l = setter(S_TICKS, K_RNG, "ticks", TKN[T_DUPS], "ticks with duplicates", LF | LA, false); l.tk = T_DUPS; A.push_back(l);
        l = setter(S_TICKS, K_RNG, "ticks", TKN[T_LEN1], "one tick", LT | LA, false); l.tk = T_LEN1; A.push_back(l);
        l = setter(S_TICKS, K_RNG, "ticks", TKN[T_EMPTY], "empty tick vector", LF | LA, false); l.tk = T_EMPTY; A.push_back(l);
        l = setter(S_TICKS, K_RNG, "ticks", TKN[T_LEN1], "one tick", LF | LA, false); l.tk = T_LEN1; l.last = true; l.name = "range (last).ticks(one tick)"; A.push_back(l);
    }
    {   // set
        Letter l;
        l = setter(S_LABEL, K_SET, "label", q("cond"), "label", LF | LM, true); l.s1 = "cond"; A.push_back(l);
        l = setter(S_LABEL, K_SET, "label", q(""), "empty label", LF | LS, false); l.s1 = ""; A.push_back(l);
        l = setter(S_LABEL, K_SET, "label", "none", "label none", LF, false); l.none = true; A.push_back(l);
        l = setter(S_LABELS, K_SET, "labels", "[\"x\",\"y\"]", "two labels", LF | LS | LM | LR, true); l.n = 4; A.push_back(l);
        l = setter(S_LABELS, K_SET, "labels", "[]", "empty label vector", LT, false); l.n = 5; A.push_back(l);
        l = setter(S_LABELS, K_SET, "labels", "none", "labels none", LF | LM, true); l.none = true; A.push_back(l);
        l = setter(S_LABEL, K_SET, "label", q("second"), "label", LF, false); l.s1 = "second"; l.last = true; l.name = "set (last).label(\"second\")"; A.push_back(l);
    }
    // ---- the array itself
    { Letter l; l.op = A_UNIT; l.s1 = "mV"; l.name = "array.unit(\"mV\")"; l.cls = "SI unit"; push(l, ALL, true); }
    { Letter l; l.op = A_UNIT; l.s1 = "foo"; l.name = "array.unit(\"foo\")"; l.cls = "non-SI unit"; push(l, LF | LA | LS | LM, true); }
    { Letter l; l.op = A_UNIT; l.none = true; l.name = "array.unit(none)"; l.cls = "unit none"; push(l, LF | LA, false); }
    { Letter l; l.op = A_LABEL; l.s1 = "sig"; l.name = "array.label(\"sig\")"; l.cls = "label"; push(l, LF | LA | LS, true); }
    { Letter l; l.op = A_LABEL; l.none = true; l.name = "array.label(none)"; l.cls = "label none"; push(l, LF | LA, false); }
    { Letter l; l.op = A_SETDATA; l.tk = T_SORTED; l.name = "array.setData(4 sorted values)"; l.cls = "sorted data"; push(l, LF | LA, true); }
    { Letter l; l.op = A_SETDATA; l.tk = T_UNSORTED; l.name = "array.setData(2 unsorted values)"; l.cls = "unsorted data"; push(l, LF | LA, true); }
    { Letter l; l.op = A_EXTENT; l.n = 2; l.name = "array.dataExtent({2})"; l.cls = "shrink"; push(l, LF | LA, false); }
    { Letter l; l.op = A_EXTENT; l.n = 5; l.name = "array.dataExtent({5})"; l.cls = "grow"; push(l, LT | LA, false); }
    { Letter l; l.op = A_APPEND; l.name = "array.appendData(2 values)"; l.cls = "append"; push(l, LF | LA, true); }
    { Letter l; l.op = DEL_DIMS; l.name = "deleteDimensions()"; l.cls = "-"; push(l, ALL, true); }
    { Letter l; l.op = REOPEN; l.name = "REOPEN"; l.cls = "-"; push(l, ALL, true); }
    return A;
}

static std::vector<Letter> make_alphabet(const Cfg &c) {
    std::vector<Letter> A;
    for (const Letter &l : catalogue()) if (l.levels & c.level) A.push_back(l);
    for (size_t i = 0; i < A.size(); i++) A[i].ai = (int)i;
    return A;
}

// ---------------------------------------------------------------- reference model
struct Desc {
    DK kind = K_SET;
    std::string label, unit;              // "" = none
    double interval = 0, offset = 0;      // offset none == 0
    std::vector<double> ticks;
    std::vector<std::string> labels;
    bool alias = false;
    int col = -1;                         // -1 = no column
};

static const int NCOLS = 3;
static std::vector<Column> frame_columns() {
    std::vector<Column> c(3);
    c[0].name = "c0"; c[0].unit = "ms"; c[0].dtype = DataType::Double;
    c[1].name = "name"; c[1].unit = ""; c[1].dtype = DataType::String;
    c[2].name = "c2"; c[2].unit = "mV"; c[2].dtype = DataType::Int32;
    return c;
}

enum Cl { C_OFF = 0, C_ACCEPT = 1, C_REJECT = 2, C_EITHER = 3, C_ILLEGAL = 4 };

struct Model {
    const Cfg *c;
    std::vector<Desc> dims;
    std::string alabel, aunit;
    std::vector<double> data;
    explicit Model(const Cfg &cf) : c(&cf) { if (cf.track) data = tickvec(cf, 0, 4); }

    int find(DK k, bool last) const {
        int r = -1;
        for (size_t i = 0; i < dims.size(); i++) if (dims[i].kind == k) { r = (int)i; if (!last) break; }
        return r;
    }
    bool has_alias() const { for (auto &d : dims) if (d.alias) return true; return false; }
    int target(const Letter &l) const {
        int t = find(l.kind, l.last);
        if (t >= 0 && l.last && find(l.kind, false) == t) return -1;
        return t;
    }
    std::vector<std::string> set_labels(const Letter &l) const {
        size_t n = dims.size() < c->extent.size() ? c->extent[dims.size()] : 2;
        size_t k = l.n == 0 ? 0 : l.n == 1 ? 1 : l.n == 2 ? n : n + 1;
        std::vector<std::string> v;
        for (size_t i = 0; i < k; i++) v.push_back("L" + std::to_string(i));
        return v;
    }

    Cl classify(const Letter &l) const {
        switch (l.op) {
        // the deprecated create*Dimension(id) with an id past the end: appended at count+1 or refused, never a gap
        case APP_SET: return C_ACCEPT;
        case DEP_SET: return l.n == 1 ? C_EITHER : C_ACCEPT;
        case APP_SMP: case DEP_SMP:
            if (l.d1 <= 0.0) return C_ILLEGAL;
            if (!l.s2.empty() && !is_si(l.s2)) return C_EITHER;
            return (l.op == DEP_SMP && l.n == 1) ? C_EITHER : C_ACCEPT;
        case APP_RNG: case DEP_RNG:
            if (l.tk == T_UNSORTED) return C_ILLEGAL;
            if (l.tk == T_EMPTY) return C_EITHER;
            if (!l.s2.empty() && !is_si(l.s2)) return C_EITHER;
            return (l.op == DEP_RNG && l.n == 1) ? C_EITHER : C_ACCEPT;
        case APP_ALIAS: return (c->track && dims.empty() && (aunit.empty() || is_si(aunit))) ? C_ACCEPT : C_REJECT;
        case APP_DFR: return l.dfm == DF_FOREIGN ? C_ILLEGAL : (l.dfm == DF_LAST1 || l.dfm == DF_UNKNOWN || l.dfm == DF_UNINIT) ? C_REJECT : C_ACCEPT;
        case S_LABEL: if (target(l) < 0) return C_OFF; return l.none ? C_ACCEPT : l.s1.empty() ? C_EITHER : C_ACCEPT;
        case S_UNIT: {
            int t = target(l); if (t < 0) return C_OFF;
            if (l.none) return C_ACCEPT;
            if (l.s1.empty()) return C_EITHER;
            if (!is_si(l.s1)) return dims[t].alias ? C_REJECT : C_EITHER;
            return C_ACCEPT;
        }
        case S_INTERVAL: if (target(l) < 0) return C_OFF; return l.d1 <= 0.0 ? C_ILLEGAL : C_ACCEPT;
        case S_OFFSET: return target(l) < 0 ? C_OFF : C_ACCEPT;
        case S_TICKS: if (target(l) < 0) return C_OFF; return l.tk == T_UNSORTED ? C_ILLEGAL : l.tk == T_EMPTY ? C_EITHER : C_ACCEPT;
        case S_LABELS: return target(l) < 0 ? C_OFF : C_ACCEPT;
        case A_UNIT: return (!l.none && !is_si(l.s1) && has_alias()) ? C_REJECT : C_ACCEPT;
        case A_LABEL: return C_ACCEPT;
        case A_SETDATA: case A_EXTENT: case A_APPEND: return c->track ? C_ACCEPT : C_OFF;
        case DEL_DIMS: case REOPEN: return C_ACCEPT;
        }
        return C_OFF;
    }

    void apply(const Letter &l) {
        switch (l.op) {
        case APP_SET: { Desc d; d.kind = K_SET; d.labels = set_labels(l); dims.push_back(d); break; }
        case DEP_SET: { Desc d; d.kind = K_SET; dims.push_back(d); break; }
        case APP_SMP: { Desc d; d.kind = K_SMP; d.interval = l.d1; d.label = l.s1; d.unit = l.s2; d.offset = l.d2; dims.push_back(d); break; }
        case DEP_SMP: { Desc d; d.kind = K_SMP; d.interval = l.d1; dims.push_back(d); break; }
        case APP_RNG: { Desc d; d.kind = K_RNG; d.ticks = tickvec(*c, l.tk, 0); d.label = l.s1; d.unit = l.s2; dims.push_back(d); break; }
        case DEP_RNG: { Desc d; d.kind = K_RNG; d.ticks = tickvec(*c, l.tk, 0); dims.push_back(d); break; }
        case APP_ALIAS: { Desc d; d.kind = K_RNG; d.alias = true; dims.push_back(d); break; }
        case APP_DFR: { Desc d; d.kind = K_DFR; d.col = l.dfm == DF_NOCOL ? -1 : l.dfm == DF_0 ? 0 : l.dfm == DF_LAST ? NCOLS - 1 : 1; dims.push_back(d); break; }
        case S_LABEL: { Desc &d = dims[target(l)]; (d.alias ? alabel : d.label) = l.none ? "" : l.s1; break; }
        case S_UNIT: { Desc &d = dims[target(l)]; (d.alias ? aunit : d.unit) = l.none ? "" : l.s1; break; }
        case S_INTERVAL: dims[target(l)].interval = l.d1; break;
        case S_OFFSET: dims[target(l)].offset = l.none ? 0.0 : l.d1; break;
        case S_TICKS: { Desc &d = dims[target(l)]; (d.alias ? data : d.ticks) = tickvec(*c, l.tk, 1); break; }
        case S_LABELS: { Desc &d = dims[target(l)]; d.labels.clear(); if (!l.none && l.n == 4) d.labels = {"x", "y"}; break; }
        case A_UNIT: aunit = l.none ? "" : l.s1; break;
        case A_LABEL: alabel = l.none ? "" : l.s1; break;
        case A_SETDATA: data = tickvec(*c, l.tk, 2); break;
        case A_EXTENT: data.resize((size_t)l.n, 0.0); break;
        case A_APPEND: { auto v = tickvec(*c, 0, 3); data.insert(data.end(), v.begin(), v.end()); break; }
        case DEL_DIMS: dims.clear(); break;
        case REOPEN: break;
        }
    }

    std::string state_key(bool fresh_session) const {
        std::string k = c->label + "|";
        for (auto &d : dims) {
            k += d.alias ? "alias" : KN[d.kind];
            k += "(" + d.label + "," + d.unit + "," + vf::hexd(d.interval) + "," + vf::hexd(d.offset) + "," + vf::jvecd(d.ticks) + "," + vf::jvecs(d.labels) + "," + std::to_string(d.col) + ")";
        }
        k += "|" + alabel + "|" + aunit + "|" + vf::jvecd(data) + (fresh_session ? "|fresh" : "|same");
        return k;
    }
};

static const char *CLN[] = {"off", "accept", "reject", "either", "illegal"};

static std::string op_name(const Model &m, const Letter &l) {
    auto tk = [&](const char *base) { int t = m.target(l); return std::string(base) + (t >= 0 && m.dims[t].alias ? " (alias)" : ""); };
    switch (l.op) {
    case APP_SET: return "appendSetDimension";
    case APP_SMP: return "appendSampledDimension";
    case APP_RNG: return "appendRangeDimension";
    case APP_ALIAS: return "appendAliasRangeDimension";
    case APP_DFR: return "appendDataFrameDimension";
    case DEP_SET: return "createSetDimension";
    case DEP_RNG: return "createRangeDimension";
    case DEP_SMP: return "createSampledDimension";
    case S_LABEL: return l.kind == K_RNG ? tk("RangeDimension::label") : l.kind == K_SMP ? "SampledDimension::label" : "SetDimension::label";
    case S_UNIT: return l.kind == K_RNG ? tk("RangeDimension::unit") : "SampledDimension::unit";
    case S_INTERVAL: return "SampledDimension::samplingInterval";
    case S_OFFSET: return "SampledDimension::offset";
    case S_TICKS: return tk("RangeDimension::ticks");
    case S_LABELS: return "SetDimension::labels";
    case A_UNIT: return m.has_alias() ? "DataArray::unit (aliased array)" : "DataArray::unit";
    case A_LABEL: return m.has_alias() ? "DataArray::label (aliased array)" : "DataArray::label";
    case A_SETDATA: return m.has_alias() ? "DataArray::setData (aliased array)" : "DataArray::setData";
    case A_EXTENT: return m.has_alias() ? "DataArray::dataExtent (aliased array)" : "DataArray::dataExtent";
    case A_APPEND: return m.has_alias() ? "DataArray::appendData (aliased array)" : "DataArray::appendData";
    case DEL_DIMS: return "deleteDimensions";
    case REOPEN: return "REOPEN";
    }
    return "?";
}

// why an alias append / unit write has to be refused (input class of the signature)
static std::string precondition(const Model &m, const Letter &l) {
    if (l.op == APP_ALIAS) {
        if (m.c->extent.size() > 1) return "array of rank > 1";
        if (!m.c->track) return std::string("non-numeric array (") + tname(m.c->dt) + ")";
        if (!m.dims.empty()) return m.has_alias() ? "array already has an alias" : "array already has dimensions";
        if (!m.aunit.empty() && !is_si(m.aunit)) return "array with non-SI unit";
        return "1-D numeric array without dimensions";
    }
    if (l.op == A_UNIT && m.has_alias()) return l.cls + (m.dims.size() > 1 ? ", alias plus further dimensions" : ", alias only");
    return l.cls;
}

// ---------------------------------------------------------------- observation
struct Entry { std::string key, val, cls; };     // cls: class of the observable (signatures)
typedef std::vector<Entry> Obs;

struct H {                       // a dimension handle with its typed view
    Dimension d;
    SetDimension set; SampledDimension smp; RangeDimension rng; DataFrameDimension dfr;
};

static H typed(const Dimension &d, bool by_assignment) {
    H h; h.d = d;
    if (!d) return h;
    switch (d.dimensionType()) {
    case DimensionType::Set: if (by_assignment) h.set = d; else h.set = d.asSetDimension(); break;
    case DimensionType::Sample: if (by_assignment) h.smp = d; else h.smp = d.asSampledDimension(); break;
    case DimensionType::Range: if (by_assignment) h.rng = d; else h.rng = d.asRangeDimension(); break;
    case DimensionType::DataFrame: if (by_assignment) h.dfr = d; else h.dfr = d.asDataFrameDimension(); break;
    }
    return h;
}

static long g_getters = 0;
static std::string ostr(const boost::optional<std::string> &o) { return o ? *o : std::string(); }

// one observable, guarded
static void put(Obs &o, const std::string &key, const std::string &cls, const std::function<std::string()> &f) {
    std::string v, what;
    std::string exc = vf::guarded([&] { v = f(); }, &what);
    g_getters++;
    o.push_back(Entry{key, exc.empty() ? v : exc, cls});
}

static const char *dtn(DimensionType t) {
    switch (t) { case DimensionType::Set: return "set"; case DimensionType::Sample: return "sampled"; case DimensionType::Range: return "range"; case DimensionType::DataFrame: return "data-frame"; }
    return "?";
}

// all observables of descriptor number pos (1-based) through handle h; kc: kind class expected by the model (signatures)
static void obs_dim(Obs &o, int pos, const H &h, const std::string &kc, bool shallow = false) {
    const std::string p = "dim" + std::to_string(pos) + ".";
    if (!h.d) { o.push_back(Entry{p + "kind", "none", kc + " kind"}); return; }
    DimensionType t = DimensionType::Set;
    std::string what;
    std::string exc = vf::guarded([&] { t = h.d.dimensionType(); }, &what);
    g_getters++;
    if (!exc.empty()) { o.push_back(Entry{p + "kind", exc, kc + " kind"}); return; }
    o.push_back(Entry{p + "kind", dtn(t), kc + " kind"});
    if (shallow) { put(o, p + "index", kc + " index", [&] { return std::to_string(h.d.index()); }); return; }
    switch (t) {
    case DimensionType::Set: {
        const SetDimension &s = h.set;
        if (!s) { o.push_back(Entry{p + "typed", "none", kc + " typed handle"}); return; }
        put(o, p + "index", kc + " index", [&] { return std::to_string(s.index()); });
        put(o, p + "label", kc + " label", [&] { return ostr(s.label()); });
        put(o, p + "labels", kc + " labels", [&] { return vf::jvecs(s.labels()); });
        break;
    }
    case DimensionType::Sample: {
        const SampledDimension &s = h.smp;
        if (!s) { o.push_back(Entry{p + "typed", "none", kc + " typed handle"}); return; }
        put(o, p + "index", kc + " index", [&] { return std::to_string(s.index()); });
        put(o, p + "label", kc + " label", [&] { return ostr(s.label()); });
        put(o, p + "unit", kc + " unit", [&] { return ostr(s.unit()); });
        double iv = 1.0; bool have = false;
        put(o, p + "interval", kc + " sampling interval", [&] { iv = s.samplingInterval(); have = true; return vf::hexd(iv); });
        o.push_back(Entry{p + "interval>0", (!have || iv > 0.0) ? "yes" : "no", "sampling interval > 0 in every state"});
        put(o, p + "offset", kc + " offset", [&] { auto x = s.offset(); return vf::hexd(x ? *x : 0.0); });
        break;
    }
    case DimensionType::Range: {
        const RangeDimension &s = h.rng;
        if (!s) { o.push_back(Entry{p + "typed", "none", kc + " typed handle"}); return; }
        put(o, p + "index", kc + " index", [&] { return std::to_string(s.index()); });
        bool al = false;
        put(o, p + "alias", kc + " alias flag", [&] { al = s.alias(); return std::string(al ? "true" : "false"); });
        put(o, p + "label", kc + " label", [&] { return ostr(s.label()); });
        put(o, p + "unit", kc + " unit", [&] { return ostr(s.unit()); });
        std::vector<double> tv; bool have = false;
        put(o, p + "ticks", kc + " ticks", [&] { tv = s.ticks(); have = true; return vf::jvecd(tv); });
        if (have && !tv.empty()) put(o, p + "ticks(0,n)", kc + " ticks(start,count)", [&] { return vf::jvecd(s.ticks(0, tv.size())); });
        o.push_back(Entry{p + "ticks ascending", (!have || std::is_sorted(tv.begin(), tv.end())) ? "yes" : "no", "range ticks ascending in every state"});
        break;
    }
    case DimensionType::DataFrame: {
        const DataFrameDimension &s = h.dfr;
        if (!s) { o.push_back(Entry{p + "typed", "none", kc + " typed handle"}); return; }
        put(o, p + "index", kc + " index", [&] { return std::to_string(Dimension(s).index()); });
        boost::optional<unsigned> ci;
        put(o, p + "column", kc + " column index", [&] { ci = s.columnIndex(); return ci ? std::to_string(*ci) : std::string("none"); });
        put(o, p + "frame", kc + " frame", [&] { DataFrame f = s.data(); return f ? f.name() + "/" + f.id() : std::string("none"); });
        put(o, p + "column name", kc + " column name", [&] { return s.label(); });
        if (ci) {
            put(o, p + "column unit", kc + " column unit", [&] { return s.unit(); });
            put(o, p + "column type", kc + " column type", [&] { return std::string(tname(s.columnDataType())); });
        }
        break;
    }
    }
}

static std::string kind_class(const Desc &d) { return d.alias ? "alias" : KN[d.kind]; }

// what the model says the observation is
static Obs expected(const Model &m, const std::string &frame_ref, bool with_data) {
    Obs o;
    const std::vector<Column> cols = frame_columns();
    o.push_back(Entry{"dimensionCount", std::to_string(m.dims.size()), "dimensionCount"});
    o.push_back(Entry{"dimensions().size", std::to_string(m.dims.size()), "dimensions().size"});
    o.push_back(Entry{"getDimension(0)", "none", "getDimension(0)"});
    o.push_back(Entry{"getDimension(n+1)", "none", "getDimension(n+1)"});
    for (size_t i = 0; i < m.dims.size(); i++) {
        const Desc &d = m.dims[i];
        const std::string p = "dim" + std::to_string(i + 1) + ".", kc = kind_class(d);
        o.push_back(Entry{p + "kind", KN[d.kind], kc + " kind"});
        o.push_back(Entry{p + "index", std::to_string(i + 1), kc + " index"});
        switch (d.kind) {
        case K_SET:
            o.push_back(Entry{p + "label", d.label, kc + " label"});
            o.push_back(Entry{p + "labels", vf::jvecs(d.labels), kc + " labels"});
            break;
        case K_SMP:
            o.push_back(Entry{p + "label", d.label, kc + " label"});
            o.push_back(Entry{p + "unit", d.unit, kc + " unit"});
            o.push_back(Entry{p + "interval", vf::hexd(d.interval), kc + " sampling interval"});
            o.push_back(Entry{p + "interval>0", "yes", "sampling interval > 0 in every state"});
            o.push_back(Entry{p + "offset", vf::hexd(d.offset), kc + " offset"});
            break;
        case K_RNG: {
            const std::vector<double> &tv = d.alias ? m.data : d.ticks;
            o.push_back(Entry{p + "alias", d.alias ? "true" : "false", kc + " alias flag"});
            o.push_back(Entry{p + "label", d.alias ? m.alabel : d.label, kc + " label"});
            o.push_back(Entry{p + "unit", d.alias ? m.aunit : d.unit, kc + " unit"});
            o.push_back(Entry{p + "ticks", vf::jvecd(tv), kc + " ticks"});
            if (!tv.empty()) o.push_back(Entry{p + "ticks(0,n)", vf::jvecd(tv), kc + " ticks(start,count)"});
            // an alias shows the array's data: unsorted values written through the ARRAY are outside the clause (the mirror wins)
            o.push_back(Entry{p + "ticks ascending", (!d.alias || std::is_sorted(tv.begin(), tv.end())) ? "yes" : "no", "range ticks ascending in every state"});
            break;
        }
        case K_DFR:
            o.push_back(Entry{p + "column", d.col < 0 ? "none" : std::to_string(d.col), kc + " column index"});
            o.push_back(Entry{p + "frame", frame_ref, kc + " frame"});
            o.push_back(Entry{p + "column name", d.col < 0 ? "frame" : cols[d.col].name, kc + " column name"});
            if (d.col >= 0) {
                o.push_back(Entry{p + "column unit", cols[d.col].unit, kc + " column unit"});
                o.push_back(Entry{p + "column type", tname(cols[d.col].dtype), kc + " column type"});
            }
            break;
        }
    }
    o.push_back(Entry{"array.label", m.alabel, m.has_alias() ? "label of the aliased array" : "array label"});
    o.push_back(Entry{"array.unit", m.aunit, m.has_alias() ? "unit of the aliased array" : "array unit"});
    if (m.c->track) {
        o.push_back(Entry{"array.extent", "[" + std::to_string(m.data.size()) + "]", m.has_alias() ? "extent of the aliased array" : "array extent"});
        if (with_data) o.push_back(Entry{"array.data", vf::jvecd(m.data), m.has_alias() ? "data of the aliased array" : "array data"});
    }
    return o;
}

// observation through an array handle; kept: the dimension handles kept alive (else fetched by getDimension / dimensions())
static Obs observe(const DataArray &a, const Model &m, const std::vector<H> *kept, bool use_list, bool with_data, bool shallow = false) {
    Obs o;
    ndsize_t n = 0;
    put(o, "dimensionCount", "dimensionCount", [&] { n = a.dimensionCount(); return std::to_string(n); });
    std::vector<Dimension> list;
    put(o, "dimensions().size", "dimensions().size", [&] { list = a.dimensions(); return std::to_string(list.size()); });
    put(o, "getDimension(0)", "getDimension(0)", [&]() -> std::string { try { Dimension d = a.getDimension(0); return d ? std::string("a ") + dtn(d.dimensionType()) + " dimension" : std::string("none"); } catch (const std::exception &) { return std::string("none"); } });
    put(o, "getDimension(n+1)", "getDimension(n+1)", [&]() -> std::string { try { Dimension d = a.getDimension(n + 1); return d ? std::string("a ") + dtn(d.dimensionType()) + " dimension" : std::string("none"); } catch (const std::exception &) { return std::string("none"); } });
    // descriptors 1..max(n, model): a descriptor the model does not know shows up as an unexpected key
    size_t upto = kept ? kept->size() : use_list ? list.size() : (size_t)std::min<ndsize_t>(n, 8);
    if (!kept && upto < m.dims.size()) upto = m.dims.size();
    for (size_t i = 0; i < upto; i++) {
        const std::string kc = i < m.dims.size() ? kind_class(m.dims[i]) : "surplus";
        if (kept) obs_dim(o, (int)i + 1, (*kept)[i], kc, shallow);
        else {
            H h; std::string what;
            std::string exc = vf::guarded([&] { h = use_list ? (i < list.size() ? typed(list[i], true) : H()) : typed(a.getDimension(i + 1), false); }, &what);
            g_getters++;
            if (!exc.empty()) o.push_back(Entry{"dim" + std::to_string(i + 1) + ".kind", exc, kc + " kind"});
            else obs_dim(o, (int)i + 1, h, kc, shallow);
        }
    }
    const bool al = m.has_alias();
    put(o, "array.label", al ? "label of the aliased array" : "array label", [&] { return ostr(a.label()); });
    put(o, "array.unit", al ? "unit of the aliased array" : "array unit", [&] { return ostr(a.unit()); });
    if (m.c->track) {
        ndsize_t nel = 0;
        put(o, "array.extent", al ? "extent of the aliased array" : "array extent", [&] { NDSize e = a.dataExtent(); nel = e.nelms(); std::string s = "["; for (size_t i = 0; i < e.size(); i++) s += (i ? "," : "") + std::to_string(e[i]); return s + "]"; });
        if (with_data) put(o, "array.data", al ? "data of the aliased array" : "array data", [&] { std::vector<double> v; if (nel > 0) a.getData(v); return vf::jvecd(v); });
    }
    return o;
}

static std::string render(const Obs &o) { std::string s; for (auto &e : o) s += e.key + "=" + e.val + "; "; return s; }

static std::string deviation(const std::string &key, const std::string &got, const std::string &want) {
    if (got == "<absent>") return "not observable";
    if (want == "<absent>") return "surplus descriptor or attribute";
    if (got.compare(0, 4, "exc:") == 0) return "getter throws " + got.substr(4);
    if (key == "dimensionCount" || key == "dimensions().size") return atol(got.c_str()) > atol(want.c_str()) ? "too large" : "too small";
    if (key.find("ascending") != std::string::npos) return "unsorted ticks stored";
    if (key.find("interval>0") != std::string::npos) return "non-positive interval stored";
    if (got.empty() || got == "none" || got == "[]") return "value lost";
    if (want.empty() || want == "none" || want == "[]") return "value where none is expected";
    if (key.find("offset") != std::string::npos && got == vf::hexd(0.0)) return "value lost";
    return "other value";
}

// ---------------------------------------------------------------- runner
struct Runner {
    const Cfg &C;
    std::string path;
    Runner(const Cfg &c, const std::string &p) : C(c), path(p) {}

    bool quiet = false;
    long nviol = 0;
    std::string trace;
    void viol(const std::string &sig, const std::string &what) { nviol++; if (!quiet) vf::violation(sig, what); }
    void cnt(const char *name, long n = 1) { if (!quiet) vf::count(name, n); }
    void dst(const char *bucket, const std::string &v) { if (!quiet) vf::distinct(bucket, v); }

    struct Path { std::string name; Obs obs; bool partial; };     // partial: reads only some observables

    // compares the access paths with the model; reports the first deviating observable
    // returns false if something deviates
    bool compare(const std::vector<Path> &paths, const Obs &E, const std::string &op, const std::string &icls, bool invariants_only) {
        std::map<std::string, std::pair<std::string, std::string>> em;       // key -> (value, class)
        for (auto &e : E) em[e.key] = std::make_pair(e.val, e.cls);
        // keys in the order of the expectation, then surplus keys of the paths
        std::vector<std::pair<std::string, std::string>> keys;               // (key, class)
        for (auto &e : E) keys.push_back(std::make_pair(e.key, e.cls));
        std::set<std::string> seen; for (auto &k : keys) seen.insert(k.first);
        for (auto &p : paths) for (auto &e : p.obs) if (seen.insert(e.key).second) keys.push_back(std::make_pair(e.key, e.cls));
        for (auto &k : keys) {
            const bool inv = k.first.find("ascending") != std::string::npos || k.first.find("interval>0") != std::string::npos;
            if (invariants_only && !inv) continue;
            const std::string want = em.count(k.first) ? em[k.first].first : inv ? "yes" : "<absent>";
            std::vector<std::string> bad, badval;
            size_t readers = 0;
            for (auto &p : paths) {
                std::string got = "<absent>";
                for (auto &e : p.obs) if (e.key == k.first) { got = e.val; break; }
                if (got == "<absent>" && (invariants_only || p.partial || k.first == "array.data")) continue;
                readers++;
                if (got != want) { bad.push_back(p.name); badval.push_back(got); }
            }
            if (bad.empty()) continue;
            bool same = true; for (auto &v : badval) if (v != badval[0]) same = false;
            const std::string dev = deviation(k.first, badval[0], want);
            std::string sig, what;
            if (bad.size() == readers && same) {
                sig = "C13|" + op + "|" + icls + "|" + k.second + (inv ? "" : " reads back as the history says") + "|" + dev;
                what = k.first + " = " + badval[0] + " through every access path, expected " + want;
            } else {
                std::string who; for (auto &b : bad) who += (who.empty() ? "" : " + ") + b;
                sig = "C13|" + op + "|" + icls + "|" + k.second + (inv ? "" : " agrees on all access paths and with the history") + "|" + who + ": " + dev;
                what = k.first + " = " + badval[0] + " through " + who + ", expected " + want + " (as the other paths read)";
            }
            viol(sig, C.label + ": " + trace + " ; then " + what);
            return false;
        }
        return true;
    }

    // executes the steps on a fresh file; with report: counts, and checks the oracle after the LAST step.
    // returns true iff the last step returned normally, as the model allows, and nothing is wrong (the trace may be extended)
    bool run(const std::vector<Letter> &steps, bool report, bool quietly = false) {
        vf::set_clock(1500000000);
        quiet = quietly; nviol = 0;
        Model m(C);
        trace = "";
        bool need_frame = false;
        for (auto &s : steps) if (s.op == APP_DFR) need_frame = true;
        File f = File::open(path, FileMode::Overwrite);
        Block b = f.createBlock("blk", "t");
        NDSize ext(C.extent.size(), 0);
        for (size_t i = 0; i < C.extent.size(); i++) ext[i] = C.extent[i];
        DataArray da = b.createDataArray("arr", "t", C.dt, ext);
        if (C.track) da.setData(m.data);
        DataFrame fr;
        std::string frame_ref = "none";
        if (need_frame) { fr = b.createDataFrame("frame", "t", frame_columns()); frame_ref = "frame/" + fr.id(); }
        DataFrame foreign_fr;
        for (auto &s : steps) if (s.op == APP_DFR && s.dfm == DF_FOREIGN && !foreign_fr) {
            Block ob = f.createBlock("other", "t");
            foreign_fr = ob.createDataFrame("frame", "t", frame_columns()); foreign_fr.rows(7);
        }
        std::vector<H> kept;
        bool extend = true, fresh_session = true;
        std::string op = "create", icls = "-";
        bool inv_only = false, threw = false, skip_compare = false;
        Obs after_reject;

        for (size_t si = 0; si < steps.size() && extend; si++) {
            const Letter &l = steps[si];
            const bool lastst = si + 1 == steps.size();
            const bool rep = lastst && report;
            vf::set_clock(1500000000 + (long)si + 1);
            const Cl cl = m.classify(l);
            if (cl == C_OFF) return false;
            const bool via_kept = si % 2 == 0;
            op = op_name(m, l);
            icls = precondition(m, l);
            trace += (trace.empty() ? "" : " ; ") + l.name + (l.op == REOPEN ? "" : via_kept ? " [kept handle]" : " [fresh handle]");
            const int t = (l.op >= S_LABEL && l.op <= S_LABELS) ? m.target(l) : -1;
            Obs before;
            if (rep && cl != C_ACCEPT) before = observe(da, m, nullptr, false, true);
            H newh; bool appended = false;
            std::string what;
            std::string exc = vf::guarded([&] {
                DataArray a = via_kept ? da : b.getDataArray("arr");
                H h;
                if (t >= 0) h = via_kept ? kept[(size_t)t] : typed(a.getDimension((ndsize_t)t + 1), false);
                const ndsize_t id = (ndsize_t)m.dims.size() + (l.n == 1 ? 2 : 1);
                switch (l.op) {
                case APP_SET: { auto lab = m.set_labels(l); SetDimension d = l.n == 0 ? a.appendSetDimension() : a.appendSetDimension(lab); newh.set = d; newh.d = d; appended = true; break; }
                case DEP_SET: { SetDimension d = a.createSetDimension(id); newh.set = d; newh.d = d; appended = true; break; }
                case APP_SMP: {
                    SampledDimension d = (l.s1.empty() && l.s2.empty() && l.d2 == 0.0) ? a.appendSampledDimension(l.d1) : a.appendSampledDimension(l.d1, l.s1, l.s2, l.d2);
                    newh.smp = d; newh.d = d; appended = true; break;
                }
                case DEP_SMP: { SampledDimension d = a.createSampledDimension(id, l.d1); newh.smp = d; newh.d = d; appended = true; break; }
                case APP_RNG: {
                    auto tv = tickvec(C, l.tk, 0);
                    RangeDimension d = (l.s1.empty() && l.s2.empty()) ? a.appendRangeDimension(tv) : a.appendRangeDimension(tv, l.s1, l.s2);
                    newh.rng = d; newh.d = d; appended = true; break;
                }
                case DEP_RNG: { RangeDimension d = a.createRangeDimension(id, tickvec(C, l.tk, 0)); newh.rng = d; newh.d = d; appended = true; break; }
                case APP_ALIAS: { RangeDimension d = a.appendAliasRangeDimension(); newh.rng = d; newh.d = d; appended = true; break; }
                case APP_DFR: {
                    DataFrameDimension d;
                    switch (l.dfm) {
                    case DF_NOCOL: d = a.appendDataFrameDimension(fr); break;
                    case DF_0: d = a.appendDataFrameDimension(fr, 0u); break;
                    case DF_LAST: d = a.appendDataFrameDimension(fr, (unsigned)(NCOLS - 1)); break;
                    case DF_LAST1: d = a.appendDataFrameDimension(fr, (unsigned)NCOLS); break;
                    case DF_NAME: d = a.appendDataFrameDimension(fr, std::string("name")); break;
                    case DF_UNKNOWN: d = a.appendDataFrameDimension(fr, std::string("nope")); break;
                    case DF_UNINIT: d = a.appendDataFrameDimension(DataFrame(), 0u); break;
                    case DF_FOREIGN: {
                        if (!foreign_fr) foreign_fr = f.getBlock("other").getDataFrame("frame");
                        d = a.appendDataFrameDimension(foreign_fr, 0u);
                        // accepted: then the descriptor must read back the frame it was GIVEN, not a namesake
                        DataFrame got = d.data();
                        if (rep && (!got || got.id() != foreign_fr.id()))
                            viol("C13|appendDataFrameDimension|frame of another block that carries the name of a frame of this block|descriptor reads back the frame it was given|" + std::string(got ? "another frame" : "no frame"),
                                 C.label + ": " + trace + " returned a descriptor whose frame is " + (got ? got.name() + "/" + got.id() : std::string("none")) + ", given " + foreign_fr.id());
                        break;
                    }
                    }
                    newh.dfr = d; newh.d = d; appended = true; break;
                }
                case S_LABEL:
                    if (l.kind == K_SET) { if (l.none) h.set.label(boost::none); else h.set.label(l.s1); }
                    else if (l.kind == K_SMP) { if (l.none) h.smp.label(boost::none); else h.smp.label(l.s1); }
                    else { if (l.none) h.rng.label(boost::none); else h.rng.label(l.s1); }
                    break;
                case S_UNIT:
                    if (l.kind == K_SMP) { if (l.none) h.smp.unit(boost::none); else h.smp.unit(l.s1); }
                    else { if (l.none) h.rng.unit(boost::none); else h.rng.unit(l.s1); }
                    break;
                case S_INTERVAL: h.smp.samplingInterval(l.d1); break;
                case S_OFFSET: if (l.none) h.smp.offset(boost::none); else h.smp.offset(l.d1); break;
                case S_TICKS: h.rng.ticks(tickvec(C, l.tk, 1)); break;
                case S_LABELS: if (l.none) h.set.labels(boost::none); else if (l.n == 4) h.set.labels(std::vector<std::string>{"x", "y"}); else h.set.labels(std::vector<std::string>()); break;
                case A_UNIT: if (l.none) a.unit(boost::none); else a.unit(l.s1); break;
                case A_LABEL: if (l.none) a.label(boost::none); else a.label(l.s1); break;
                case A_SETDATA: a.setData(tickvec(C, l.tk, 2)); break;
                case A_EXTENT: a.dataExtent(NDSize({(ndsize_t)l.n})); break;
                case A_APPEND: { auto v = tickvec(C, 0, 3); a.appendData(DataType::Double, v.data(), NDSize({(ndsize_t)v.size()}), 0); break; }
                case DEL_DIMS: a.deleteDimensions(); break;
                case REOPEN: {
                    kept.clear(); h = H(); a = DataArray(); da = DataArray(); fr = DataFrame(); foreign_fr = DataFrame(); b = Block();
                    f.close();
                    f = File::open(path, FileMode::ReadWrite);
                    b = f.getBlock("blk"); da = b.getDataArray("arr");
                    if (need_frame) fr = b.getDataFrame("frame");
                    for (size_t i = 0; i < m.dims.size(); i++) {
                        H k; vf::guarded([&] { k = typed(da.getDimension(i + 1), i % 2 == 1); });
                        kept.push_back(k);
                    }
                    break;
                }
                }
            }, &what);
            if (l.op == REOPEN) fresh_session = true; else if (exc.empty()) fresh_session = false;
            if (rep) {
                cnt("steps_checked");
                dst("outcomes", C.label + "|" + op + "|" + icls + "|" + CLN[cl] + "|" + (exc.empty() ? "returns" : exc));
                if (vf::opt.verbose) fprintf(stderr, "C13 %s%s: %s => %s%s%s\n", quiet ? "(quiet) " : "", C.label.c_str(), trace.c_str(), exc.empty() ? "returns" : exc.c_str(), exc.empty() ? "" : ": ", exc.empty() ? "" : what.c_str());
            }
            if (!exc.empty()) {
                extend = false;       // the state is the one of the prefix: checked below, not extended
                if (cl == C_ACCEPT) {
                    if (rep) viol("C13|" + op + "|" + icls + "|legal operation is accepted|" + exc, C.label + ": " + trace + " threw " + exc + ": " + what);
                    return false;
                }
                if (!lastst) return false;
                if (rep) {
                    cnt("rejections");
                    // a rejected call changes nothing (the model is not touched; what differs is reported against the call)
                    threw = true;
                    after_reject = observe(da, m, nullptr, false, true);
                    const Obs &after = after_reject;
                    if (render(after) != render(before)) {
                        std::string k, cls, g, w;
                        for (size_t i = 0; i < std::max(after.size(), before.size()); i++) {
                            if (i < after.size() && i < before.size() && after[i].key == before[i].key && after[i].val == before[i].val) continue;
                            if (i < after.size()) { k = after[i].key; cls = after[i].cls; g = after[i].val; }
                            if (i < before.size()) { w = before[i].val; if (k.empty()) { k = before[i].key; cls = before[i].cls; } }
                            break;
                        }
                        viol("C13|" + op + "|" + icls + "|a call that throws changes nothing|" + cls + " changed",
                             C.label + ": " + trace + " threw " + exc + " (" + what + ") but " + k + " is now " + g + " (before: " + w + ")");
                        skip_compare = true;     // one defect, one report
                    }
                }
            } else {
                if (cl == C_REJECT) {
                    if (rep) viol("C13|" + op + "|" + icls + "|precondition is enforced (call must throw)|accepted", C.label + ": " + trace + " returned normally");
                    if (!lastst) return false;
                    extend = false; inv_only = true;
                } else if (cl == C_ILLEGAL) {
                    if (!lastst) return false;
                    extend = false; inv_only = true;     // what got stored must still satisfy the invariants
                } else {
                    m.apply(l);
                    if (appended) kept.push_back(newh);
                    if (l.op == DEL_DIMS) kept.clear();
                    // between the steps everything is read through the kept handles (values were checked by the prefix's own trace):
                    // a handle that remembers what it has read must not serve it after a later write through another handle
                    if (!lastst && kept.size() == m.dims.size()) { const long g0 = g_getters; observe(da, m, &kept, false, true); if (report) cnt("getter_calls", g_getters - g0); }
                }
            }
        }

        bool ok = true;
        if (report && !steps.empty()) {
            cnt("invariant_checks");
            const long g0 = g_getters;
            std::vector<Path> paths;
            Obs E = expected(m, frame_ref, true);
            const uint64_t rot = vf::fnv(trace);
            if (inv_only) {
                paths.push_back(Path{"getDimension", observe(da, m, nullptr, false, false), false});
            } else if (threw) {
                // the state is the one of the prefix (checked through every path by the prefix's own trace): what the kept handles and
                // fresh ones show now must still be that state
                if (kept.size() == m.dims.size()) paths.push_back(Path{"kept handles", observe(da, m, &kept, false, true), false});
                paths.push_back(Path{"getDimension", after_reject, false});
            } else {
                // the two ways of enumerating the descriptors take turns in reading every attribute (the other reads kind and index);
                // a second array handle reads every attribute on every other trace, the array's own attributes and data always
                const bool list_full = rot % 2 == 1;
                if (kept.size() == m.dims.size()) paths.push_back(Path{"kept handles", observe(da, m, &kept, false, true), false});
                paths.push_back(Path{"getDimension", observe(da, m, nullptr, false, false, list_full), list_full});
                paths.push_back(Path{"dimensions()", observe(da, m, nullptr, true, false, !list_full), !list_full});
                DataArray a2; std::string what;
                std::string exc = vf::guarded([&] { a2 = b.getDataArray("arr"); }, &what);
                if (!exc.empty() || !a2) viol("C13|Block::getDataArray|after " + op + "|array is found|" + (exc.empty() ? "none" : exc), C.label + ": " + trace);
                else { const bool sh = (rot / 2) % 2 == 1; paths.push_back(Path{"fresh array handle", observe(a2, m, nullptr, false, true, sh), sh}); }
                a2 = DataArray();
                // after close + reopen ReadOnly
                kept.clear(); da = DataArray(); fr = DataFrame(); foreign_fr = DataFrame(); b = Block();
                f.close();
                exc = vf::guarded([&] { f = File::open(path, FileMode::ReadOnly); b = f.getBlock("blk"); da = b.getDataArray("arr"); }, &what);
                if (!exc.empty() || !da) { viol("C13|File::open(ReadOnly)|after " + op + "|file reopens|" + (exc.empty() ? "array none" : exc), C.label + ": " + trace + ": " + what); ok = false; }
                else paths.push_back(Path{"reopened ReadOnly", observe(da, m, nullptr, false, true), false});
            }
            if (!skip_compare && !compare(paths, E, op, icls, inv_only)) ok = false;
            cnt("getter_calls", g_getters - g0);
            dst("states", m.state_key(fresh_session));
        }
        kept.clear(); da = DataArray(); fr = DataFrame(); foreign_fr = DataFrame(); b = Block();
        f.close();
        return extend && ok && nviol == 0;
    }
};

int main(int argc, char **argv) {
    vf::init(argc, argv, "C13");
    const bool thorough = vf::opt.tier == "thorough";
    std::vector<Cfg> cfgs = make_cfgs(thorough);
    // sequences up to depth_all over the whole alphabet of the configuration, up to depth_core over its core letters
    const int depth_all = atoi(vf::opt.extra.count("depth") ? vf::opt.extra["depth"].c_str() : "3");
    const int depth_core = atoi(vf::opt.extra.count("depth-core") ? vf::opt.extra["depth-core"].c_str() : (thorough ? "4" : "3"));

    // --dry=1: only count the sequences the model predicts (sizing of the bounds; nothing is executed or checked)
    const bool dry = vf::opt.extra.count("dry") && vf::opt.extra["dry"] == "1";
    long caseno = 0, sampled = 0;
    for (size_t ci = 0; ci < cfgs.size(); ci++) {
        const Cfg &C = cfgs[ci];
        const std::vector<Letter> alpha = make_alphabet(C);
        const int dcore = C.extent.size() <= 2 ? depth_core : std::min(depth_core, depth_all);
        const int dmax = std::max(depth_all, dcore);
        auto allowed = [&](const std::vector<Letter> &seq) {
            if ((int)seq.size() <= depth_all) return true;
            if ((int)seq.size() > dcore) return false;
            for (auto &s : seq) if (!s.core) return false;
            return true;
        };
        Model m0(C);
        // is the last letter enabled in the state the model reaches after the others?  (an extended prefix consists of
        // steps that returned normally and were applied to the model, so the model alone decides)
        auto enabled_last = [&](const std::vector<Letter> &seq) {
            Model m(C);
            for (size_t i = 0; i + 1 < seq.size(); i++) { if (m.classify(seq[i]) == C_OFF) return false; m.apply(seq[i]); }
            return m.classify(seq.back()) != C_OFF;
        };
        const bool split = dmax >= 4 || alpha.size() >= 40;      // big trees: one case per pair of leading steps
        for (size_t first = 0; first < alpha.size(); first++) {
            std::vector<long> seconds = {-1};
            const Cl c0 = m0.classify(alpha[first]);
            const bool may_extend = c0 == C_ACCEPT || c0 == C_EITHER;      // (whether an 'either' step extends is decided by running it)
            if (split && may_extend) for (size_t k = 0; k < alpha.size(); k++) seconds.push_back((long)k);
            for (long second : seconds) {
                long cid = caseno++;
                if (!vf::take_case(cid)) continue;
                Runner R(C, vf::scratch_file("c13.h5"));
                std::string lead = alpha[first].name;
                if (second >= 0) lead += " ; " + alpha[(size_t)second].name;
                const std::string base = C.label + ", depth " + std::to_string(depth_all) + "/" + std::to_string(dcore) + ", sequences starting with " + lead + (split && second < 0 ? " (that sequence alone)" : "");
                vf::case_desc(base);
                std::vector<Letter> seq = {alpha[first]};
                auto mark = [&](const char *how) {
                    std::string s;
                    for (const Letter &x : seq) s += (s.empty() ? "" : " ; ") + x.name;
                    vf::case_desc(base + " | " + how + ": " + s);
                };
                std::function<void()> rec = [&]() {
                    if (vf::deadline_hit()) return;
                    mark("running");
                    bool ext;
                    if (dry) { Model m(C); for (size_t i = 0; i + 1 < seq.size(); i++) m.apply(seq[i]); ext = m.classify(seq.back()) == C_ACCEPT; vf::count("dry_traces"); vf::count("dry_traces[" + C.label + "]"); if (!ext || (int)seq.size() >= dmax) return; }
                    else {
                    ext = R.run(seq, true);
                    vf::count("traces"); vf::count("traces[" + C.label + "]");
                    }
                    if (ext) vf::count("transitions");
                    if (!ext || (int)seq.size() >= dmax) return;
                    for (const Letter &s : alpha) {
                        if (s.op == REOPEN && seq.back().op == REOPEN) continue;
                        seq.push_back(s);
                        if (allowed(seq) && enabled_last(seq)) rec();       // a letter that is not enabled in the state reached is not a trace
                        seq.pop_back();
                    }
                };
                if (c0 == C_OFF) continue;
                if (!split || !may_extend) { if (second < 0) rec(); }
                else if (second < 0 && dry) vf::count("dry_traces");
                else if (second < 0) { mark("running"); if (R.run(seq, true)) vf::count("transitions"); vf::count("traces"); vf::count("traces[" + C.label + "]"); }
                else {
                    const Letter &s2 = alpha[(size_t)second];
                    if (s2.op == REOPEN && alpha[first].op == REOPEN) continue;
                    mark("re-checking the leading step quietly");
                    if (dry ? c0 != C_ACCEPT : !R.run(seq, true, true)) continue;
                    seq.push_back(s2);
                    if (allowed(seq) && enabled_last(seq)) rec();
                    seq.pop_back();
                }
                if (!dry && sampled < 6 && alpha[first].op == APP_ALIAS && C.track && (split ? (second >= 0 && alpha[(size_t)second].op == S_TICKS && alpha[(size_t)second].tk == T_SORTED) : true)) {
                    sampled++;
                    vf::sample("{\"config\":" + vf::jstr(C.label) + ",\"last_trace_of_case\":" + vf::jstr(R.trace) + "}", 6);
                }
            }
        }
    }
    vf::note("depth_all_letters", std::to_string(depth_all));
    vf::note("depth_core_letters", std::to_string(depth_core));
    {
        std::string al = "{";
        for (size_t ci = 0; ci < cfgs.size(); ci++) {
            auto a = make_alphabet(cfgs[ci]); size_t core = 0; for (auto &l : a) if (l.core) core++;
            al += (ci ? "," : "") + vf::jstr(cfgs[ci].label) + ":\"" + std::to_string(a.size()) + " letters, " + std::to_string(core) + " core\"";
        }
        vf::note("alphabet_sizes", al + "}");
    }
    return vf::finish();
}
