// C14 — metadata property values round trip with type, order, unit and uncertainty.
//
// Explicit-state exploration (E1): for every value type {Bool, Int32, UInt32, Int64, UInt64, Double, String} and every
// Section::createProperty overload (by DataType, by one Variant, by a vector<Variant>), every sequence (up to the depth
// bound) over the alphabet
//   assign(v)            v from a per-type pool: lengths 0, 1, 2, 3, 64; numeric extremes; NaN / +-inf / -0.0; "", 300-char
//                        and UTF-8 strings; a vector of another type; a mixed-type vector (both must be rejected)
//   deleteValues | values(none)
//   unit("mV" | " m V " | "kHz" | "µS/cm" | "mumol/l" | "" | none) | uncertainty(x | none) | definition(s | none)
//   REOPEN               close the file and open it again (ReadWrite)
// is replayed on a fresh file.  Part A: all sequences up to depth D (3 quick, 4 thorough) over the core alphabet (19 letters);
// part B: all sequences up to depth D-1 that contain at least one letter of the extended alphabet (a second wrong-type vector,
// a second mixed vector, a vector of an empty Variant, uncertainty(-0.0), a long UTF-8 definition) over core + extended letters.
// A failing trace is not extended.  The reference model is (creation type, last assigned typed sequence, unit, uncertainty,
// definition), kept in a representation of its own (type tag + 64 bit pattern + bytes; not nix::Variant).  After the last
// step of every sequence (every prefix is a sequence of its own) values() (type and bits of each Variant), valueCount(),
// dataType(), unit(), uncertainty() and definition() are compared with the model
//   - through a handle that is kept alive since creation (or since the last REOPEN),
//   - through a handle fetched afresh with section.getProperty(name),
//   - after close + reopen ReadOnly.
// Steps at even positions are applied through the kept handle, at odd positions through a freshly fetched one.
// Rejected operations must throw and leave every observable of the property bitwise unchanged; createProperty(name, mixed
// vector) must throw and leave no property behind (also after reopen).
// Violation signatures: C14|<getter or operation>|<value type, class of the expected value>|<assertion (where observed)>|<deviation>.
// Decisions (DESIGN 5 / C14): the value list of a property created with a DataType is unspecified until the first
// assignment or clear; unit(s) stores s without blanks; unit("") either throws (and changes nothing) or removes the unit.
#include <nix.hpp>
#include "vf.hpp"
#include <cstring>
#include <cfloat>
#include <cmath>
#include <climits>
#include <limits>

using namespace nix;

// ---------------------------------------------------------------------------------------------------------------------
// reference representation of one typed value
struct Val {
    DataType t = DataType::Nothing;
    uint64_t b = 0;      // bool 0/1; integers (sign-extended); bit pattern of a double
    std::string s;       // bytes of a string
    bool operator==(const Val &o) const { return t == o.t && b == o.b && s == o.s; }
    bool operator!=(const Val &o) const { return !(*this == o); }
};
typedef std::vector<Val> Vals;

static Val VB(bool x) { Val v; v.t = DataType::Bool; v.b = x ? 1 : 0; return v; }
static Val VI32(int32_t x) { Val v; v.t = DataType::Int32; v.b = (uint64_t)(int64_t)x; return v; }
static Val VU32(uint32_t x) { Val v; v.t = DataType::UInt32; v.b = x; return v; }
static Val VI64(int64_t x) { Val v; v.t = DataType::Int64; v.b = (uint64_t)x; return v; }
static Val VU64(uint64_t x) { Val v; v.t = DataType::UInt64; v.b = x; return v; }
static Val VDb(uint64_t bits) { Val v; v.t = DataType::Double; v.b = bits; return v; }
static Val VD(double x) { uint64_t b; std::memcpy(&b, &x, 8); return VDb(b); }
static Val VS(const std::string &x) { Val v; v.t = DataType::String; v.s = x; return v; }
static double bits2d(uint64_t b) { double d; std::memcpy(&d, &b, 8); return d; }
static uint64_t d2bits(double d) { uint64_t b; std::memcpy(&b, &d, 8); return b; }

static const char *tname(DataType t) {
    switch (t) {
        case DataType::Bool: return "Bool"; case DataType::Int32: return "Int32"; case DataType::UInt32: return "UInt32";
        case DataType::Int64: return "Int64"; case DataType::UInt64: return "UInt64"; case DataType::Double: return "Double";
        case DataType::String: return "String"; case DataType::Nothing: return "Nothing";
        default: return "other";
    }
}

static Variant to_variant(const Val &v) {
    switch (v.t) {
        case DataType::Bool: return Variant(v.b != 0);
        case DataType::Int32: return Variant((int32_t)(int64_t)v.b);
        case DataType::UInt32: return Variant((uint32_t)v.b);
        case DataType::Int64: return Variant((int64_t)v.b);
        case DataType::UInt64: return Variant((uint64_t)v.b);
        case DataType::Double: return Variant(bits2d(v.b));
        case DataType::String: return Variant(v.s);
        default: return Variant();
    }
}
static std::vector<Variant> to_variants(const Vals &vs) { std::vector<Variant> o; for (auto &v : vs) o.push_back(to_variant(v)); return o; }

static Val from_variant(const Variant &x) {
    switch (x.type()) {
        case DataType::Bool: return VB(x.get<bool>());
        case DataType::Int32: return VI32(x.get<int32_t>());
        case DataType::UInt32: return VU32(x.get<uint32_t>());
        case DataType::Int64: return VI64(x.get<int64_t>());
        case DataType::UInt64: return VU64(x.get<uint64_t>());
        case DataType::Double: return VD(x.get<double>());
        case DataType::String: return VS(x.get<std::string>());
        default: { Val v; v.t = x.type(); return v; }
    }
}

static std::string val_str(const Val &v) {
    std::string o = std::string(tname(v.t)) + ":";
    switch (v.t) {
        case DataType::Bool: return o + (v.b ? "true" : "false");
        case DataType::Int32: case DataType::Int64: return o + std::to_string((int64_t)v.b);
        case DataType::UInt32: case DataType::UInt64: return o + std::to_string(v.b);
        case DataType::Double: { char buf[64]; snprintf(buf, sizeof buf, "%.17g[0x%016llx]", bits2d(v.b), (unsigned long long)v.b); return o + buf; }
        case DataType::String: return o + (v.s.size() > 24 ? vf::jstr(v.s.substr(0, 24)) + "...(" + std::to_string(v.s.size()) + " bytes)" : vf::jstr(v.s));
        default: return o;
    }
}
static std::string vals_str(const Vals &vs) {
    std::string o = "[";
    for (size_t i = 0; i < vs.size(); i++) {
        if (i == 4 && vs.size() > 6) { o += ",...(" + std::to_string(vs.size()) + " values)"; break; }
        if (i) o += ",";
        o += val_str(vs[i]);
    }
    return o + "]";
}
// class of a value (for signatures: no concrete numbers)
static std::string val_class(const Val &v) {
    switch (v.t) {
        case DataType::Bool: return "bool";
        case DataType::Int32: case DataType::Int64: return (int64_t)v.b < 0 ? "negative" : "non-negative";
        case DataType::UInt32: return v.b > (uint64_t)INT32_MAX ? "above INT32_MAX" : "up to INT32_MAX";
        case DataType::UInt64: return v.b > (uint64_t)INT64_MAX ? "above INT64_MAX" : "up to INT64_MAX";
        case DataType::Double: { double d = bits2d(v.b); return std::isnan(d) ? "NaN" : std::isinf(d) ? "inf" : (d == 0 && std::signbit(d)) ? "-0.0" : "finite"; }
        case DataType::String: {
            if (v.s.empty()) return "empty string";
            if (v.s.size() >= 256) return "long string";
            for (unsigned char c : v.s) if (c >= 0x80) return "UTF-8 string";
            return "plain string";
        }
        default: return "none";
    }
}
static std::string len_class(size_t n) { return n == 0 ? "0" : n == 1 ? "1" : n <= 3 ? "2-3" : "64"; }

// ---------------------------------------------------------------------------------------------------------------------
// value pools
static const DataType TYPES[] = {DataType::Bool, DataType::Int32, DataType::UInt32, DataType::Int64, DataType::UInt64, DataType::Double, DataType::String};
static const std::string UTF8 = "Gr\xc3\xbc\xc3\x9f" "e \xe4\xb8\x96\xe7\x95\x8c \xf0\x9d\x84\x9e";   // 2-, 3- and 4-byte sequences

static Val ordinary(DataType t, int i) {   // unremarkable values (used for vectors of "another type")
    switch (t) {
        case DataType::Bool: return VB(i % 2 == 0);
        case DataType::Int32: return VI32(i + 1);
        case DataType::UInt32: return VU32(i + 1);
        case DataType::Int64: return VI64(i + 1);
        case DataType::UInt64: return VU64(i + 1);
        case DataType::Double: return VD(i + 1.5);
        case DataType::String: return VS(std::to_string(i + 1));
        default: return Val();
    }
}

// own-type vectors: index 0..4 = lengths 0, 1, 2, 3, 64
static std::vector<Vals> own_pool(DataType t) {
    std::vector<Vals> p(5);
    const uint64_t B_QNAN = 0x7ff8000000000001ULL, B_NQNAN = 0xfff8000000000000ULL, B_PINF = 0x7ff0000000000000ULL, B_NINF = 0xfff0000000000000ULL, B_NZERO = 0x8000000000000000ULL;
    switch (t) {
        case DataType::Bool:
            p[1] = {VB(true)}; p[2] = {VB(false), VB(true)}; p[3] = {VB(true), VB(true), VB(false)};
            for (int i = 0; i < 64; i++) p[4].push_back(VB(i % 3 == 0));
            break;
        case DataType::Int32:
            p[1] = {VI32(INT32_MIN)}; p[2] = {VI32(INT32_MAX), VI32(-1)}; p[3] = {VI32(0), VI32(1), VI32(-INT32_MAX)};
            for (int i = 0; i < 64; i++) p[4].push_back(VI32(i % 4 == 0 ? INT32_MIN + i : i % 4 == 1 ? INT32_MAX - i : i % 4 == 2 ? -i : i * 1000003));
            break;
        case DataType::UInt32:
            p[1] = {VU32(UINT32_MAX)}; p[2] = {VU32(0), VU32(0x80000000u)}; p[3] = {VU32(1), VU32(0x7fffffffu), VU32(0xfffffffeu)};
            for (unsigned i = 0; i < 64; i++) p[4].push_back(VU32(i % 4 == 0 ? UINT32_MAX - i : i % 4 == 1 ? 0x80000000u + i : i % 4 == 2 ? i : i * 1000003u));
            break;
        case DataType::Int64:
            p[1] = {VI64(INT64_MIN)}; p[2] = {VI64(INT64_MAX), VI64(-1)}; p[3] = {VI64(0), VI64(1LL << 32), VI64(-(1LL << 53) - 1)};
            for (int64_t i = 0; i < 64; i++) p[4].push_back(VI64(i % 4 == 0 ? INT64_MIN + i : i % 4 == 1 ? INT64_MAX - i : i % 4 == 2 ? -i * (1LL << 33) : (1LL << 53) + i));
            break;
        case DataType::UInt64:
            p[1] = {VU64(UINT64_MAX)}; p[2] = {VU64(0), VU64(1ULL << 63)}; p[3] = {VU64(1), VU64((1ULL << 63) - 1), VU64((1ULL << 53) + 1)};
            for (uint64_t i = 0; i < 64; i++) p[4].push_back(VU64(i % 4 == 0 ? UINT64_MAX - i : i % 4 == 1 ? (1ULL << 63) + i : i % 4 == 2 ? i : (1ULL << 53) + i));
            break;
        case DataType::Double: {
            p[1] = {VDb(B_QNAN)}; p[2] = {VDb(B_PINF), VDb(B_NINF)}; p[3] = {VDb(B_NZERO), VD(DBL_MAX), VD(std::numeric_limits<double>::denorm_min())};
            const Val sp[] = {VDb(B_NQNAN), VDb(B_NINF), VD(-DBL_MAX), VD(DBL_MIN), VD(DBL_EPSILON), VD(0.1), VDb(B_QNAN), VD(0.0), VDb(B_NZERO), VDb(B_PINF), VD(-1e-308), VD(3.141592653589793)};
            for (int i = 0; i < 64; i++) p[4].push_back(i < 12 ? sp[i] : VD(std::ldexp(1.0 + i / 64.0, i * 16 - 512) * (i % 2 ? -1 : 1)));
            break;
        }
        case DataType::String:
            p[1] = {VS("")}; p[2] = {VS(std::string(300, 'x')), VS(UTF8)}; p[3] = {VS("a"), VS(""), VS("b c\n\td")};
            for (int i = 0; i < 64; i++) {
                std::string s;
                if (i % 5 == 4) for (int k = 0; k <= i / 5; k++) s += UTF8; else s = std::string(i, (char)('a' + i % 26));
                if (i == 63) s = std::string(300, 'y');
                p[4].push_back(VS(s));
            }
            break;
        default: break;
    }
    return p;
}

static DataType confusable(DataType t, int which) {   // the "other type" of wrong-type and mixed vectors
    switch (t) {
        case DataType::Bool: return which ? DataType::String : DataType::Int32;
        case DataType::Int32: return which ? DataType::Int64 : DataType::UInt32;
        case DataType::UInt32: return which ? DataType::UInt64 : DataType::Int32;
        case DataType::Int64: return which ? DataType::Double : DataType::UInt64;
        case DataType::UInt64: return which ? DataType::Double : DataType::Int64;
        case DataType::Double: return which ? DataType::String : DataType::Int64;
        default: return which ? DataType::Bool : DataType::Double;
    }
}

// ---------------------------------------------------------------------------------------------------------------------
// alphabet
enum Kind { ASSIGN, ASSIGN_BAD, DELETE_VALUES, VALUES_NONE, UNIT, UNIT_NONE, UNCERTAINTY, UNCERTAINTY_NONE, DEFINITION, DEFINITION_NONE, REOPEN };
struct Letter {
    Kind kind;
    std::string label;     // concrete, for descriptions
    std::string cls;       // class, for signatures
    Vals vals;             // ASSIGN / ASSIGN_BAD
    std::string s;         // UNIT / DEFINITION
    double x = 0;          // UNCERTAINTY
    bool ext = false;      // letter of the extended alphabet (part B)
};

static std::vector<Letter> make_alphabet(DataType t) {
    std::vector<Letter> a;
    std::vector<Vals> own = own_pool(t);
    for (auto &v : own) { Letter l; l.kind = ASSIGN; l.vals = v; l.label = "assign(" + vals_str(v) + ")"; l.cls = "assign(length " + len_class(v.size()) + ")"; a.push_back(l); }
    {   // a vector of the same length as own[3] that differs from it in ONE element only; for Double the difference is the sign of a
        // zero (the two vectors compare equal element by element under operator==, their bit patterns differ)
        Vals tw = own[3];
        if (t == DataType::Double) tw[0] = VD(0.0);
        else if (t == DataType::Bool) tw[2] = VB(true);
        else tw[2] = ordinary(t, 6);
        Letter l; l.kind = ASSIGN; l.vals = tw; l.label = "assign(" + vals_str(tw) + ")"; l.cls = "assign(length 3, one element differs from the other length-3 vector)"; a.push_back(l);
    }
    auto bad = [&](const Vals &v, const std::string &cls, bool ext) { Letter l; l.kind = ASSIGN_BAD; l.vals = v; l.label = "assign(" + vals_str(v) + ")"; l.cls = cls; l.ext = ext; a.push_back(l); };
    DataType w1 = confusable(t, 0), w2 = confusable(t, 1);
    bad({ordinary(w1, 0), ordinary(w1, 1)}, "assign(vector of another type)", false);
    bad({own[3][0], own[3][1], ordinary(w1, 2)}, "assign(mixed vector)", false);
    bad({ordinary(w2, 0), ordinary(w2, 1), ordinary(w2, 2), ordinary(w2, 3)}, "assign(vector of another type)", true);
    bad({own[2][0], ordinary(w2, 1)}, "assign(mixed vector)", true);
    bad({Val()}, "assign(vector of an empty Variant)", true);
    { Letter l; l.kind = DELETE_VALUES; l.label = l.cls = "deleteValues()"; a.push_back(l); }
    { Letter l; l.kind = VALUES_NONE; l.label = l.cls = "values(none)"; a.push_back(l); }
    { Letter l; l.kind = UNIT; l.s = "mV"; l.label = "unit(\"mV\")"; l.cls = "unit(s)"; a.push_back(l); }
    { Letter l; l.kind = UNIT; l.s = " m V "; l.label = "unit(\" m V \")"; l.cls = "unit(s with blanks)"; a.push_back(l); }
    { Letter l; l.kind = UNIT; l.s = "kHz"; l.label = "unit(\"kHz\")"; l.cls = "unit(s)"; a.push_back(l); }
    { Letter l; l.kind = UNIT; l.s = "\xc2\xb5S/cm"; l.label = "unit(\"\xc2\xb5S/cm\")"; l.cls = "unit(s with a micro sign)"; a.push_back(l); }
    { Letter l; l.kind = UNIT; l.s = "mumol/l"; l.label = "unit(\"mumol/l\")"; l.cls = "unit(s containing mu)"; a.push_back(l); }
    { Letter l; l.kind = UNIT; l.s = ""; l.label = "unit(\"\")"; l.cls = "unit(\"\")"; a.push_back(l); }
    { Letter l; l.kind = UNIT_NONE; l.label = l.cls = "unit(none)"; a.push_back(l); }
    { Letter l; l.kind = UNCERTAINTY; l.x = 0.1; l.label = "uncertainty(0.1)"; l.cls = "uncertainty(x)"; a.push_back(l); }
    { Letter l; l.ext = true; l.kind = UNCERTAINTY; l.x = -0.0; l.label = "uncertainty(-0.0)"; l.cls = "uncertainty(x)"; a.push_back(l); }
    { Letter l; l.kind = UNCERTAINTY_NONE; l.label = l.cls = "uncertainty(none)"; a.push_back(l); }
    { Letter l; l.kind = DEFINITION; l.s = "a definition"; l.label = "definition(\"a definition\")"; l.cls = "definition(s)"; a.push_back(l); }
    { Letter l; l.ext = true; l.kind = DEFINITION; l.s = UTF8 + std::string(300, 'd'); l.label = "definition(UTF-8 + 300 chars)"; l.cls = "definition(s)"; a.push_back(l); }
    { Letter l; l.kind = DEFINITION_NONE; l.label = l.cls = "definition(none)"; a.push_back(l); }
    { Letter l; l.kind = REOPEN; l.label = l.cls = "REOPEN"; a.push_back(l); }
    return a;
}

static std::string deblank(const std::string &s) { std::string o; for (char c : s) if (c != ' ' && c != '\t') o += c; return o; }

// ---------------------------------------------------------------------------------------------------------------------
// model and observation
struct Model {
    DataType dt = DataType::Nothing;
    bool dontcare = false;           // value list unspecified (created with a DataType, nothing assigned or cleared yet)
    Vals vals;
    bool has_unit = false; std::string unit;
    bool has_unc = false; uint64_t unc = 0;
    bool has_def = false; std::string def;
    std::string key() const {
        std::string k = std::string(tname(dt)) + (dontcare ? "|?" : "|" + std::to_string(vals.size()));
        if (!dontcare) for (auto &v : vals) { k += "," + std::to_string(v.b) + ":" + v.s; }
        k += "|u" + (has_unit ? unit : "-") + "|e" + (has_unc ? std::to_string(unc) : "-") + "|d" + (has_def ? std::to_string(def.size()) : "-");
        return k;
    }
};

static bool g_quiet = false;      // re-run of a sequence that is counted elsewhere: no counters
static void CNT(const char *name, long n = 1) { if (!g_quiet) vf::count(name, n); }

struct Obs {
    std::string e_vals, e_count, e_dt, e_unit, e_unc, e_def;   // exception class of the getter ("" = returned)
    Vals vals; uint64_t count = 0; DataType dt = DataType::Nothing;
    bool has_unit = false; std::string unit;
    bool has_unc = false; uint64_t unc = 0;
    bool has_def = false; std::string def;
};

static Obs observe(const Property &p) {
    Obs o;
    o.e_vals = vf::guarded([&] { for (auto &x : p.values()) o.vals.push_back(from_variant(x)); });
    o.e_count = vf::guarded([&] { o.count = p.valueCount(); });
    o.e_dt = vf::guarded([&] { o.dt = p.dataType(); });
    o.e_unit = vf::guarded([&] { auto u = p.unit(); o.has_unit = !!u; if (u) o.unit = *u; });
    o.e_unc = vf::guarded([&] { auto u = p.uncertainty(); o.has_unc = !!u; if (u) o.unc = d2bits(*u); });
    o.e_def = vf::guarded([&] { auto u = p.definition(); o.has_def = !!u; if (u) o.def = *u; });
    CNT("getter_calls", 6);
    return o;
}

// first difference between two observations ("" if none): deviation class and concrete text
static bool obs_diff(const Obs &a, const Obs &b, std::string *cls, std::string *what) {
    auto D = [&](const std::string &c, const std::string &w) { *cls = c; *what = w; return true; };
    if (a.e_vals != b.e_vals || a.e_count != b.e_count || a.e_dt != b.e_dt || a.e_unit != b.e_unit || a.e_unc != b.e_unc || a.e_def != b.e_def)
        return D("a getter throws differently", "getter exceptions before {" + a.e_vals + a.e_count + a.e_dt + a.e_unit + a.e_unc + a.e_def + "} after {" + b.e_vals + b.e_count + b.e_dt + b.e_unit + b.e_unc + b.e_def + "}");
    if (a.count != b.count) return D(b.count < a.count ? "valueCount shrank" : "valueCount grew", "valueCount() " + std::to_string(a.count) + " -> " + std::to_string(b.count));
    if (a.vals.size() != b.vals.size()) return D(b.vals.size() < a.vals.size() ? "value list shrank" : "value list grew", "values() " + vals_str(a.vals) + " -> " + vals_str(b.vals));
    for (size_t i = 0; i < a.vals.size(); i++) if (a.vals[i] != b.vals[i]) return D("values changed", "values()[" + std::to_string(i) + "] " + val_str(a.vals[i]) + " -> " + val_str(b.vals[i]));
    if (a.dt != b.dt) return D("dataType changed", std::string("dataType() ") + tname(a.dt) + " -> " + tname(b.dt));
    if (a.has_unit != b.has_unit || a.unit != b.unit) return D("unit changed", "unit() " + (a.has_unit ? vf::jstr(a.unit) : "none") + " -> " + (b.has_unit ? vf::jstr(b.unit) : "none"));
    if (a.has_unc != b.has_unc || a.unc != b.unc) return D("uncertainty changed", "uncertainty changed");
    if (a.has_def != b.has_def || a.def != b.def) return D("definition changed", "definition changed");
    return false;
}

static const char *CREATION[] = {"createProperty(name, DataType)", "createProperty(name, Variant)", "createProperty(name, vector<Variant>)"};
static const std::string PNAME = "prop";

struct Runner {
    DataType dt;
    int creation;
    std::vector<Letter> alpha;
    std::vector<Vals> own;
    std::string path;
    Runner(DataType t, int c) : dt(t), creation(c), alpha(make_alphabet(t)), own(own_pool(t)), path(vf::scratch_file("c14.h5")) {}

    std::string seq_str(const std::vector<int> &seq) const {
        std::string o = std::string(tname(dt)) + " property created by " + CREATION[creation] + "; steps:";
        if (seq.empty()) o += " (none)";
        for (size_t i = 0; i < seq.size(); i++) o += (i ? " ; " : " ") + alpha[seq[i]].label + (seq[i] != (int)alpha.size() - 1 ? (i % 2 ? "@fresh" : "@kept") : "");
        return o;
    }

    // compares one observation with the model; returns the number of deviations
    int compare(const Obs &o, const Model &m, const std::string &lastcls, const std::string &via, const std::string &trace) {
        int bad = 0;
        // signature: getter | value type and class of the expected value | assertion (where observed) | deviation class.
        // The operation before the observation is part of the concrete description only.
        auto V = [&](const std::string &assertion, const std::string &input, const std::string &dev, const std::string &what) {
            bad++;
            std::string getter = assertion.substr(0, assertion.find(' '));
            // unit, uncertainty and definition do not depend on the value type: the type is not part of their class
            const bool typed = getter == "values()" || getter == "valueCount()" || getter == "dataType()";
            vf::violation("C14|" + getter + "|" + (typed ? tname(dt) + (input.empty() ? "" : ", " + input) : std::string("any value type")) + "|" + assertion + " (" + via + ")|" + dev, trace + ": " + what + " [" + via + ", after " + lastcls + "]");
        };
        CNT("observations");
        // dataType
        if (!o.e_dt.empty()) V("dataType() == creation type", "", "throws " + o.e_dt, "dataType() throws " + o.e_dt);
        else if (o.dt != m.dt) V("dataType() == creation type", "", std::string("reports ") + tname(o.dt), std::string("dataType() = ") + tname(o.dt) + " expected " + tname(m.dt));
        // values and count
        if (!m.dontcare) {
            std::string lc = "length " + len_class(m.vals.size());
            if (!o.e_count.empty()) V("valueCount() == length of the last assigned sequence", lc, "throws " + o.e_count, "valueCount() throws");
            else if (o.count != m.vals.size()) V("valueCount() == length of the last assigned sequence", lc, o.count < m.vals.size() ? "too small" : "too large", "valueCount() = " + std::to_string(o.count) + " expected " + std::to_string(m.vals.size()));
            if (!o.e_vals.empty()) V("values() == last assigned sequence", lc, "throws " + o.e_vals, "values() throws " + o.e_vals + ", expected " + vals_str(m.vals));
            else if (o.vals.size() != m.vals.size()) V("values() == last assigned sequence", lc, o.vals.size() < m.vals.size() ? "too few values" : "too many values", "values() = " + vals_str(o.vals) + " expected " + vals_str(m.vals));
            else {
                for (size_t i = 0; i < m.vals.size(); i++) {
                    CNT("values_compared");
                    if (o.vals[i] == m.vals[i]) continue;
                    std::string in = val_class(m.vals[i]);
                    if (o.vals[i].t != m.vals[i].t) V("values() == last assigned sequence", in, std::string("element type differs: ") + tname(o.vals[i].t), "values()[" + std::to_string(i) + "] = " + val_str(o.vals[i]) + " expected " + val_str(m.vals[i]));
                    else V("values() == last assigned sequence", in, "element value differs", "values()[" + std::to_string(i) + "] = " + val_str(o.vals[i]) + " expected " + val_str(m.vals[i]));
                    break;
                }
            }
        } else {
            // unspecified value list: nothing asserted; the kind of answer is recorded
            vf::distinct("unspecified_value_lists", std::string(tname(dt)) + "|" + (o.e_vals.empty() ? std::to_string(o.vals.size()) : o.e_vals) + "|" + (o.e_count.empty() ? std::to_string(o.count) : o.e_count));
        }
        // unit
        if (!o.e_unit.empty()) V("unit() == unit last set", "", "throws " + o.e_unit, "unit() throws");
        else if (o.has_unit != m.has_unit || o.unit != m.unit)
            V("unit() == unit last set", "", !o.has_unit ? "none although set" : !m.has_unit ? "present although removed or never set" : "different string",
              "unit() = " + (o.has_unit ? vf::jstr(o.unit) : "none") + " expected " + (m.has_unit ? vf::jstr(m.unit) : "none"));
        // uncertainty
        if (!o.e_unc.empty()) V("uncertainty() == uncertainty last set", "", "throws " + o.e_unc, "uncertainty() throws");
        else if (o.has_unc != m.has_unc || o.unc != m.unc)
            V("uncertainty() == uncertainty last set", "", !o.has_unc ? "none although set" : !m.has_unc ? "present although removed or never set" : "different value",
              "uncertainty() = " + (o.has_unc ? vf::hexd(bits2d(o.unc)) : "none") + " expected " + (m.has_unc ? vf::hexd(bits2d(m.unc)) : "none"));
        // definition
        if (!o.e_def.empty()) V("definition() == definition last set", "", "throws " + o.e_def, "definition() throws");
        else if (o.has_def != m.has_def || o.def != m.def)
            V("definition() == definition last set", "", !o.has_def ? "none although set" : !m.has_def ? "present although removed or never set" : "different string",
              "definition() = " + (o.has_def ? vf::jstr(o.def.substr(0, 40)) : "none") + " expected " + (m.has_def ? vf::jstr(m.def.substr(0, 40)) : "none"));
        return bad;
    }

    // replays seq on a fresh file and checks everything after its LAST step.  Returns true if the trace may be extended
    // (no deviation of any kind was seen).
    bool run(const std::vector<int> &seq) {
        const std::string trace = seq_str(seq);
        const int RE = (int)alpha.size() - 1;
        int bad = 0;
        auto VIOL = [&](const std::string &sig, const std::string &what) { bad++; vf::violation(sig, trace + ": " + what); };
        vf::set_clock(1500000000);
        File f = File::open(path, FileMode::Overwrite);
        Section sec = f.createSection("sec", "t");
        Property K;
        auto bail = [&]() { K = nix::none; sec = nix::none; f.close(); return false; };
        Model m; m.dt = dt;
        // ---- creation ----
        {
            std::string what, exc;
            if (creation == 0) { exc = vf::guarded([&] { K = sec.createProperty(PNAME, dt); }, &what); m.dontcare = true; }
            else if (creation == 1) { m.vals = {own[1][0]}; exc = vf::guarded([&] { K = sec.createProperty(PNAME, to_variant(own[1][0])); }, &what); }
            else { m.vals = own[3]; exc = vf::guarded([&] { K = sec.createProperty(PNAME, to_variants(own[3])); }, &what); }
            if (!exc.empty() || !K) {
                VIOL(std::string("C14|") + CREATION[creation] + "|" + tname(dt) + "|creation succeeds|" + (exc.empty() ? "uninitialised handle" : "throws " + exc), "creation failed: " + exc + " " + what);
                return bail();
            }
        }
        std::string lastcls = seq.empty() ? std::string(CREATION[creation]) : alpha[seq.back()].cls;
        bool fresh_session = false;
        for (size_t si = 0; si < seq.size(); si++) {
            const Letter &l = alpha[seq[si]];
            const bool last = si + 1 == seq.size();
            vf::set_clock(1500000000 + (long)si + 1);
            if (seq[si] == RE) {
                K = nix::none; sec = nix::none;
                f.close();
                f = File::open(path, FileMode::ReadWrite);
                sec = f.getSection("sec");
                K = sec.getProperty(PNAME);
                fresh_session = true;
                if (last && !g_quiet && K) { vf::count("transitions"); vf::distinct("outcomes", std::string(tname(dt)) + "|" + CREATION[creation] + "|REOPEN|" + (m.dontcare ? "unspecified" : "defined") + "|ok"); }
                if (!K) { VIOL(std::string("C14|after REOPEN|") + tname(dt) + "|the property is found by name|not found", "getProperty(name) returns nothing after reopen"); return bail(); }
                continue;
            }
            fresh_session = false;
            // writer: kept handle at even positions, a freshly fetched one at odd positions
            Property W = K;
            if (si % 2 == 1) { W = sec.getProperty(PNAME); if (!W) { VIOL(std::string("C14|Section::getProperty|") + tname(dt) + "|the property is found by name|not found", "getProperty(name) returns nothing"); return bail(); } }
            const bool may_reject = l.kind == ASSIGN_BAD || (l.kind == UNIT && deblank(l.s).empty());
            Obs before;
            if (last && may_reject) before = observe(K);
            std::string what;
            std::string exc = vf::guarded([&] {
                switch (l.kind) {
                    case ASSIGN: case ASSIGN_BAD: W.values(to_variants(l.vals)); break;
                    case DELETE_VALUES: W.deleteValues(); break;
                    case VALUES_NONE: W.values(nix::none); break;
                    case UNIT: W.unit(l.s); break;
                    case UNIT_NONE: W.unit(nix::none); break;
                    case UNCERTAINTY: W.uncertainty(l.x); break;
                    case UNCERTAINTY_NONE: W.uncertainty(nix::none); break;
                    case DEFINITION: W.definition(l.s); break;
                    case DEFINITION_NONE: W.definition(nix::none); break;
                    default: break;
                }
            }, &what);
            const std::string sigpre = "C14|" + l.cls + "|" + tname(dt) + "|";
            bool rejected = false;
            if (l.kind == ASSIGN_BAD) {
                if (exc.empty()) {
                    if (last) VIOL(sigpre + "values of another type are rejected|accepted", "the assignment was accepted");
                    else bad++;
                } else rejected = true;
            } else if (may_reject) {            // unit(""): rejected, or the unit is removed
                if (exc.empty()) { m.has_unit = false; m.unit.clear(); }
                else rejected = true;
            } else if (!exc.empty()) {
                if (last) VIOL(sigpre + "a valid operation is carried out|throws " + exc, "threw " + exc + ": " + what);
                else bad++;
            } else {
                switch (l.kind) {
                    case ASSIGN: m.vals = l.vals; m.dontcare = false; break;
                    case DELETE_VALUES: case VALUES_NONE: m.vals.clear(); m.dontcare = false; break;
                    case UNIT: m.has_unit = true; m.unit = deblank(l.s); break;
                    case UNIT_NONE: m.has_unit = false; m.unit.clear(); break;
                    case UNCERTAINTY: m.has_unc = true; m.unc = d2bits(l.x); break;
                    case UNCERTAINTY_NONE: m.has_unc = false; m.unc = 0; break;
                    case DEFINITION: m.has_def = true; m.def = l.s; break;
                    case DEFINITION_NONE: m.has_def = false; m.def.clear(); break;
                    default: break;
                }
            }
            if (bad) return bail();
            if (last) {
                if (!g_quiet) {
                    vf::count(rejected ? "rejected_steps" : "transitions");
                    vf::distinct("outcomes", std::string(tname(dt)) + "|" + CREATION[creation] + "|" + l.label + "|" + (m.dontcare ? "unspecified" : "defined") + "|" + (rejected ? exc : "ok"));
                }
                if (rejected) {
                    Obs after = observe(K);
                    std::string cls, w;
                    if (obs_diff(before, after, &cls, &w)) VIOL(sigpre + "a rejected operation changes nothing|" + cls, "rejected with " + exc + " but " + w);
                }
            }
        }
        if (bad) return bail();      // the consequences of a step that already failed are not reported on top of it
        // ---- the observations after the last step ----
        bad += compare(observe(K), m, lastcls, "kept handle", trace);
        Property F;
        std::string exc = vf::guarded([&] { F = sec.getProperty(PNAME); });
        if (!exc.empty() || !F) VIOL("C14|after " + lastcls + "|" + tname(dt) + "|the property is found by name|" + (exc.empty() ? "not found" : "throws " + exc), "getProperty(name) finds nothing");
        else bad += compare(observe(F), m, lastcls, "fresh handle", trace);
        K = nix::none; F = nix::none; sec = nix::none;
        f.close();
        if (!fresh_session) {
            File g = File::open(path, FileMode::ReadOnly);
            Property R;
            exc = vf::guarded([&] { R = g.getSection("sec").getProperty(PNAME); });
            if (!exc.empty() || !R) VIOL("C14|after " + lastcls + "|" + tname(dt) + "|the property is found by name after reopen|" + (exc.empty() ? "not found" : "throws " + exc), "getProperty(name) finds nothing after reopen");
            else bad += compare(observe(R), m, lastcls, "after reopen", trace);
            R = nix::none;
            g.close();
        }
        if (!g_quiet) {
            vf::count("traces");
            vf::distinct("states", m.key() + (fresh_session ? "|fresh" : "|same"));
        }
        return bad == 0;
    }
};

// creation with a mixed vector: must be rejected and leave no property behind
static void creation_rejections(DataType t) {
    std::vector<Vals> own = own_pool(t);
    std::vector<std::pair<std::string, Vals>> inputs;
    DataType w1 = confusable(t, 0), w2 = confusable(t, 1);
    inputs.push_back({"[own, other]", {own[2][0], ordinary(w1, 0)}});
    inputs.push_back({"[own, own, other]", {own[3][0], own[3][1], ordinary(w2, 0)}});
    inputs.push_back({"[own, empty Variant]", {own[1][0], Val()}});
    for (auto &in : inputs) {
        const std::string ctx = std::string(tname(t)) + ": createProperty(name, " + vals_str(in.second) + ")";
        const std::string sig = std::string("C14|createProperty(name, mixed vector)|") + tname(t) + " " + in.first + "|";
        std::string path = vf::scratch_file("c14c.h5");
        File f = File::open(path, FileMode::Overwrite);
        Section sec = f.createSection("sec", "t");
        std::string what;
        std::string exc = vf::guarded([&] { sec.createProperty(PNAME, to_variants(in.second)); }, &what);
        vf::count("creation_rejections");
        vf::distinct("outcomes", std::string(tname(t)) + "|create " + in.first + "|" + (exc.empty() ? "ok" : exc));
        if (exc.empty()) vf::violation(sig + "mixed vectors are rejected|accepted", ctx + " was accepted");
        else {
            bool has = true; size_t n = 99;
            vf::guarded([&] { has = sec.hasProperty(PNAME); n = (size_t)sec.propertyCount(); });
            if (has || n != 0) vf::violation(sig + "a rejected creation changes nothing|a property is left behind", ctx + " threw " + exc + " but hasProperty(name)=" + (has ? "true" : "false") + " propertyCount()=" + std::to_string(n));
            sec = nix::none; f.close();
            f = File::open(path, FileMode::ReadOnly);
            has = true; n = 99;
            vf::guarded([&] { Section s = f.getSection("sec"); has = s.hasProperty(PNAME); n = (size_t)s.propertyCount(); });
            if (has || n != 0) vf::violation(sig + "a rejected creation changes nothing (after reopen)|a property is left behind", ctx + " threw " + exc + " but after reopen hasProperty(name)=" + (has ? "true" : "false") + " propertyCount()=" + std::to_string(n));
        }
        sec = nix::none;
        f.close();
    }
}

int main(int argc, char **argv) {
    vf::init(argc, argv, "C14");
    const bool thorough = vf::opt.tier == "thorough";
    const int depth = atoi(vf::opt.extra.count("depth") ? vf::opt.extra["depth"].c_str() : (thorough ? "4" : "3"));

    long caseno = 0;
    size_t ncore = 0, nfull = 0;
    // part A: core alphabet, all sequences up to `depth`
    // part B: full alphabet (core + extended letters), all sequences up to `depth`-1 that contain an extended letter
    for (int part = 0; part < 2; part++) {
        const int maxdepth = part == 0 ? depth : depth - 1;
        // a case = the subtree of sequences below a prefix of `plen` steps (plus the shorter sequences, see below)
        const int plen = maxdepth >= 4 ? 2 : 1;
        for (DataType t : TYPES) {
            for (int creation = 0; creation < 3; creation++) {
                Runner R(t, creation);
                const int RE = (int)R.alpha.size() - 1;
                std::vector<int> letters;
                for (int a = 0; a < (int)R.alpha.size(); a++) if (part == 1 || !R.alpha[a].ext) letters.push_back(a);
                (part == 0 ? ncore : nfull) = letters.size();
                auto has_ext = [&](const std::vector<int> &q) { for (int a : q) if (R.alpha[a].ext) return true; return false; };
                std::vector<std::vector<int>> prefixes;
                if (plen == 1) for (int a : letters) prefixes.push_back({a});
                else for (int a : letters) for (int b : letters) { if (a == RE && b == RE) continue; prefixes.push_back({a, b}); }
                for (size_t pi = 0; pi < prefixes.size(); pi++) {
                    long cid = caseno++;
                    if (!vf::take_case(cid)) continue;
                    const std::vector<int> &pre = prefixes[pi];
                    std::string d = std::string(part == 0 ? "A: " : "B: ") + tname(t) + " via " + CREATION[creation] + ", sequences starting with";
                    for (int a : pre) d += " " + R.alpha[a].label + " ;";
                    vf::case_desc(d + " ... up to depth " + std::to_string(maxdepth));
                    // the shorter sequences: the empty one belongs to the first case of part A; with two-step prefixes the
                    // sequence {a} belongs to the case {a, first letter} and is re-run quietly in the other cases {a, *}
                    if (part == 0 && pi == 0 && !R.run({})) continue;
                    if (plen == 2 && (part == 0 || has_ext({pre[0]}))) {
                        g_quiet = pre[1] != letters[0];
                        bool ok = R.run({pre[0]});
                        g_quiet = false;
                        if (!ok) continue;     // traces are not extended past the first failing step
                    }
                    std::vector<int> seq = pre, lastleaf;
                    std::function<void()> rec = [&]() {
                        if (vf::deadline_hit()) return;
                        // part B: sequences without an extended letter were run in part A
                        // (as inner nodes they are re-run quietly: a failing trace is not extended)
                        bool ext = true;
                        if (part == 0 || has_ext(seq)) ext = R.run(seq);
                        else if ((int)seq.size() < maxdepth) { g_quiet = true; ext = R.run(seq); g_quiet = false; }
                        if ((int)seq.size() == maxdepth) lastleaf = seq;
                        if (!ext || (int)seq.size() >= maxdepth) return;
                        for (int a : letters) {
                            if (a == RE && seq.back() == RE) continue;
                            seq.push_back(a); rec(); seq.pop_back();
                        }
                    };
                    rec();
                    if (!lastleaf.empty()) vf::sample(vf::jstr(R.seq_str(lastleaf)), 7);
                }
            }
        }
    }
    for (DataType t : TYPES) {
        long cid = caseno++;
        if (!vf::take_case(cid)) continue;
        vf::case_desc(std::string(tname(t)) + ": createProperty(name, mixed vector) must be rejected and leave nothing behind");
        creation_rejections(t);
    }
    vf::note("depth", std::to_string(depth));
    vf::note("core_alphabet_size", std::to_string(ncore));
    vf::note("full_alphabet_size", std::to_string(nfull));
    vf::note("types", "7");
    vf::note("creation_overloads", "3");
    return vf::finish();
}
