// C18 (b) — expressing a tag's / multi-tag's positions and extents (or a slice's start and end) in a scaled unit with
// numerically rescaled values selects the same elements as the unscaled request.
//
// Exhaustive grid (E2): arrays of rank 1-2 whose dimensions carry units (sampled "ms"/"s", range "mV"), position and
// extent candidates on / between / outside the coordinates; for EVERY SI prefix the request is re-expressed in
// prefix+base with value / factor; the case is used only if the library's own arithmetic reproduces the unscaled numbers
// exactly in double ((p_tag * f == p_dim) and ((p_tag + e_tag) * f == p_dim + e_dim)), which the harness checks before
// counting the case.  Oracle: same outcome (exception or not), same extent, same content as the unscaled request.
#include <nix.hpp>
#include <locale>
#include <nix/util/dataAccess.hpp>
#include <nix/util/util.hpp>
#include <cmath>
#include "vf.hpp"

using namespace nix;

static const char *PREFIXES[] = {"", "Y", "Z", "E", "P", "T", "G", "M", "k", "h", "da", "d", "c", "m", "u", "n", "p", "f", "a", "z", "y"};
static const int NPREFIX = 21;

struct Out { bool threw; NDSize extent; std::vector<double> data; std::string exc; };
static bool same(const Out &a, const Out &b) { return a.threw == b.threw && (a.threw || (a.extent == b.extent && a.data == b.data)); }
static std::string show(const Out &o) {
    if (o.threw) return "throws " + o.exc;
    std::string s = "extent {";
    for (size_t i = 0; i < o.extent.size(); i++) s += (i ? "," : "") + std::to_string(o.extent[i]);
    return s + "} data " + vf::jvecd(o.data);
}
static Out read_view(const std::function<DataView()> &get) {
    Out o{false, NDSize(), {}, ""};
    o.exc = vf::guarded([&] {
        DataView v = get();
        o.extent = v.dataExtent();
        o.data.assign(o.extent.nelms(), -777.0);
        if (!o.data.empty()) v.getData(DataType::Double, o.data.data(), o.extent, NDSize(o.extent.size(), 0));
    });
    o.threw = !o.exc.empty();
    return o;
}

struct Outs { bool threw; std::string exc; std::vector<Out> v; };
static Outs read_views(const std::function<std::vector<DataView>()> &get) {
    Outs o{false, "", {}};
    o.exc = vf::guarded([&] {
        for (DataView v : get()) {
            Out x{false, v.dataExtent(), {}, ""};
            x.data.assign(x.extent.nelms(), -777.0);
            if (!x.data.empty()) v.getData(DataType::Double, x.data.data(), x.extent, NDSize(x.extent.size(), 0));
            o.v.push_back(x);
        }
    });
    o.threw = !o.exc.empty();
    return o;
}
static bool same(const Outs &a, const Outs &b) {
    if (a.threw || b.threw) return a.threw == b.threw;
    if (a.v.size() != b.v.size()) return false;
    for (size_t i = 0; i < a.v.size(); i++) if (!same(a.v[i], b.v[i])) return false;
    return true;
}
static std::string show(const Outs &o) { if (o.threw) return "throws " + o.exc; std::string s; for (auto &x : o.v) s += "[" + show(x) + "] "; return s; }

struct Dim { int kind; double a, b; std::vector<double> ticks; std::string base; };   // kind 0 sampled(interval a, offset b), 1 range, 2 set (no unit)
static std::vector<double> coords(const Dim &d, size_t n) {
    std::vector<double> c;
    for (size_t i = 0; i < n; i++) c.push_back(d.kind == 0 ? i * d.a + d.b : d.kind == 1 ? d.ticks[i] : (double)i);
    return c;
}

int main(int argc, char **argv) {
    vf::init(argc, argv, "C18");
    const bool thorough = vf::opt.tier == "thorough";
    vf::set_clock(1500000000);
    File f = File::open(vf::scratch_file("c18b.h5"), FileMode::Overwrite);
    Block b = f.createBlock("b", "t");
    long caseno = 0; int uid = 0;

    std::vector<Dim> dims = {
        {0, 0.5, 1.0, {}, "s"}, {0, 0.25, 0.0, {}, "s"}, {0, 2.0, -4.0, {}, "V"},
        {1, 0, 0, {1.0, 2.0, 4.0, 8.0, 16.0}, "V"}, {1, 0, 0, {-2.5, -1.0, 0.5, 3.0, 3.5}, "A"},
        {2, 0, 0, {}, ""},
    };
    // array configurations: rank 1 (each unit-carrying dim with each dimension prefix of a few), rank 2 (pairs)
    struct Cfg { std::vector<int> d; std::vector<int> dimprefix; };
    std::vector<Cfg> cfgs;
    const int dimprefs[] = {13 /*m*/, 0 /*none*/, 14 /*u*/, 8 /*k*/};
    for (int i = 0; i < 5; i++) for (int dp : dimprefs) { if (!thorough && dp != 13 && dp != 0) continue; cfgs.push_back({{i}, {dp}}); }
    for (int i = 0; i < 5; i++) for (int j = 0; j < 6; j++) { if (!thorough && (i * 6 + j) % 5 != 0) continue; cfgs.push_back({{i, j}, {13, 0}}); }
    if (thorough) for (int i = 0; i < 5; i++) for (int j = 0; j < 5; j++) cfgs.push_back({{j, i}, {0, 14}});

    // every configuration runs twice: in the classic locale and with a global C++ locale whose numbers are written with a decimal
    // comma and grouped digits (what std::locale::global(std::locale("de_DE")) installs; built here from a facet, no system locale needed)
    struct CommaNumbers : std::numpunct<char> { char do_decimal_point() const override { return ','; } char do_thousands_sep() const override { return '.'; } std::string do_grouping() const override { return "\3"; } };
    const std::locale classic_locale = std::locale::classic(), comma_locale(std::locale::classic(), new CommaNumbers);
    for (int loc = 0; loc < 2; loc++)
    for (size_t ci = 0; ci < cfgs.size(); ci++) {
        long cid = caseno++;
        if (!vf::take_case(cid)) continue;
        struct LocaleGuard { std::locale old; LocaleGuard(const std::locale &l) : old(std::locale::global(l)) {} ~LocaleGuard() { std::locale::global(old); } } locale_guard(loc ? comma_locale : classic_locale);
        const std::string LOCSFX = loc ? ", decimal-comma global locale" : "";
        const Cfg &cfg = cfgs[ci];
        size_t rank = cfg.d.size();
        NDSize ext(rank, 5);
        std::string desc = "array";
        DataArray a = b.createDataArray("a" + std::to_string(uid++) + "_" + std::to_string(cid), "t", DataType::Double, ext);
        { std::vector<double> v(ext.nelms()); for (size_t i = 0; i < v.size(); i++) v[i] = (double)i; a.setData(DataType::Double, v.data(), ext, NDSize(rank, 0)); }
        std::vector<std::string> dimunits;
        for (size_t k = 0; k < rank; k++) {
            const Dim &d = dims[cfg.d[k]];
            std::string u = d.base.empty() ? "" : std::string(PREFIXES[cfg.dimprefix[k]]) + d.base;
            if (d.kind == 0) a.appendSampledDimension(d.a, "l", u, d.b); else if (d.kind == 1) a.appendRangeDimension(d.ticks, "l", u); else a.appendSetDimension();
            dimunits.push_back(u);
            desc += std::string(k ? " x " : " ") + (d.kind == 0 ? "sampled" : d.kind == 1 ? "range" : "set") + "[" + (u.empty() ? "-" : u) + "]";
        }
        vf::case_desc(desc + LOCSFX);
        // per-axis candidates in dimension units
        std::vector<std::vector<double>> P(rank), E(rank);
        std::vector<double> q(rank), qe(rank);   // the SECOND position of the multi-tag: a fixed region inside the data
        for (size_t k = 0; k < rank; k++) {
            std::vector<double> c = coords(dims[cfg.d[k]], 5);
            q[k] = c[1]; qe[k] = c[2] - c[1];
            size_t step = rank == 1 ? 1 : 2;
            for (size_t i = 0; i < 5; i += step) { P[k].push_back(c[i]); if (i + 1 < 5) P[k].push_back((c[i] + c[i + 1]) / 2); }
            P[k].push_back(c[0] - (c[1] - c[0])); P[k].push_back(c[4] + (c[4] - c[3]));
            E[k] = {0.0, c[1] - c[0], c[2] - c[0], (c[3] - c[0]) * 0.75, 100.0 * (c[4] - c[0])};
        }
        // enumerate position/extent tuples (full product for rank 1, product of per-axis pairs for rank 2)
        std::vector<std::pair<std::vector<double>, std::vector<double>>> reqs;
        if (rank == 1) { for (double p : P[0]) for (double e : E[0]) reqs.push_back({{p}, {e}}); }
        else { size_t n = 0; for (double p0 : P[0]) for (double e0 : E[0]) for (size_t k1 = 0; k1 < P[1].size(); k1 += 2) for (size_t e1 = 0; e1 < E[1].size(); e1 += 2) { if (thorough || n % 4 == 0) reqs.push_back({{p0, P[1][k1]}, {e0, E[1][e1]}}); n++; } }
        Tag tag = b.createTag("t" + std::to_string(cid), "t", {0.0});
        tag.addReference(a);
        DataArray pos = b.createDataArray("p" + std::to_string(cid), "t", DataType::Double, rank == 1 ? NDSize({2}) : NDSize({ndsize_t(2), ndsize_t(rank)}));
        DataArray exa = b.createDataArray("e" + std::to_string(cid), "t", DataType::Double, rank == 1 ? NDSize({2}) : NDSize({ndsize_t(2), ndsize_t(rank)}));
        MultiTag mt = b.createMultiTag("m" + std::to_string(cid), "t", pos);
        mt.extents(exa);
        mt.addReference(a);
        NDSize prow = rank == 1 ? NDSize({1}) : NDSize({ndsize_t(1), ndsize_t(rank)}), pzero(prow.size(), 0), prow1 = pzero;
        prow1[0] = 1;   // offset of the second row
        std::vector<ndsize_t> both = {1, 0};
        for (auto &rq : reqs) {
            const std::vector<double> &p = rq.first, &e = rq.second;
            for (RangeMatch rm : {RangeMatch::Inclusive, RangeMatch::Exclusive}) {
                // ---- baseline: request in the dimensions' own units ----
                tag.position(p); tag.extent(e); tag.units(dimunits.back().empty() && rank == 2 ? std::vector<std::string>{dimunits[0], ""} : dimunits);
                pos.setData(DataType::Double, p.data(), prow, pzero); exa.setData(DataType::Double, e.data(), prow, pzero);
                pos.setData(DataType::Double, q.data(), prow, prow1); exa.setData(DataType::Double, qe.data(), prow, prow1);
                std::vector<std::string> mu = dimunits; for (auto &u : mu) if (u.empty()) u = "none";
                vf::guarded([&] { mt.units(dimunits.back().empty() && rank == 2 ? std::vector<std::string>{dimunits[0], ""} : dimunits); });
                Out t0 = read_view([&] { return util::taggedData(tag, a, rm); });
                Out m0 = read_view([&] { return util::taggedData(mt, 0, a, rm); });
                Outs ml0 = read_views([&] { return util::taggedData(mt, both, a, rm); });   // positions {1, 0} in ONE call
                std::vector<double> s0 = p, e0(rank); for (size_t k = 0; k < rank; k++) e0[k] = p[k] + e[k];
                Out d0 = read_view([&] { return util::dataSlice(a, s0, e0, mu, rm); });
                vf::count("baseline_retrievals", 3);
                // ---- every prefix on the first unit-carrying axis (and, rank 2, on the second if it has a unit) ----
                for (size_t axis = 0; axis < rank; axis++) {
                    if (dimunits[axis].empty()) continue;
                    const std::string base = dims[cfg.d[axis]].base;
                    for (int pf = 0; pf < NPREFIX; pf++) {
                        if (!thorough && rank == 2 && pf % 4 != 0) continue;      // quick, rank 2: prefixes none, P, k, c, p, y
                        std::string u = std::string(PREFIXES[pf]) + base;
                        if (u == dimunits[axis]) continue;
                        double fct = 0;
                        if (!vf::guarded([&] { fct = util::getSIScaling(u, dimunits[axis]); }).empty()) { vf::count("prefix_not_scalable"); continue; }
                        // rescaled numbers; usable only if the library's arithmetic gets back the unscaled ones exactly
                        double pt = p[axis] / fct, et = e[axis] / fct;
                        bool exact = pt * fct == p[axis] && (pt + et) * fct == p[axis] + e[axis] && std::isfinite(pt) && std::isfinite(et);
                        if (!exact) { vf::count("cases_skipped_not_exact"); continue; }
                        std::vector<double> p2 = p, e2 = e; p2[axis] = pt; e2[axis] = et;
                        std::vector<std::string> u2 = dimunits; u2[axis] = u;
                        std::vector<std::string> tu = u2; if (rank == 2 && tu[1].empty()) tu = {tu[0], ""};
                        std::string ctx = desc + " request p=" + vf::jvecd(p) + " e=" + vf::jvecd(e) + " re-expressed on axis " + std::to_string(axis) + " in " + u + " (factor " + vf::hexd(fct) + ") " + (rm == RangeMatch::Inclusive ? "Inclusive" : "Exclusive");
                        std::string pcls = std::string(PREFIXES[pf]).empty() ? "no prefix" : fct > 1 ? "larger unit" : "smaller unit";
                        // Tag
                        tag.position(p2); tag.extent(e2); tag.units(tu);
                        Out t1 = read_view([&] { return util::taggedData(tag, a, rm); });
                        vf::count("scaled_retrievals");
                        if (!same(t0, t1)) vf::violation("C18|Tag retrieval with scaled units|" + pcls + LOCSFX + "|differs from the unscaled request|" + (t1.threw != t0.threw ? (t1.threw ? "throws " + t1.exc : "returns data") : "other elements"), ctx + ": unscaled " + show(t0) + " scaled " + show(t1));
                        // MultiTag
                        pos.setData(DataType::Double, p2.data(), prow, pzero); exa.setData(DataType::Double, e2.data(), prow, pzero);
                        std::string ue = vf::guarded([&] { mt.units(tu); });
                        Out m1 = read_view([&] { return util::taggedData(mt, 0, a, rm); });
                        vf::count("scaled_retrievals");
                        if (!ue.empty()) vf::violation("C18|MultiTag::units|SI unit rejected", ctx + " " + ue);
                        else if (!same(m0, m1)) vf::violation("C18|MultiTag retrieval with scaled units|" + pcls + LOCSFX + "|differs from the unscaled request|" + (m1.threw != m0.threw ? (m1.threw ? "throws " + m1.exc : "returns data") : "other elements"), ctx + ": unscaled " + show(m0) + " scaled " + show(m1));
                        // MultiTag, two positions in one call: the second position is re-expressed as well (only if that is exact too)
                        {
                            double qt = q[axis] / fct, qet = qe[axis] / fct;
                            if (ue.empty() && qt * fct == q[axis] && (qt + qet) * fct == q[axis] + qe[axis] && std::isfinite(qt) && std::isfinite(qet)) {
                                std::vector<double> q2 = q, qe2 = qe; q2[axis] = qt; qe2[axis] = qet;
                                pos.setData(DataType::Double, q2.data(), prow, prow1); exa.setData(DataType::Double, qe2.data(), prow, prow1);
                                Outs ml1 = read_views([&] { return util::taggedData(mt, both, a, rm); });
                                vf::count("scaled_retrievals");
                                if (!same(ml0, ml1)) vf::violation("C18|MultiTag retrieval of several positions with scaled units|" + pcls + LOCSFX + "|differs from the unscaled request|" + (ml1.threw != ml0.threw ? (ml1.threw ? "throws " + ml1.exc : "returns data") : "other elements"), ctx + ": unscaled " + show(ml0) + " scaled " + show(ml1));
                                pos.setData(DataType::Double, q.data(), prow, prow1); exa.setData(DataType::Double, qe.data(), prow, prow1);
                            } else vf::count("cases_skipped_not_exact");
                        }
                        // dataSlice: end = start + extent must be exact as well
                        double st = pt, en = (p[axis] + e[axis]) / fct;
                        if (st * fct == p[axis] && en * fct == p[axis] + e[axis]) {
                            std::vector<double> s1 = s0, e1 = e0; s1[axis] = st; e1[axis] = en;
                            std::vector<std::string> su = mu; su[axis] = u;
                            Out d1 = read_view([&] { return util::dataSlice(a, s1, e1, su, rm); });
                            vf::count("scaled_retrievals");
                            if (!same(d0, d1)) vf::violation("C18|dataSlice with scaled units|" + pcls + LOCSFX + "|differs from the unscaled request|" + (d1.threw != d0.threw ? (d1.threw ? "throws " + d1.exc : "returns data") : "other elements"), ctx + ": unscaled " + show(d0) + " scaled " + show(d1));
                        }
                        vf::distinct("outcomes", std::string("b|") + pcls + "|" + (t0.threw ? "throws" : "data") + "|" + std::to_string(rank));
                    }
                }
                if (vf::deadline_hit()) break;
            }
            if (vf::deadline_hit()) break;
        }
        if (ci % 9 == 0) vf::sample("{\"array\":" + vf::jstr(desc) + ",\"requests\":" + std::to_string(reqs.size()) + ",\"prefixes\":21,\"entry_points\":\"Tag, MultiTag, dataSlice\"}", 4);
    }
    // ---- vector overloads of util::positionToIndex with one unit PER PAIR: every pair must convert exactly like the pair alone
    {
        long cid = caseno++;
        if (vf::take_case(cid)) {
            vf::case_desc("util::positionToIndex(starts, ends, units, match, dimension) with mixed units per pair");
            DataArray sa = b.createDataArray("vec_s", "t", DataType::Double, NDSize({8}));
            SampledDimension sd = sa.appendSampledDimension(0.5, "t", "ms", 1.0);
            DataArray ra = b.createDataArray("vec_r", "t", DataType::Double, NDSize({5}));
            RangeDimension rd = ra.appendRangeDimension({250.0, 500.0, 1000.0, 2000.0, 4000.0}, "t", "ms");
            // (start, end, unit) triples: values exact in binary after scaling
            struct Tr { double s, e; const char *u; };
            std::vector<Tr> pool = {{1.0, 3.0, "ms"}, {0.5, 2.0, "none"}, {0.0009765625, 0.001953125, "s"}, {2048.0, 4096.0, "us"}, {1.5, 1.5, "ms"}, {0.25, 1.0, "s"}, {250.0, 1000.0, "none"}, {500.0, 2000.0, "ms"}};
            for (size_t i = 0; i < pool.size(); i++) for (size_t j = 0; j < pool.size(); j++) for (size_t k = 0; k < pool.size(); k += 3) {
                std::vector<Tr> sel = {pool[i], pool[j], pool[k]};
                for (RangeMatch rm : {RangeMatch::Inclusive, RangeMatch::Exclusive}) for (int dimk = 0; dimk < 2; dimk++) {
                    std::vector<double> ss, ee; std::vector<std::string> uu;
                    for (auto &t : sel) { ss.push_back(t.s); ee.push_back(t.e); uu.push_back(t.u); }
                    typedef std::vector<boost::optional<std::pair<ndsize_t, ndsize_t>>> RV;
                    RV all; std::string e1 = vf::guarded([&] { all = dimk == 0 ? util::positionToIndex(ss, ee, uu, rm, sd) : util::positionToIndex(ss, ee, uu, rm, rd); });
                    vf::count("scaled_retrievals");
                    for (size_t q = 0; q < sel.size(); q++) {
                        RV one; std::string e2 = vf::guarded([&] { one = dimk == 0 ? util::positionToIndex({ss[q]}, {ee[q]}, {uu[q]}, rm, sd) : util::positionToIndex({ss[q]}, {ee[q]}, {uu[q]}, rm, rd); });
                        vf::count("scaled_retrievals");
                        bool same = e1.empty() == e2.empty() && (!e1.empty() || (all.size() == sel.size() && all[q] == one[0]));
                        if (!e1.empty() && e2.empty()) {
                            // the list call raised although this pair alone converts: acceptable only if some pair of the list raises alone
                            bool someone = false;
                            for (size_t r = 0; r < sel.size(); r++) if (!vf::guarded([&] { dimk == 0 ? util::positionToIndex({ss[r]}, {ee[r]}, {uu[r]}, rm, sd) : util::positionToIndex({ss[r]}, {ee[r]}, {uu[r]}, rm, rd); }).empty()) someone = true;
                            same = someone;
                        }
                        if (!same)
                            vf::violation(std::string("C18|util::positionToIndex(starts,ends,units)|") + (dimk == 0 ? "sampled" : "range") + " dimension, units differ between the pairs|pair " + (q == 0 ? "first" : "later") + " in the list converts like the pair alone|differs",
                                          std::string("units ") + vf::jvecs(uu) + " starts " + vf::jvecd(ss) + " ends " + vf::jvecd(ee) + " pair " + std::to_string(q));
                    }
                    vf::distinct("outcomes", std::string("vec|") + uu[0] + "," + uu[1] + "," + uu[2]);
                }
            }
        }
    }
    f.close();
    return vf::finish();
}
