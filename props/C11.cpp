// C11 — after close() or a successful flush() the file on disk is complete and released.
//
// Fault enumeration (E3):
//  (a) crash points: for every state of a BFS corpus and every enabled operation, a CHILD PROCESS replays the history in
//      one session (variant 1: flush() after every step; variant 0: a single flush at the end), records its in-session
//      observation and kills itself with SIGKILL (no destructors, no atexit) right after flush() returned true — or after
//      close() returned (variant 2).  The parent then opens the file ReadOnly and ReadWrite: both must succeed and show
//      exactly the child's observation.
//  (b) handle populations at close(): every subset (quick: size <= 2, the full set, and a 40-fold population) of 16 kinds of
//      entity handles / data views is kept alive across File::close().  Afterwards another process must be able to open the
//      file ReadWrite, the same process must be able to reopen it (ReadOnly, and Overwrite on a copy), every file-accessing
//      method of every stale handle must throw instead of returning data, and the file's bytes must not change.
#include <nix.hpp>
#include <unistd.h>
#include <signal.h>
#include <sys/wait.h>
#include <sys/resource.h>
#include <sys/stat.h>
#include <fstream>
#include "vf.hpp"
#include "obs.hpp"
#include "ops.hpp"
#include "explore.hpp"

using namespace nix;

static std::string obsdump_path;

static int run_other(const std::string &path, const char *mode, std::string *out) {
    int fd[2];
    if (pipe(fd) != 0) return -1;
    pid_t pid = fork();
    if (pid == 0) { dup2(fd[1], 1); close(fd[0]); close(fd[1]); execl(obsdump_path.c_str(), "obsdump", path.c_str(), mode, (char *)nullptr); _exit(127); }
    close(fd[1]);
    char buf[65536]; ssize_t n; out->clear();
    while ((n = read(fd[0], buf, sizeof buf)) > 0) out->append(buf, n);
    close(fd[0]);
    int st = 0; waitpid(pid, &st, 0);
    return WIFEXITED(st) ? WEXITSTATUS(st) : -2;
}

// ---------------------------------------------------------------- (b) handle populations
struct Held {
    std::vector<Block> blocks; std::vector<DataArray> arrays; std::vector<Dimension> dims; std::vector<SampledDimension> sdims; std::vector<RangeDimension> rdims;
    std::vector<SetDimension> setdims; std::vector<DataFrameDimension> dfdims; std::vector<DataFrame> frames; std::vector<Tag> tags; std::vector<MultiTag> mtags;
    std::vector<Feature> features; std::vector<Group> groups; std::vector<Source> sources; std::vector<Section> sections; std::vector<Property> props;
    std::vector<DataView> views;
};
static const char *KINDS[] = {"Block", "DataArray", "SampledDimension", "RangeDimension", "SetDimension", "DataFrameDimension", "AliasRangeDimension", "DataFrame", "Tag", "MultiTag",
                              "Feature", "Group", "Source", "Section", "Property", "DataView"};
static const int NK = 16;

static void grab(File &f, int kind, Held &h) {
    Block b = f.getBlock("b1");
    switch (kind) {
    case 0: h.blocks.push_back(b); break;
    case 1: h.arrays.push_back(b.getDataArray("a1")); h.arrays.push_back(b.getDataArray("a3")); break;
    case 2: h.sdims.push_back(b.getDataArray("a1").getDimension(1).asSampledDimension()); h.dims.push_back(b.getDataArray("a1").getDimension(1)); break;
    case 3: h.rdims.push_back(b.getDataArray("a2").getDimension(2).asRangeDimension()); break;
    case 4: h.setdims.push_back(b.getDataArray("a2").getDimension(1).asSetDimension()); break;
    case 5: h.dfdims.push_back(b.getDataArray("a5").getDimension(1).asDataFrameDimension()); break;
    case 6: h.rdims.push_back(b.getDataArray("a4").getDimension(1).asRangeDimension()); break;
    case 7: h.frames.push_back(b.getDataFrame("f1")); break;
    case 8: h.tags.push_back(b.getTag("t1")); break;
    case 9: h.mtags.push_back(b.getMultiTag("m1")); break;
    case 10: h.features.push_back(b.getTag("t1").getFeature(0)); break;
    case 11: h.groups.push_back(b.getGroup("g1")); break;
    case 12: h.sources.push_back(b.getSource("s1").getSource("s2")); break;
    case 13: h.sections.push_back(f.getSection("x1")); h.sections.push_back(f.getSection("x1").getSection("x2")); break;
    case 14: h.props.push_back(f.getSection("x1").getProperty("p1")); break;
    case 15: h.views.push_back(b.getTag("t1").taggedData(0)); h.views.push_back(DataView(b.getDataArray("a2"), NDSize({1, 2}), NDSize({0, 0}))); break;
    }
}

// every call must throw; returns the list of calls that returned normally
struct Probe { std::string returned; long calls = 0; };
template <typename F> static void must_throw(Probe &p, const char *name, F fn) {
    p.calls++;
    try { fn(); p.returned += std::string(name) + " "; } catch (const std::exception &) {} catch (...) {}
}

static Probe probe_stale(Held &h) {
    Probe p;
    for (auto &b : h.blocks) { must_throw(p, "Block::name", [&] { b.name(); }); must_throw(p, "Block::dataArrayCount", [&] { b.dataArrayCount(); }); must_throw(p, "Block::type(set)", [&] { b.type("zz"); });
        must_throw(p, "Block::createDataArray", [&] { b.createDataArray("late", "t", DataType::Double, NDSize({1})); }); must_throw(p, "Block::getDataArray", [&] { b.getDataArray("a1"); }); must_throw(p, "Block::metadata", [&] { b.metadata(); }); }
    for (auto &a : h.arrays) { must_throw(p, "DataArray::id", [&] { a.id(); }); must_throw(p, "DataArray::dataExtent", [&] { a.dataExtent(); }); must_throw(p, "DataArray::getData", [&] { std::vector<double> v(1); a.getData(DataType::Double, v.data(), NDSize({1}), NDSize({0})); });
        must_throw(p, "DataArray::setData", [&] { double v = 1; a.setData(DataType::Double, &v, NDSize({1}), NDSize({0})); }); must_throw(p, "DataArray::label(set)", [&] { a.label("zz"); }); must_throw(p, "DataArray::dimensionCount", [&] { a.dimensionCount(); });
        must_throw(p, "DataArray::appendSetDimension", [&] { a.appendSetDimension(); }); must_throw(p, "DataArray::unit", [&] { a.unit(); }); }
    for (auto &d : h.sdims) { must_throw(p, "SampledDimension::samplingInterval", [&] { d.samplingInterval(); }); must_throw(p, "SampledDimension::samplingInterval(set)", [&] { d.samplingInterval(3.0); }); must_throw(p, "SampledDimension::unit", [&] { d.unit(); });
        must_throw(p, "SampledDimension::indexOf", [&] { d.indexOf(1.0, PositionMatch::GreaterOrEqual); }); must_throw(p, "SampledDimension::positionAt", [&] { d.positionAt(1); }); }
    for (auto &d : h.rdims) { must_throw(p, "RangeDimension::ticks", [&] { d.ticks(); }); must_throw(p, "RangeDimension::ticks(set)", [&] { d.ticks({1.0, 2.0}); }); must_throw(p, "RangeDimension::label", [&] { d.label(); }); must_throw(p, "RangeDimension::alias", [&] { d.alias(); });
        must_throw(p, "RangeDimension::indexOf", [&] { d.indexOf(1.0, PositionMatch::GreaterOrEqual); }); }
    for (auto &d : h.setdims) { must_throw(p, "SetDimension::labels", [&] { d.labels(); }); must_throw(p, "SetDimension::labels(set)", [&] { d.labels({"q"}); }); must_throw(p, "SetDimension::indexOf", [&] { d.indexOf(0.0, PositionMatch::Equal); }); }
    for (auto &d : h.dfdims) { must_throw(p, "DataFrameDimension::columnIndex", [&] { d.columnIndex(); }); must_throw(p, "DataFrameDimension::size", [&] { d.size(); }); must_throw(p, "DataFrameDimension::label", [&] { d.label(); }); }
    for (auto &x : h.frames) { must_throw(p, "DataFrame::rows", [&] { x.rows(); }); must_throw(p, "DataFrame::rows(set)", [&] { x.rows(5); }); must_throw(p, "DataFrame::readRow", [&] { x.readRow(0); }); must_throw(p, "DataFrame::columns", [&] { x.columns(); });
        must_throw(p, "DataFrame::writeCell", [&] { x.writeCell(0, 0, Variant(9.0)); }); }
    for (auto &t : h.tags) { must_throw(p, "Tag::position", [&] { t.position(); }); must_throw(p, "Tag::position(set)", [&] { t.position({7.0}); }); must_throw(p, "Tag::referenceCount", [&] { t.referenceCount(); }); must_throw(p, "Tag::taggedData", [&] { t.taggedData(0); });
        must_throw(p, "Tag::addReference", [&] { t.addReference("a2"); }); must_throw(p, "Tag::features", [&] { t.features(); }); must_throw(p, "Tag::name", [&] { t.name(); }); }
    for (auto &t : h.mtags) { must_throw(p, "MultiTag::positions", [&] { t.positions(); }); must_throw(p, "MultiTag::units", [&] { t.units(); }); must_throw(p, "MultiTag::taggedData", [&] { t.taggedData(0, 0); }); must_throw(p, "MultiTag::units(set)", [&] { t.units({"mV"}); }); }
    for (auto &x : h.features) { must_throw(p, "Feature::linkType", [&] { x.linkType(); }); must_throw(p, "Feature::data", [&] { x.data(); }); must_throw(p, "Feature::linkType(set)", [&] { x.linkType(LinkType::Tagged); }); }
    for (auto &g : h.groups) { must_throw(p, "Group::dataArrayCount", [&] { g.dataArrayCount(); }); must_throw(p, "Group::getDataArray", [&] { g.getDataArray(0); }); must_throw(p, "Group::addDataArray", [&] { g.addDataArray("a3"); }); must_throw(p, "Group::name", [&] { g.name(); }); }
    for (auto &s : h.sources) { must_throw(p, "Source::name", [&] { s.name(); }); must_throw(p, "Source::sourceCount", [&] { s.sourceCount(); }); must_throw(p, "Source::createSource", [&] { s.createSource("late", "t"); }); must_throw(p, "Source::definition(set)", [&] { s.definition("zz"); }); }
    for (auto &s : h.sections) { must_throw(p, "Section::name", [&] { s.name(); }); must_throw(p, "Section::propertyCount", [&] { s.propertyCount(); }); must_throw(p, "Section::createProperty", [&] { s.createProperty("late", Variant(1.0)); });
        must_throw(p, "Section::sections", [&] { s.sections(); }); must_throw(p, "Section::repository(set)", [&] { s.repository("zz"); }); }
    for (auto &x : h.props) { must_throw(p, "Property::values", [&] { x.values(); }); must_throw(p, "Property::values(set)", [&] { x.values({Variant(5.0)}); }); must_throw(p, "Property::name", [&] { x.name(); }); must_throw(p, "Property::unit(set)", [&] { x.unit("mV"); }); }
    // (DataView::dataExtent answers from memory and may return normally)
    for (auto &v : h.views) { must_throw(p, "DataView::getData", [&] { std::vector<double> d(1); v.getData(DataType::Double, d.data(), NDSize(v.dataExtent().size(), 1), NDSize(v.dataExtent().size(), 0)); });
        must_throw(p, "DataView::dataType", [&] { v.dataType(); }); }
    return p;
}

int main(int argc, char **argv) {
    vf::init(argc, argv, "C11");
    const bool thorough = vf::opt.tier == "thorough";
    std::string self = argv[0];
    obsdump_path = self.substr(0, self.rfind('/') + 1) + "obsdump";
    ex::Explorer E;
    E.add_seed("E", nullptr);
    E.add_seed("R1", ops::build_seed_r1);
    long caseno = 0;

    // ================= (a) crash points =================
    auto crash_case = [&](const ex::State &st, int op, int variant, const std::string &rargs) {
        // variant 0: one flush at the end, SIGKILL ; 1: flush after every step, SIGKILL ; 2: close(), SIGKILL ; 3: flush under a file-size limit
        std::string work = vf::scratch_file("crash.h5"), obsf = vf::scratch_file("crash.obs");
        ops::copy_file(E.seed(st.seed).path, work);
        unlink(obsf.c_str());
        std::string ctx = ex::hist_str(E.alpha, st, op) + (variant == 0 ? " ; flush ; SIGKILL" : variant == 1 ? " (flush after every step) ; SIGKILL" : variant == 3 ? " ; flush while the file may not grow ; SIGKILL" : " ; close ; SIGKILL");
        fflush(nullptr);
        pid_t pid = fork();
        if (pid == 0) {
            // ---- the writer process ----
            int code = 0;
            try {
                // the session object is leaked on purpose: nothing may close the file before the SIGKILL
                ops::Session &se = *new ops::Session(); se.path = work;
                vf::set_clock(E.clock0);
                se.open();
                std::vector<int> steps = st.hist; steps.push_back(op);
                for (size_t i = 0; i < steps.size(); i++) {
                    std::string r = E.step(se, steps[i], i);
                    if (r == "notenabled") { code = 10; break; }
                    if (!r.empty()) { code = 11; break; }
                    if (variant == 1 && !se.file.flush()) { code = 12; break; }
                }
                if (code == 0) {
                    std::string text = E.canon(se.file);
                    if (variant == 3) {
                        // environment fault at the flush: the file may not grow any more (RLIMIT_FSIZE = its present size, SIGXFSZ ignored,
                        // as on a full disk).  flush() may fail - then nothing is promised (exit 14); if it returns true the file is complete.
                        struct stat sb; if (stat(work.c_str(), &sb) != 0) _exit(15);
                        signal(SIGXFSZ, SIG_IGN);
                        struct rlimit rl; getrlimit(RLIMIT_FSIZE, &rl); rl.rlim_cur = (rlim_t)sb.st_size; setrlimit(RLIMIT_FSIZE, &rl);
                        bool ok = false;
                        try { ok = se.file.flush(); } catch (...) { ok = false; }
                        if (!ok) _exit(14);
                        rl.rlim_cur = rl.rlim_max; setrlimit(RLIMIT_FSIZE, &rl);
                    }
                    else if (variant == 2) se.file.close();
                    else if (!se.file.flush()) code = 12;
                    if (code == 0) { std::ofstream o(obsf, std::ios::binary); o << text; o.close(); kill(getpid(), SIGKILL); }
                }
            } catch (...) { code = 13; }
            _exit(code ? code : 99);
        }
        int stt = 0; waitpid(pid, &stt, 0);
        if (WIFEXITED(stt)) {
            int c = WEXITSTATUS(stt);
            if (c == 10 || c == 11) return false;          // op not enabled / rejected in this state: no crash point
            if (c == 14) { vf::count("flushes_refused_under_a_file_size_limit"); vf::distinct("outcomes", "flush under a file-size limit|refused"); return true; }   // nothing promised
            if (c == 12) { vf::violation("C11|File::flush|returned false or threw on a writable file", ctx, "REPLAY " + rargs); return true; }
            vf::violation("C11|writer process|unexpected exit", ctx + " exit " + std::to_string(c), "REPLAY " + rargs); return true;
        }
        if (!WIFSIGNALED(stt) || WTERMSIG(stt) != SIGKILL) { vf::violation("C11|writer process|died of signal " + std::to_string(WIFSIGNALED(stt) ? WTERMSIG(stt) : -1), ctx, "REPLAY " + rargs); return true; }
        vf::count("crash_points");
        std::string want = ops::slurp(obsf);
        const char *vname = variant == 2 ? "close" : variant == 3 ? "a flush that returned true although the file could not grow" : "flush";
        if (variant == 3) vf::count("flushes_acknowledged_under_a_file_size_limit");
        for (FileMode m : {FileMode::ReadOnly, FileMode::ReadWrite}) {
            const char *mn = m == FileMode::ReadOnly ? "ReadOnly" : "ReadWrite";
            std::string got, what;
            vf::set_clock(E.clock0 + 5000);
            std::string exc = vf::guarded([&] { File f = File::open(work, m); got = E.canon(f); f.close(); }, &what);
            vf::count("reopens_after_kill");
            vf::distinct("outcomes", std::string(vname) + "|" + mn + "|" + (exc.empty() ? (got == want ? "complete" : "differs") : exc));
            if (!exc.empty()) vf::violation(std::string("C11|SIGKILL after ") + vname + "|reopen " + mn + "|cannot be opened", ctx + ": " + exc + " " + what, "REPLAY " + rargs);
            else if (got != want) vf::violation(std::string("C11|SIGKILL after ") + vname + "|reopen " + mn + "|content differs from what was written", ctx, obs::diff(want, got) + "\nREPLAY " + rargs);
        }
        vf::distinct("histories", ctx);
        return true;
    };

    if (vf::opt.extra.count("history")) {
        E.alpha = ops::entity_alphabet(atoi(vf::opt.extra["level"].c_str()));
        ex::State st; st.seed = vf::opt.extra["seed"];
        std::vector<int> h = ex::Explorer::parse_hist(vf::opt.extra["history"]);
        st.hist.assign(h.begin(), h.end() - 1);
        vf::take_case(0);
        crash_case(st, h.back(), atoi(vf::opt.extra["variant"].c_str()), "");
        return vf::finish();
    }

    auto crash_corpus = [&](const std::string &seed, int level, int depth) {
        E.alpha = ops::entity_alphabet(level);
        std::vector<ex::State> states;
        int sv_shard = vf::opt.shard, sv_n = vf::opt.nshards;
        vf::opt.shard = 0; vf::opt.nshards = 1; E.quiet = true;
        auto visit = [&](const ex::State &p, int op, ops::Session &se, const std::string &pre, bool &clean) -> std::string {
            std::string r = E.step(se, op, p.hist.size());
            if (r == "notenabled") { clean = true; return ""; }
            if (!r.empty()) return "";
            return E.canon(se.file);
        };
        E.bfs({seed}, depth, false, visit, &states);
        vf::opt.shard = sv_shard; vf::opt.nshards = sv_n;
        for (auto &st : states) {
            long cid = caseno++;
            if (!vf::take_case(cid)) continue;
            vf::case_desc("crash points after " + ex::hist_str(E.alpha, st) + " ; <every operation>");
            for (int op = 0; op < (int)E.alpha.size(); op++) {
                std::vector<int> h = st.hist; h.push_back(op);
                for (int variant = 0; variant < 4; variant++) {
                    if (!thorough && variant != (int)((cid + op) % 4)) continue;      // quick: one variant per (state, op), rotating
                    std::string rargs = "--seed=" + st.seed + " --level=" + std::to_string(level) + " --history=" + ex::Explorer::hist_arg(h) + " --variant=" + std::to_string(variant);
                    if (!crash_case(st, op, variant, rargs)) break;
                }
                if (vf::deadline_hit()) break;
            }
            if (cid % 41 == 0) vf::sample("{\"history\":" + vf::jstr(ex::hist_str(E.alpha, st)) + ",\"then\":\"each enabled operation ; flush|close ; SIGKILL ; reopen RO+RW in the parent\"}", 3);
        }
    };
    crash_corpus("E", 1, thorough ? 4 : 3);
    crash_corpus("R1", 2, thorough ? 1 : 0);

    // ================= (b) handle populations at close =================
    std::vector<unsigned> pops;
    pops.push_back(0);
    for (int i = 0; i < NK; i++) pops.push_back(1u << i);
    for (int i = 0; i < NK; i++) for (int j = i + 1; j < NK; j++) pops.push_back((1u << i) | (1u << j));
    if (thorough) for (unsigned m = 0; m < (1u << NK); m++) { int bits = __builtin_popcount(m); if (bits >= 3 && (bits <= 3 || m % 7 == 0 || bits >= NK - 1)) pops.push_back(m); }
    pops.push_back((1u << NK) - 1);
    const std::string r1 = E.seed("R1").path;
    for (size_t pi = 0; pi <= pops.size(); pi++) {
        long cid = caseno++;
        if (!vf::take_case(cid)) continue;
        bool many = pi == pops.size();                 // the 40-fold population of every kind
        unsigned mask = many ? (1u << NK) - 1 : pops[pi];
        std::string pdesc = many ? "40 handles of every kind" : "{";
        if (!many) { for (int k = 0; k < NK; k++) if (mask & (1u << k)) pdesc += std::string(KINDS[k]) + " "; pdesc += "}"; }
        vf::case_desc("handles alive across close(): " + pdesc);
        std::string sig_pop = many ? "40-fold population" : __builtin_popcount(mask) <= 2 ? "population of <= 2 kinds" : "population of >= 3 kinds";
        std::string work = vf::scratch_file("held.h5");
        ops::copy_file(r1, work);
        vf::set_clock(E.clock0 + 100);
        {
            File f = File::open(work, FileMode::ReadWrite);
            Held h;
            std::string ge = vf::guarded([&] { for (int rep = 0; rep < (many ? 40 : 1); rep++) for (int k = 0; k < NK; k++) if (mask & (1u << k)) grab(f, k, h); });
            if (!ge.empty()) { vf::violation("C11|harness|cannot obtain handles", pdesc + " " + ge); continue; }
            f.getBlock("b1").definition("written before close");
            std::string want = obs::render(obs::observe(f));
            f.close();
            vf::count("closes_with_live_handles");
            std::string bytes = ops::slurp(work);
            // another process can open it read-write (HDF5 takes an exclusive lock on files opened for writing)
            std::string got;
            int rc = run_other(work, "RW", &got);
            vf::count("release_checks");
            if (rc != 0) vf::violation("C11|close with live handles|" + sig_pop + "|another process cannot open the file ReadWrite", pdesc + ": " + got.substr(0, 200));
            else if (got != want) vf::violation("C11|close with live handles|" + sig_pop + "|content seen by another process differs", pdesc, obs::diff(want, got));
            bytes = ops::slurp(work);   // (opening ReadWrite may touch updated_at)
            // the same process can reopen
            std::string exc = vf::guarded([&] { File g = File::open(work, FileMode::ReadOnly); std::string t = obs::render(obs::observe(g)); g.close(); if (t != want) throw std::runtime_error("content differs"); });
            if (!exc.empty()) vf::violation("C11|close with live handles|" + sig_pop + "|same process cannot reopen ReadOnly", pdesc + ": " + exc);
            // stale handles must throw, not return data, and must not touch the file
            Probe p = probe_stale(h);
            vf::count("stale_calls", p.calls);
            vf::distinct("outcomes", "stale|" + sig_pop + "|" + (p.returned.empty() ? "all throw" : "some return"));
            if (!p.returned.empty()) vf::violation("C11|stale handle after close|" + sig_pop + "|call returned normally|" + p.returned.substr(0, p.returned.find(' ')), pdesc + ": " + p.returned);
            if (ops::slurp(work) != bytes) vf::violation("C11|stale handle after close|" + sig_pop + "|file bytes changed", pdesc);
            // Overwrite on a copy of the path while the stale handles still exist (HDF5 refuses to truncate a file it has open)
            exc = vf::guarded([&] { File g = File::open(work, FileMode::Overwrite); size_t n = g.blockCount(); g.close(); if (n != 0) throw std::runtime_error("not empty"); });
            if (!exc.empty()) vf::violation("C11|close with live handles|" + sig_pop + "|same process cannot reopen with Overwrite", pdesc + ": " + exc);
            vf::distinct("populations", pdesc);
        }
        if (pi == 20) vf::sample("{\"population\":" + vf::jstr(pdesc) + ",\"checks\":\"other process RW, same process RO/Overwrite, every stale call throws, bytes unchanged\"}");
    }
    // ================= (c) release after a ReadOnly session =================
    // a ReadOnly session in which writes were (correctly) refused and whose handles outlive close() must release the file too
    for (int variant = 0; variant < 4; variant++) {
        long cid = caseno++;
        if (!vf::take_case(cid)) continue;
        bool refused_write = variant & 1, keep_handles = variant & 2;
        std::string vdesc = std::string("ReadOnly session") + (refused_write ? " with refused setters" : "") + (keep_handles ? ", handles kept past close()" : "");
        vf::case_desc(vdesc + ": file must be released");
        std::string work = vf::scratch_file("ro_rel.h5");
        ops::copy_file(r1, work);
        Held h;
        {
            File f = File::open(work, FileMode::ReadOnly);
            std::string want = obs::render(obs::observe(f));
            if (keep_handles) vf::guarded([&] { for (int k = 0; k < NK; k++) grab(f, k, h); });
            if (refused_write) {
                Block b = f.getBlock("b1");
                vf::guarded([&] { b.type("zz"); }); vf::guarded([&] { b.definition("zz"); }); vf::guarded([&] { b.getDataArray("a1").label("zz"); });
                vf::guarded([&] { b.getDataArray("a1").getDimension(1).asSampledDimension().samplingInterval(3.0); }); vf::guarded([&] { f.getSection("x1").getProperty("p1").unit("s"); });
                vf::guarded([&] { b.getTag("t1").position({9.0}); }); vf::guarded([&] { b.createDataArray("late", "t", DataType::Double, NDSize({1})); });
            }
            f.close();
            std::string got;
            int rc = run_other(work, "RW", &got);
            vf::count("release_checks");
            if (rc != 0) vf::violation("C11|close after a " + vdesc + "|another process cannot open the file ReadWrite", got.substr(0, 200));
            else if (got != want) vf::violation("C11|close after a " + vdesc + "|content seen by another process differs", "", obs::diff(want, got));
            std::string exc = vf::guarded([&] { File g = File::open(work, FileMode::ReadWrite); g.getBlock("b1").definition("after"); g.close(); });
            if (!exc.empty()) vf::violation("C11|close after a " + vdesc + "|same process cannot reopen ReadWrite", exc);
            ops::copy_file(r1, vf::scratch_file("ro_rel2.h5"));
            vf::distinct("outcomes", "ro-release|" + std::to_string(variant) + "|" + (rc == 0 && exc.empty() ? "released" : "held"));
        }
    }
    // ================= (d) the same path open through TWO File objects of the process =================
    // Both are closed (in either order); entity handles obtained through either of them may outlive the closes.  Afterwards the
    // file must be released (another process opens it ReadWrite, the same process reopens it with Overwrite), it must hold what was
    // written, and handles obtained through a closed File must throw.
    for (int variant = 0; variant < 8; variant++) {
        long cid = caseno++;
        if (!vf::take_case(cid)) continue;
        const bool second_first = variant & 1, keep1 = variant & 2, keep2 = variant & 4;
        std::string vdesc = std::string("two File objects on one path, closed ") + (second_first ? "second first" : "first first") + ", handles kept past close(): " + (keep1 ? "of the first " : "") + (keep2 ? "of the second" : "") + (!keep1 && !keep2 ? "none" : "");
        vf::case_desc(vdesc);
        std::string work = vf::scratch_file("twin.h5");
        ops::copy_file(r1, work);
        vf::set_clock(E.clock0 + 300);
        Held h1, h2;
        std::string want, what;
        std::string exc = vf::guarded([&] {
            File f1 = File::open(work, FileMode::ReadWrite);
            File f2 = File::open(work, FileMode::ReadWrite);
            if (keep1) for (int k = 0; k < NK; k++) grab(f1, k, h1);
            if (keep2) for (int k = 0; k < NK; k++) grab(f2, k, h2);
            f1.getBlock("b1").definition("written through the first");
            f2.getBlock("b1").getDataArray("a1").label("written through the second");
            want = obs::render(obs::observe(f2));
            if (second_first) { f2.close(); f1.close(); } else { f1.close(); f2.close(); }
        }, &what);
        vf::count("twin_sessions");
        if (!exc.empty()) { vf::distinct("outcomes", "twin|" + exc); vf::count("twin_sessions_refused"); continue; }   // whether a second open is possible is not C11's matter
        std::string got;
        int rc = run_other(work, "RW", &got);
        vf::count("release_checks");
        if (rc != 0) vf::violation("C11|close of two File objects on one path|another process cannot open the file ReadWrite", vdesc + ": " + got.substr(0, 200));
        else if (got != want) vf::violation("C11|close of two File objects on one path|content seen by another process differs", vdesc, obs::diff(want, got));
        Probe p1 = probe_stale(h1), p2 = probe_stale(h2);
        vf::count("stale_calls", p1.calls + p2.calls);
        if (!p1.returned.empty() || !p2.returned.empty())
            vf::violation("C11|stale handle after close|two File objects on one path|call returned normally|" + (p1.returned + p2.returned).substr(0, (p1.returned + p2.returned).find(' ')), vdesc + ": " + p1.returned + p2.returned);
        exc = vf::guarded([&] { File g = File::open(work, FileMode::Overwrite); size_t n = g.blockCount(); g.close(); if (n != 0) throw std::runtime_error("not empty"); });
        if (!exc.empty()) vf::violation("C11|close of two File objects on one path|same process cannot reopen with Overwrite", vdesc + ": " + exc);
        vf::distinct("outcomes", "twin|" + std::to_string(variant) + "|" + (rc == 0 && exc.empty() ? "released" : "held"));
    }
    return vf::finish();
}
