// C07 — position-to-index conversion obeys the documented matching rules.
//
// Exhaustive grid (E2): for every axis of a fixed family (sampled axes with decimal and
// binary intervals/offsets, range axes, set and data-frame axes) and every sample index up
// to N, the positions {x_i, x_i -/+ 1 ulp, midpoint to x_{i+1}} plus positions below the
// axis are converted with all five PositionMatch rules and, as start/end pairs, with both
// RangeMatch modes, through the scalar, pair and vector overloads of the dimension classes
// and through util::positionToIndex.  Reference: a search over the axis coordinates the
// library itself reports (positionAt / axis / ticks), transcribed from the statement.
#include <nix.hpp>
#include <nix/util/dataAccess.hpp>
#include <cmath>
#include <cfloat>
#include <functional>
#include "vf.hpp"

using namespace nix;
typedef boost::optional<ndsize_t> OptIdx;
typedef boost::optional<std::pair<ndsize_t, ndsize_t>> OptRange;

static const PositionMatch MATCHES[] = {PositionMatch::Less, PositionMatch::LessOrEqual, PositionMatch::Equal,
                                        PositionMatch::GreaterOrEqual, PositionMatch::Greater};
static const char *mname(PositionMatch m) {
    switch (m) {
    case PositionMatch::Less: return "Less";
    case PositionMatch::LessOrEqual: return "LessOrEqual";
    case PositionMatch::Equal: return "Equal";
    case PositionMatch::GreaterOrEqual: return "GreaterOrEqual";
    default: return "Greater";
    }
}

// ---- reference: axis = ascending coordinates x[0..n) ; unbounded==true means the axis continues
// beyond x[n-1] (sampled axis, set without labels): the caller guarantees p <= x[n-2] then.
static OptIdx ref_index(const std::vector<double> &x, double p, PositionMatch m) {
    // linear-scan semantics implemented with binary search on the (verified strictly ascending) axis
    size_t lo = std::lower_bound(x.begin(), x.end(), p) - x.begin(); // first i with x_i >= p
    size_t up = std::upper_bound(x.begin(), x.end(), p) - x.begin(); // first i with x_i > p
    switch (m) {
    case PositionMatch::Less: if (lo == 0) return boost::none; return ndsize_t(lo - 1);            // largest i with x_i < p
    case PositionMatch::LessOrEqual: if (up == 0) return boost::none; return ndsize_t(up - 1);     // largest i with x_i <= p
    case PositionMatch::GreaterOrEqual: if (lo == x.size()) return boost::none; return ndsize_t(lo);
    case PositionMatch::Greater: if (up == x.size()) return boost::none; return ndsize_t(up);
    default: if (lo < x.size() && x[lo] == p) return ndsize_t(lo); return boost::none;
    }
}

static OptRange ref_range(const std::vector<double> &x, double s, double e, RangeMatch rm) {
    if (!(s <= e)) return boost::none;
    OptIdx a = ref_index(x, s, PositionMatch::GreaterOrEqual);
    OptIdx b = ref_index(x, e, rm == RangeMatch::Inclusive ? PositionMatch::LessOrEqual : PositionMatch::Less);
    if (a && b && *a <= *b) return std::make_pair(*a, *b);
    return boost::none;
}

static std::string os(const OptIdx &o) { return o ? std::to_string(*o) : "none"; }
static std::string ors(const OptRange &o) { return o ? "(" + std::to_string(o->first) + "," + std::to_string(o->second) + ")" : "none"; }

// classify the position relative to the axis (for signatures / distinct counting)
static std::string pclass(const std::vector<double> &x, double p) {
    if (p < x.front()) return "below-axis";
    if (p > x.back()) return "beyond-axis";
    size_t lo = std::lower_bound(x.begin(), x.end(), p) - x.begin();
    if (lo < x.size() && x[lo] == p) return "on-sample";
    if (lo < x.size() && std::nextafter(p, INFINITY) == x[lo]) return "1ulp-below-sample";
    if (lo > 0 && std::nextafter(p, -INFINITY) == x[lo - 1]) return "1ulp-above-sample";
    return "between-samples";
}

static std::string devclass(const OptIdx &got, const OptIdx &want) {
    if (got && !want) return "index instead of none";
    if (!got && want) return "none instead of index";
    long d = (long)*got - (long)*want;
    return d == 1 ? "off by +1" : d == -1 ? "off by -1" : d > 0 ? "too large" : "too small";
}

// util:: entry points per dimension class
static OptIdx util_scalar(const SampledDimension &d, double p, PositionMatch m) { return util::positionToIndex(p, "none", m, d); }
static OptIdx util_scalar(const RangeDimension &d, double p, PositionMatch m) { return util::positionToIndex(p, "none", m, d); }
static OptIdx util_scalar(const SetDimension &d, double p, PositionMatch m) { return util::positionToIndex(p, m, d); }
static OptIdx util_scalar(const DataFrameDimension &d, double p, PositionMatch m) { return util::positionToIndex(p, m, d); }
static std::vector<OptRange> util_vec(const SampledDimension &d, const std::vector<double> &s, const std::vector<double> &e, RangeMatch rm) {
    return util::positionToIndex(s, e, std::vector<std::string>(s.size(), "none"), rm, d); }
static std::vector<OptRange> util_vec(const RangeDimension &d, const std::vector<double> &s, const std::vector<double> &e, RangeMatch rm) {
    return util::positionToIndex(s, e, std::vector<std::string>(s.size(), "none"), rm, d); }
static std::vector<OptRange> util_vec(const SetDimension &d, const std::vector<double> &s, const std::vector<double> &e, RangeMatch rm) {
    return util::positionToIndex(s, e, rm, d); }
static std::vector<OptRange> util_vec(const DataFrameDimension &d, const std::vector<double> &s, const std::vector<double> &e, RangeMatch rm) {
    return util::positionToIndex(s, e, rm, d); }

// vector overload with ONE UNIT PER PAIR (the axes of this harness are in ms)
static std::vector<OptRange> util_vec_units(const SampledDimension &d, const std::vector<double> &s, const std::vector<double> &e, const std::vector<std::string> &u, RangeMatch rm) { return util::positionToIndex(s, e, u, rm, d); }
static std::vector<OptRange> util_vec_units(const RangeDimension &d, const std::vector<double> &s, const std::vector<double> &e, const std::vector<std::string> &u, RangeMatch rm) { return util::positionToIndex(s, e, u, rm, d); }
static std::vector<OptRange> util_vec_units(const SetDimension &, const std::vector<double> &, const std::vector<double> &, const std::vector<std::string> &, RangeMatch) { return {}; }
static std::vector<OptRange> util_vec_units(const DataFrameDimension &, const std::vector<double> &, const std::vector<double> &, const std::vector<std::string> &, RangeMatch) { return {}; }

struct Axis {
    std::string kind, name;   // kind: sampled / range / set / dataframe
    std::vector<double> x;    // reference coordinates
    bool bounded;             // false: the axis continues beyond x.back()
};

static std::string rdev(const OptRange &got, const OptRange &want);
// ---- deprecated entry points ---------------------------------------------------------------
// They are forwarding wrappers with one fixed rule each: the deprecated scalar forms answer GreaterOrEqual (RangeDimension's
// flag form LessOrEqual / GreaterOrEqual), the deprecated pair and list forms answer in inclusive mode; where the statement
// says "no index" / "not valid" they have no empty value to return and raise an error instead.
#pragma GCC diagnostic push
#pragma GCC diagnostic ignored "-Wdeprecated-declarations"
struct LegacyScalar { std::string name; PositionMatch rule; std::function<ndsize_t()> call; };
static std::vector<LegacyScalar> legacy_scalars(const SampledDimension &d, double p) {
    return {{"SampledDimension::indexOf(position) [deprecated]", PositionMatch::GreaterOrEqual, [&d, p] { return d.indexOf(p); }},
            {"util::positionToIndex(position,unit,SampledDimension) [deprecated]", PositionMatch::GreaterOrEqual, [&d, p] { return util::positionToIndex(p, "none", d); }},
            {"util::positionToIndex(position,unit,SampledDimension) [deprecated]", PositionMatch::GreaterOrEqual, [&d, p] { return util::positionToIndex(p, "ms", d); }}};
}
static std::vector<LegacyScalar> legacy_scalars(const RangeDimension &d, double p) {
    return {{"RangeDimension::indexOf(position,less_or_equal=true) [deprecated]", PositionMatch::LessOrEqual, [&d, p] { return d.indexOf(p, true); }},
            {"RangeDimension::indexOf(position,less_or_equal=false) [deprecated]", PositionMatch::GreaterOrEqual, [&d, p] { return d.indexOf(p, false); }},
            {"util::positionToIndex(position,unit,RangeDimension) [deprecated]", PositionMatch::GreaterOrEqual, [&d, p] { return util::positionToIndex(p, "none", d); }},
            {"util::positionToIndex(position,unit,RangeDimension) [deprecated]", PositionMatch::GreaterOrEqual, [&d, p] { return util::positionToIndex(p, "ms", d); }}};
}
static std::vector<LegacyScalar> legacy_scalars(const SetDimension &d, double p) {
    return {{"util::positionToIndex(position,unit,SetDimension) [deprecated]", PositionMatch::GreaterOrEqual, [&d, p] { return util::positionToIndex(p, "none", d); }}};
}
static std::vector<LegacyScalar> legacy_scalars(const DataFrameDimension &, double) { return {}; }

template <typename Dim>
static void check_legacy_scalar(const Axis &ax, const Dim &dim, const Dimension &gdim, double p, const std::string &pc) {
    for (const LegacyScalar &l : legacy_scalars(dim, p)) {
        OptIdx want = ref_index(ax.x, p, l.rule), got; std::string what;
        std::string exc = vf::guarded([&] { got = l.call(); }, &what);
        vf::count("legacy_calls");
        vf::distinct("outcomes", ax.kind + "|legacy|" + pc + "|" + (exc.empty() ? "idx" : exc));
        if (!exc.empty() && !want) continue;                       // no such index: an error is the only way to say so
        if (!exc.empty() || got != want)
            vf::violation("C07|" + l.name + "|" + pc + "|answers like " + mname(l.rule) + ", error when there is no such index|" + (exc.empty() ? devclass(got, want) : "raised although an index exists"),
                          ax.name + " p=" + vf::hexd(p) + ": got " + (exc.empty() ? os(got) : exc + " " + what) + " expected " + os(want));
    }
    (void)gdim;   // the dispatchers on a generic Dimension are not declared in the public headers; Tag retrieval drives them (C05)
}

typedef std::vector<std::pair<ndsize_t, ndsize_t>> Ranges;
struct LegacyList { std::string name; bool filter; std::function<Ranges(const std::vector<double> &, const std::vector<double> &)> call; };
static std::vector<LegacyList> legacy_lists(const SampledDimension &d) {
    return {{"SampledDimension::indexOf(starts,ends) [deprecated]", false, [&d](const std::vector<double> &s, const std::vector<double> &e) { return d.indexOf(s, e); }},
            {"util::positionToIndex(starts,ends,units,SampledDimension) [deprecated]", false, [&d](const std::vector<double> &s, const std::vector<double> &e) { return util::positionToIndex(s, e, std::vector<std::string>(s.size(), "none"), d); }}};
}
static std::vector<LegacyList> legacy_lists(const RangeDimension &d) {
    return {{"RangeDimension::indexOf(starts,ends,strict=true,Inclusive) [deprecated]", false, [&d](const std::vector<double> &s, const std::vector<double> &e) { return d.indexOf(s, e, true, RangeMatch::Inclusive); }},
            {"RangeDimension::indexOf(starts,ends,strict=false,Inclusive) [deprecated]", true, [&d](const std::vector<double> &s, const std::vector<double> &e) { return d.indexOf(s, e, false, RangeMatch::Inclusive); }},
            {"util::positionToIndex(starts,ends,units,RangeDimension) [deprecated]", false, [&d](const std::vector<double> &s, const std::vector<double> &e) { return util::positionToIndex(s, e, std::vector<std::string>(s.size(), "ms"), d); }}};
}
static std::vector<LegacyList> legacy_lists(const SetDimension &d) {
    return {{"util::positionToIndex(starts,ends,units,SetDimension) [deprecated]", false, [&d](const std::vector<double> &s, const std::vector<double> &e) { return util::positionToIndex(s, e, std::vector<std::string>(s.size(), "none"), d); }}};
}
static std::vector<LegacyList> legacy_lists(const DataFrameDimension &) { return {}; }
static bool legacy_pair(const SampledDimension &d, double s, double e, std::pair<ndsize_t, ndsize_t> &out) { out = d.indexOf(s, e); return true; }
static bool legacy_pair(const RangeDimension &d, double s, double e, std::pair<ndsize_t, ndsize_t> &out) { out = d.indexOf(s, e); return true; }
static bool legacy_pair(const SetDimension &, double, double, std::pair<ndsize_t, ndsize_t> &) { return false; }
static bool legacy_pair(const DataFrameDimension &, double, double, std::pair<ndsize_t, ndsize_t> &) { return false; }

static std::string lclass(const Ranges &got, const Ranges &want) {
    if (got.size() != want.size()) return got.size() < want.size() ? "fewer ranges" : "more ranges";
    return "other ranges";
}

// ss/ee: the request list of check_pairs.  The list forms are called with the whole list, with the valid pairs only, and
// with the list cut after the first invalid pair; the deprecated pair form with every pair.
template <typename Dim>
static void check_legacy_pairs(const Axis &ax, const Dim &dim, const Dimension &gdim, const std::vector<double> &ss, const std::vector<double> &ee) {
    std::vector<OptRange> want;
    for (size_t k = 0; k < ss.size(); k++) want.push_back(ref_range(ax.x, ss[k], ee[k], RangeMatch::Inclusive));
    // request lists: all / valid only / up to and including the first invalid pair
    std::vector<std::vector<size_t>> lists(3);
    bool cut = false;
    for (size_t k = 0; k < ss.size(); k++) {
        lists[0].push_back(k);
        if (want[k]) lists[1].push_back(k);
        if (!cut) { lists[2].push_back(k); if (!want[k]) cut = true; }
    }
    const char *lname[] = {"all pairs", "valid pairs only", "up to the first invalid pair"};
    for (const LegacyList &l : legacy_lists(dim)) for (int li = 0; li < 3; li++) {
        std::vector<double> s, e; Ranges exp; bool any_invalid = false;
        for (size_t k : lists[li]) { s.push_back(ss[k]); e.push_back(ee[k]); if (want[k]) exp.push_back(*want[k]); else any_invalid = true; }
        Ranges got; std::string what;
        std::string exc = vf::guarded([&] { got = l.call(s, e); }, &what);
        vf::count("legacy_calls");
        vf::distinct("outcomes", ax.kind + "|legacy list|" + lname[li] + "|" + (exc.empty() ? "ranges" : exc));
        bool must_throw = any_invalid && !l.filter;
        if (must_throw && !exc.empty()) continue;
        if (must_throw || !exc.empty() || got != exp)
            vf::violation("C07|" + l.name + "|" + lname[li] + "|inclusive ranges of the " + (l.filter ? "valid pairs in request order" : "pairs, error if a pair is invalid") + "|" +
                          (must_throw ? "returned although a pair is invalid" : !exc.empty() ? "raised" : lclass(got, exp)),
                          ax.name + " " + std::to_string(s.size()) + " pairs: got " + (exc.empty() ? std::to_string(got.size()) + " ranges" : exc + " " + what) + " expected " + (must_throw ? "an error" : std::to_string(exp.size()) + " ranges"));
    }
    for (size_t k = 0; k < ss.size(); k++) {
        std::pair<ndsize_t, ndsize_t> got; bool have = false; std::string what;
        std::string exc = vf::guarded([&] { have = legacy_pair(dim, ss[k], ee[k], got); }, &what);
        if (exc.empty() && !have) break;
        vf::count("legacy_calls");
        if (!exc.empty() && !want[k]) continue;
        if (!exc.empty() || OptRange(got) != want[k]) {
            std::string pc = pclass(ax.x, ss[k]) + "/" + pclass(ax.x, ee[k]) + (ss[k] > ee[k] ? "/reversed" : "");
            vf::violation("C07|" + ax.kind + "::indexOf(start,end) [deprecated]|" + pc + "|inclusive range, error when the pair is not valid|" + (exc.empty() ? rdev(OptRange(got), want[k]) : "raised although the pair is valid"),
                          ax.name + " start=" + vf::hexd(ss[k]) + " end=" + vf::hexd(ee[k]) + ": got " + (exc.empty() ? ors(OptRange(got)) : exc + " " + what) + " expected " + ors(want[k]));
        }
    }
    (void)gdim;
}
#pragma GCC diagnostic pop

template <typename Dim>
static void check_scalar(const Axis &ax, const Dim &dim, const Dimension &gdim, double p, bool with_unit_api) {
    if (!ax.bounded && !(p <= ax.x[ax.x.size() - 2])) return; // keep the answer inside the computed prefix
    std::string pc = pclass(ax.x, p);
    check_legacy_scalar(ax, dim, gdim, p, pc);
    for (PositionMatch m : MATCHES) {
        OptIdx want = ref_index(ax.x, p, m);
        OptIdx got = dim.indexOf(p, m);
        vf::count("scalar_calls");
        vf::distinct("outcomes", ax.kind + "|" + pc + "|" + mname(m) + "|" + (got ? "idx" : "none"));
        if (got != want) {
            vf::violation("C07|" + ax.kind + "::indexOf(position,match)|" + pc + "|" + mname(m) + "|" + devclass(got, want),
                          ax.name + " p=" + vf::hexd(p) + " " + mname(m) + ": got " + os(got) + " expected " + os(want));
        }
        // the util:: entry point must agree with the member function
        OptIdx got2 = util_scalar(dim, p, m);
        (void)with_unit_api; (void)gdim;
        vf::count("scalar_calls");
        if (got2 != want) {
            vf::violation("C07|util::positionToIndex(" + ax.kind + ")|" + pc + "|" + mname(m) + "|" + devclass(got2, want),
                          ax.name + " p=" + vf::hexd(p) + " " + mname(m) + ": got " + os(got2) + " expected " + os(want));
        }
    }
}

static std::string rdev(const OptRange &got, const OptRange &want) {
    if (got && !want) return "range instead of none";
    if (!got && want) return "none instead of range";
    std::string d;
    if (got->first != want->first) d += got->first > want->first ? "start too large" : "start too small";
    if (got->second != want->second) d += std::string(d.empty() ? "" : ",") + (got->second > want->second ? "end too large" : "end too small");
    return d;
}

template <typename Dim>
static void check_pairs(const Axis &ax, const Dim &dim, const Dimension &gdim, const std::vector<double> &cands, bool unit_overload) {
    // all ordered pairs of candidates, both modes, through pair and vector overloads
    std::vector<double> ss, ee;
    for (double s : cands) for (double e : cands) {
        if (!ax.bounded && (!(s <= ax.x[ax.x.size() - 2]) || !(e <= ax.x[ax.x.size() - 2]))) continue;
        ss.push_back(s); ee.push_back(e);
    }
    check_legacy_pairs(ax, dim, gdim, ss, ee);
    const RangeMatch rms[] = {RangeMatch::Inclusive, RangeMatch::Exclusive};
    for (RangeMatch rm : rms) {
        const char *rn = rm == RangeMatch::Inclusive ? "Inclusive" : "Exclusive";
        std::vector<OptRange> viav = dim.indexOf(ss, ee, rm);
        std::vector<OptRange> viau = util_vec(dim, ss, ee, rm);
        (void)gdim;
        vf::count("pair_calls", 2 * (long)ss.size());
        if (unit_overload) {
            // the same pairs, each with its own unit: "none", the axis unit "ms", or "s" with the position divided by 1000 where
            // that division is exact (1000.0 is the exact factor s -> ms); every pair must convert exactly as before
            std::vector<double> s2 = ss, e2 = ee; std::vector<std::string> uu(ss.size(), "none");
            for (size_t k = 0; k < ss.size(); k++) {
                if (k % 3 == 1) uu[k] = "ms";
                else if (k % 3 == 2) { double qs = ss[k] / 1000.0, qe = ee[k] / 1000.0; if (qs * 1000.0 == ss[k] && qe * 1000.0 == ee[k]) { uu[k] = "s"; s2[k] = qs; e2[k] = qe; } }
            }
            std::vector<OptRange> viam = util_vec_units(dim, s2, e2, uu, rm);
            vf::count("pair_calls", (long)ss.size());
            if (viam.size() != ss.size()) vf::violation("C07|util::positionToIndex(starts,ends,units," + std::string(rn) + "," + ax.kind + ")|one unit per pair|result size", ax.name);
            else for (size_t k = 0; k < ss.size(); k++) {
                OptRange want = ref_range(ax.x, ss[k], ee[k], rm);
                if (viam[k] != want)
                    vf::violation("C07|util::positionToIndex(starts,ends,units," + std::string(rn) + "," + ax.kind + ")|one unit per pair, pair in " + uu[k] + "|" + rdev(viam[k], want),
                                  ax.name + " pair " + std::to_string(k) + " start=" + vf::hexd(s2[k]) + " end=" + vf::hexd(e2[k]) + " unit " + uu[k] + ": got " + ors(viam[k]) + " expected " + ors(want));
            }
        }
        if (viav.size() != ss.size() || viau.size() != ss.size()) {
            vf::violation("C07|" + ax.kind + "::indexOf(vector,vector)|result size", ax.name);
            continue;
        }
        for (size_t k = 0; k < ss.size(); k++) {
            OptRange want = ref_range(ax.x, ss[k], ee[k], rm);
            std::string pc = pclass(ax.x, ss[k]) + "/" + pclass(ax.x, ee[k]) + (ss[k] > ee[k] ? "/reversed" : "");
            vf::distinct("outcomes", ax.kind + "|pair|" + pc + "|" + rn + "|" + (viav[k] ? "range" : "none"));
            if (viav[k] != want)
                vf::violation("C07|" + ax.kind + "::indexOf(starts,ends," + rn + ")|" + pc + "|" + rdev(viav[k], want),
                              ax.name + " start=" + vf::hexd(ss[k]) + " end=" + vf::hexd(ee[k]) + ": got " + ors(viav[k]) + " expected " + ors(want));
            if (viau[k] != want)
                vf::violation("C07|util::positionToIndex(starts,ends," + std::string(rn) + "," + ax.kind + ")|" + pc + "|" + rdev(viau[k], want),
                              ax.name + " start=" + vf::hexd(ss[k]) + " end=" + vf::hexd(ee[k]) + ": got " + ors(viau[k]) + " expected " + ors(want));
        }
    }
}

// pair overload (start,end,RangeMatch) exists on Sampled/Set/DataFrame; Range has (start,end,ticks,match)
static OptRange pair_call(const SampledDimension &d, double s, double e, RangeMatch rm) { return d.indexOf(s, e, rm); }
static OptRange pair_call(const SetDimension &d, double s, double e, RangeMatch rm) { return d.indexOf(s, e, rm); }
static OptRange pair_call(const DataFrameDimension &d, double s, double e, RangeMatch rm) { return d.indexOf(s, e, rm); }
static OptRange pair_call(const RangeDimension &d, double s, double e, RangeMatch rm) { return d.indexOf(s, e, std::vector<double>(), rm); }

template <typename Dim>
static void check_pair_scalar(const Axis &ax, const Dim &dim, const std::vector<double> &cands) {
    const RangeMatch rms[] = {RangeMatch::Inclusive, RangeMatch::Exclusive};
    for (double s : cands) for (double e : cands) {
        if (!ax.bounded && (!(s <= ax.x[ax.x.size() - 2]) || !(e <= ax.x[ax.x.size() - 2]))) continue;
        for (RangeMatch rm : rms) {
            OptRange want = ref_range(ax.x, s, e, rm);
            OptRange got = pair_call(dim, s, e, rm);
            vf::count("pair_calls");
            if (got != want) {
                std::string pc = pclass(ax.x, s) + "/" + pclass(ax.x, e) + (s > e ? "/reversed" : "");
                vf::violation("C07|" + ax.kind + "::indexOf(start,end," + (rm == RangeMatch::Inclusive ? "Inclusive" : "Exclusive") + ")|" + pc + "|" + rdev(got, want),
                              ax.name + " start=" + vf::hexd(s) + " end=" + vf::hexd(e) + ": got " + ors(got) + " expected " + ors(want));
            }
        }
    }
}

static std::vector<double> around(const std::vector<double> &x, size_t i) {
    std::vector<double> c;
    c.push_back(x[i]);
    c.push_back(std::nextafter(x[i], -INFINITY));
    c.push_back(std::nextafter(x[i], INFINITY));
    if (i + 1 < x.size()) c.push_back(x[i] + (x[i + 1] - x[i]) / 2);
    return c;
}

int main(int argc, char **argv) {
    vf::init(argc, argv, "C07");
    vf::set_clock(1500000000);
    const bool thorough = vf::opt.tier == "thorough";
    const size_t N = thorough ? 10000 : 300;       // sample indices per sampled axis
    const size_t PAIR_SPAN = thorough ? 12 : 6;    // indices around which all start/end pairs are formed

    File f = File::open(vf::scratch_file("c07.h5"), FileMode::Overwrite);
    Block b = f.createBlock("b", "t");
    long idx = 0;
    int an = 0;

    // ---------------- sampled axes ----------------
    const double intervals[] = {1.0, 2.0, 0.5, 0.25, 0.1, 0.2, 0.3, 0.001, 1.0 / 3.0, 2.5, 1e-6, 1e3, 0.7, 1e-3 / 3.0};
    const double offsets[] = {0.0, 0.1, 0.25, 1.5, -0.75, 1e6, -1e-3, 100.3};
    for (double si : intervals) for (double off : offsets) {
        long ci = idx++;
        if (!vf::take_case(ci)) continue;
        std::string name = "sampled(interval=" + vf::hexd(si) + ",offset=" + vf::hexd(off) + ")";
        vf::case_desc(name);
        DataArray da = b.createDataArray("s" + std::to_string(an++) + "_" + std::to_string(ci), "t", DataType::Double, NDSize({4}));
        SampledDimension sd = da.appendSampledDimension(si, "", "ms", off);
        Dimension gd = da.getDimension(1);
        // the coordinates the library reports, and their agreement with offset + i*interval
        Axis ax; ax.kind = "SampledDimension"; ax.name = name; ax.bounded = false;
        std::vector<double> viaaxis = sd.axis(N + 3);
        bool ok = true;
        for (size_t i = 0; i < N + 3; i++) {
            double want = static_cast<double>(i) * si + off;
            double pa = sd.positionAt(i);
            if (pa != want || viaaxis[i] != want || sd[i] != want) {
                vf::violation("C07|SampledDimension::positionAt/axis|coordinate differs from offset + i*interval",
                              name + " i=" + std::to_string(i) + " positionAt=" + vf::hexd(pa) + " axis=" + vf::hexd(viaaxis[i]) + " expected " + vf::hexd(want));
                ok = false; break;
            }
            ax.x.push_back(want);
        }
        if (!ok) continue;
        if ((sd.offset() ? *sd.offset() : 0.0) != off || sd.samplingInterval() != si) {
            vf::violation("C07|appendSampledDimension|interval/offset not stored as given", name);
            continue;
        }
        bool asc = true;
        for (size_t i = 0; i + 1 < ax.x.size(); i++) if (!(ax.x[i] < ax.x[i + 1])) asc = false;
        if (!asc) { vf::count("axes_skipped_not_strictly_ascending"); continue; } // outside the statement's premise x_0 < x_1 < ...
        vf::count("axes");
        // scalar conversions
        check_scalar(ax, sd, gd, ax.x[0] - 1.0, true);
        check_scalar(ax, sd, gd, ax.x[0] - si, true);
        for (size_t i = 0; i <= N && !((i & 63) == 0 && vf::deadline_hit()); i++)
            for (double p : around(ax.x, i)) check_scalar(ax, sd, gd, p, true);
        if (vf::deadline_hit()) break;
        // round trip (statement: coordinate of sample i converts back to i; i-1 for Less, i+1 for Greater)
        for (size_t i = 0; i <= N; i++) {
            double p = sd.positionAt(i);
            OptIdx e = sd.indexOf(p, PositionMatch::Equal), l = sd.indexOf(p, PositionMatch::Less), g = sd.indexOf(p, PositionMatch::Greater),
                   le = sd.indexOf(p, PositionMatch::LessOrEqual), ge = sd.indexOf(p, PositionMatch::GreaterOrEqual);
            vf::count("roundtrips");
            if (!e || *e != i || !le || *le != i || !ge || *ge != i || !g || *g != i + 1 || (i == 0 ? bool(l) : (!l || *l != i - 1)))
                vf::violation("C07|SampledDimension|round trip indexOf(positionAt(i))", name + " i=" + std::to_string(i));
        }
        // start/end pairs around a few indices (first samples, a middle block, the last block)
        std::vector<size_t> anchors = {0, N / 2, N - PAIR_SPAN};
        for (size_t a0 : anchors) {
            std::vector<double> cands;
            if (a0 == 0) { cands.push_back(ax.x[0] - 1.0); cands.push_back(std::nextafter(ax.x[0], -INFINITY)); }
            for (size_t i = a0; i < a0 + PAIR_SPAN && i <= N; i++) for (double p : around(ax.x, i)) cands.push_back(p);
            check_pairs(ax, sd, gd, cands, true);
            if (a0 == 0) check_pair_scalar(ax, sd, cands);
        }
        if (ci < 2) vf::sample("{\"axis\":" + vf::jstr(name) + ",\"positions_per_index\":\"x_i, x_i-1ulp, x_i+1ulp, midpoint\",\"indices\":" + std::to_string(N + 1) + ",\"rules\":5}");
    }

    // ---------------- range axes ----------------
    std::vector<std::vector<double>> tickvs;
    tickvs.push_back({3.5});
    tickvs.push_back({-1.0, 2.0});
    tickvs.push_back({0.1, 0.2, 0.3, 0.4, 0.5});
    tickvs.push_back({-10.5, -3.0, -0.0, 1e-9, 2.25, 1e3});
    { std::vector<double> t; double v = 1.0; for (int i = 0; i < 8; i++) { t.push_back(v); v = std::nextafter(v, INFINITY); } tickvs.push_back(t); } // adjacent doubles
    { std::vector<double> t; for (int i = 0; i < 64; i++) t.push_back(0.1 * i); tickvs.push_back(t); }
    { std::vector<double> t; for (int i = 0; i < 64; i++) t.push_back(-5.0 + i * i * 0.37); tickvs.push_back(t); }
    { std::vector<double> t; for (int i = 0; i < (thorough ? 2000 : 1100); i++) t.push_back(1e-3 * i + 100.3); tickvs.push_back(t); }   // long axis: more ticks than a block-wise search reads at once
    for (size_t tv = 0; tv < tickvs.size(); tv++) {
        long ci = idx++;
        if (!vf::take_case(ci)) continue;
        const std::vector<double> &t = tickvs[tv];
        std::string name = "range(ticks#" + std::to_string(tv) + ",n=" + std::to_string(t.size()) + ")";
        vf::case_desc(name);
        DataArray da = b.createDataArray("r" + std::to_string(tv), "t", DataType::Double, NDSize({t.size()}));
        RangeDimension rd = da.appendRangeDimension(t);
        rd.unit("ms");
        Dimension gd = da.getDimension(1);
        Axis ax; ax.kind = "RangeDimension"; ax.name = name; ax.bounded = true; ax.x = rd.ticks();
        if (ax.x != t) { vf::violation("C07|RangeDimension::ticks|ticks not stored as given", name); continue; }
        std::vector<double> viaaxis = rd.axis(t.size());
        for (size_t i = 0; i < t.size(); i++)
            if (rd.tickAt(i) != t[i] || viaaxis[i] != t[i] || rd[i] != t[i]) { vf::violation("C07|RangeDimension::tickAt/axis|differs from ticks", name + " i=" + std::to_string(i)); break; }
        vf::count("axes");
        std::vector<double> all;
        all.push_back(t.front() - 1.0); all.push_back(std::nextafter(t.front(), -INFINITY));
        for (size_t i = 0; i < t.size(); i++) for (double p : around(t, i)) all.push_back(p);
        all.push_back(t.back() + 1.0); all.push_back(t.back() + 1e6);
        { size_t n = 0; for (double p : all) { if ((++n & 255) == 0 && vf::deadline_hit()) break; check_scalar(ax, rd, gd, p, true); } }
        if (vf::deadline_hit()) break;
        for (size_t i = 0; i < t.size(); i++) {
            OptIdx e = rd.indexOf(t[i], PositionMatch::Equal);
            vf::count("roundtrips");
            if (!e || *e != i) vf::violation("C07|RangeDimension|round trip indexOf(tickAt(i))", name + " i=" + std::to_string(i));
        }
        std::vector<double> cands;
        size_t lim = std::min<size_t>(t.size(), PAIR_SPAN);
        cands.push_back(t.front() - 1.0);
        for (size_t i = 0; i < lim; i++) for (double p : around(t, i)) cands.push_back(p);
        for (size_t i = t.size() - std::min(t.size(), (size_t)3); i < t.size(); i++) for (double p : around(t, i)) cands.push_back(p);
        cands.push_back(t.back() + 1.0);
        check_pairs(ax, rd, gd, cands, true);
        check_pair_scalar(ax, rd, cands);
        if (tv == 2) vf::sample("{\"axis\":" + vf::jstr(name) + ",\"ticks\":" + vf::jvecd(t) + "}");
    }

    // ---------------- set axes ----------------
    for (size_t nl : {0, 1, 3, 10}) {
        long ci = idx++;
        if (!vf::take_case(ci)) continue;
        std::string name = "set(labels=" + std::to_string(nl) + ")";
        vf::case_desc(name);
        DataArray da = b.createDataArray("set" + std::to_string(nl), "t", DataType::Double, NDSize({4}));
        std::vector<std::string> labels;
        for (size_t i = 0; i < nl; i++) labels.push_back("l" + std::to_string(i));
        SetDimension sd = da.appendSetDimension(labels);
        Dimension gd = da.getDimension(1);
        Axis ax; ax.kind = "SetDimension"; ax.name = name; ax.bounded = nl > 0;
        size_t n = nl > 0 ? nl : 40;
        for (size_t i = 0; i < n; i++) ax.x.push_back((double)i);
        vf::count("axes");
        std::vector<double> all = {-1.0, -0.5, std::nextafter(0.0, -INFINITY), -0.0};
        size_t upto = nl > 0 ? nl : 30;
        for (size_t i = 0; i < upto; i++) for (double p : around(ax.x, i)) all.push_back(p);
        if (nl > 0) { all.push_back((double)nl); all.push_back(nl + 0.5); all.push_back(nl + 1.0); all.push_back(nl + 100.0); }
        for (double p : all) check_scalar(ax, sd, gd, p, false);
        std::vector<double> cands = {-1.0, -0.5};
        for (size_t i = 0; i < std::min<size_t>(upto, 5); i++) for (double p : around(ax.x, i)) cands.push_back(p);
        if (nl > 0) { cands.push_back((double)nl); cands.push_back(nl + 0.5); }
        check_pairs(ax, sd, gd, cands, false);
        check_pair_scalar(ax, sd, cands);
        vf::sample("{\"axis\":" + vf::jstr(name) + "}", 6);
    }

    // ---------------- data-frame axes ----------------
    for (size_t nr : {1, 3, 7}) {
        long ci = idx++;
        if (!vf::take_case(ci)) continue;
        std::string name = "dataframe(rows=" + std::to_string(nr) + ")";
        vf::case_desc(name);
        std::vector<Column> cols = {{"c0", "", DataType::Double}, {"c1", "mV", DataType::Int64}};
        DataFrame df = b.createDataFrame("df" + std::to_string(nr), "t", cols);
        df.rows(nr);
        DataArray da = b.createDataArray("dfa" + std::to_string(nr), "t", DataType::Double, NDSize({nr}));
        DataFrameDimension dd = da.appendDataFrameDimension(df, 0u);
        Dimension gd = da.getDimension(1);
        Axis ax; ax.kind = "DataFrameDimension"; ax.name = name; ax.bounded = true;
        for (size_t i = 0; i < nr; i++) ax.x.push_back((double)i);
        vf::count("axes");
        std::vector<double> all = {-1.0, -0.5, std::nextafter(0.0, -INFINITY), -0.0};
        for (size_t i = 0; i < nr; i++) for (double p : around(ax.x, i)) all.push_back(p);
        all.push_back((double)nr); all.push_back(nr + 0.5); all.push_back(nr + 1.0); all.push_back(nr + 100.0);
        for (double p : all) check_scalar(ax, dd, gd, p, false);
        std::vector<double> cands = all;
        check_pairs(ax, dd, gd, cands, false);
        check_pair_scalar(ax, dd, cands);
    }

    f.close();
    vf::note("N", std::to_string(N));
    return vf::finish();
}
