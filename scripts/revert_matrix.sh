#!/bin/bash
# revert_matrix.sh <prop> <commit>... : for each fix commit, revert it in a scratch worktree and run the property's quick check;
# prints DETECTED / MISSED per commit (a reverted fix is a seeded defect the check must report)
PROP=$1; shift
for c in "$@"; do
  out=$(MUT_LINES=3 "$(dirname "$0")/try_mutant.sh" -R $c $PROP 2>&1)
  if echo "$out" | grep -q "^VIOLATION"; then echo "DETECTED $PROP revert-of-$c $(git -C /repo log -1 --format=%s $c | cut -c1-70) :: $(echo "$out" | grep signature | head -1 | cut -c1-150)";
  else echo "MISSED   $PROP revert-of-$c $(git -C /repo log -1 --format=%s $c | cut -c1-70) :: $(echo "$out" | tail -2 | tr '\n' ' ' | cut -c1-200)"; fi
done
