#!/bin/bash
# Build libnixio from $VERIF_REPO (default /repo) working tree into /verif/build/<flavour>/lib
# and the requested harness binaries into /verif/build/<flavour>/bin.
# usage: build.sh <plain|asan> [harness ...]      (no harness: library only)
set -euo pipefail
FLAVOUR=${1:?flavour}; shift || true
REPO=${VERIF_REPO:-/repo}
ROOT=$(cd "$(dirname "$0")/.." && pwd)
B=${VERIF_BUILD:-$ROOT/build}/$FLAVOUR
mkdir -p "$B/lib" "$B/bin" "$B/obj"
case $FLAVOUR in
  plain) CXXF="-O1 -g1 -DNDEBUG"; LDF="" ;;
  asan)  CXXF="-O1 -g1 -DNDEBUG -fsanitize=address,undefined -fno-sanitize-recover=undefined -fno-omit-frame-pointer -D_GLIBCXX_ASSERTIONS -DBOOST_ENABLE_ASSERT_HANDLER"; LDF="-fsanitize=address,undefined" ;;
  cov)   CXXF="-O0 -g1 -DNDEBUG --coverage"; LDF="--coverage" ;;
  *) echo "unknown flavour $FLAVOUR" >&2; exit 2 ;;
esac
# the project overwrites CMAKE_CXX_FLAGS, so instrumentation goes through a custom build type
(
  flock 9
  # the library sources are globbed: always re-run cmake so added/removed files are seen
  cmake -G Ninja -S "$REPO" -B "$B/lib" -DCMAKE_BUILD_TYPE=Verif \
        -DCMAKE_CXX_FLAGS_VERIF="$CXXF" -DCMAKE_C_FLAGS_VERIF="-O1" \
        -DCMAKE_SHARED_LINKER_FLAGS_VERIF="$LDF" -DCMAKE_EXE_LINKER_FLAGS_VERIF="$LDF" \
        -DBUILD_TESTING=OFF > "$B/cmake.log" 2>&1 || { cat "$B/cmake.log" >&2; exit 2; }
  ninja -C "$B/lib" nixio > "$B/ninja.log" 2>&1 || { tail -40 "$B/ninja.log" >&2; exit 2; }
  if [ "$FLAVOUR" = asan ]; then
    # (grep -c reads all of nm's output: grep -q would close the pipe early and nm's SIGPIPE fails the pipeline under pipefail)
    [ "$(nm -D "$B/lib/libnixio.so" | grep -c __asan_report)" -gt 0 ] || { echo "asan library is not instrumented" >&2; exit 2; }
  fi
  if [ $# -gt 0 ]; then
    TARGETS=""
    for h in "$@"; do TARGETS="$TARGETS $B/bin/$h"; done
    make -s -j16 -f "$ROOT/scripts/harness.mk" ROOT="$ROOT" REPO="$REPO" B="$B" CXXF="$CXXF" LDF="$LDF" $TARGETS \
        > "$B/make.log" 2>&1 || { tail -60 "$B/make.log" >&2; exit 2; }
  fi
) 9> "$B/.lock"
