#!/usr/bin/env python3
"""Regenerate MANIFEST.json from scripts/propcfg.py (single source of truth) and validate it against the schema."""
import json, os, sys
root = os.path.dirname(os.path.dirname(os.path.abspath(__file__)))
sys.path.insert(0, os.path.join(root, 'scripts'))
from propcfg import PROPS, NOT_APPLICABLE
ids = [json.loads(l)['id'] for l in open(os.path.join(root, 'properties.jsonl'))]
checks = []
for pid in ids:
    if pid not in PROPS:
        continue
    c = PROPS[pid]
    m = c['manifest']
    checks.append(dict(
        property_id=pid,
        quick_cmd='./check %s --tier quick' % pid,
        thorough_cmd='./check %s --tier thorough' % pid,
        evidence_file='/verif/evidence/%s.json' % pid,
        replay_cmd_template='./check %s --replay {path}' % pid,
        engine=m['engine'],
        level_claimed=dict(category=c['level'], text=m['text'], design_ref=m['design_ref']),
        level_note=m['note'],
        technique=m['technique'],
    ))
na = [dict(property_id=p, reason=NOT_APPLICABLE.get(p, 'check not built yet (work in progress, see DESIGN.md section 9)')) for p in ids if p not in PROPS]
man = dict(
    version=1,
    setup_cmd='scripts/setup.sh',
    hooks=dict(guard='NIX_VERIF', enable='no source hooks: time(), boost::assertion_failed and the HDF5 boundary shim are provided by link-time interposition in the harness executables; the guard name is reserved and unused',
               baseline_off_cmd='scripts/baseline.sh', source_commits=[], add_only=True),
    engines=[
        dict(name='E1', path='engine/ + props/', serves_properties=[p for p in ids if p in PROPS and PROPS[p]['manifest']['engine'] == 'E1'], kind_free_text='explicit-state exploration of API operation sequences on the real library (state = canonical observation of the file through public getters), oracle = reference model / differential observation on every transition'),
        dict(name='E2', path='engine/ + props/', serves_properties=[p for p in ids if p in PROPS and PROPS[p]['manifest']['engine'] == 'E2'], kind_free_text='exhaustive input grids through the public API on real files against a brute-force reference transcribed from the property statement'),
        dict(name='E3', path='engine/ + props/', serves_properties=[p for p in ids if p in PROPS and PROPS[p]['manifest']['engine'] == 'E3'], kind_free_text='exhaustive enumeration of environment choices (header contents, version triples, crash points, clock values) over bounded histories'),
    ],
    checks=checks,
    not_applicable=na,
    notes='All checks are bounded exhaustive enumerations on the real code (no sampling, no solver). ./check <id> rebuilds libnixio and the harness from /repo working tree (VERIF_REPO overrides) before running. Known findings: known_findings.json.',
)
json.dump(man, open(os.path.join(root, 'MANIFEST.json'), 'w'), indent=1)
try:
    import jsonschema
    jsonschema.validate(man, json.load(open('/root/.vp/MANIFEST.schema.json')))
    print('MANIFEST.json valid;', len(checks), 'checks,', len(na), 'not claimed')
except ImportError:
    print('jsonschema not available; written without validation')
