#!/bin/bash
# seed_round.sh <round> <prop> <k> [check ...] : confirm one seeded change (scripts/confirm_seed.sh) and run the property's quick check
# (and any further checks given) against it in a scratch worktree (scripts/try_mutant.sh).  Appends to /tmp/seed<round>/round<round>.log
# and writes the detection output to /tmp/seed<round>/<prop>/seed_out/<k>/detect-<check>.log
set -u
R=$1; P=$2; K=$3; shift 3
ROOT=$(cd "$(dirname "$0")/.." && pwd)
D=/tmp/seed$R/$P/seed_out/$K
SANV=0; grep -qi "SAN=1" "$D/notes.md" 2>/dev/null && SANV=1
SAN=$SANV "$ROOT/scripts/confirm_seed.sh" "$D" >> /tmp/seed$R/round$R.log 2>&1
for C in $P "$@"; do
  MUT_LINES=40 "$ROOT/scripts/try_mutant.sh" "$D/patch.diff" "$C" quick > "$D/detect-$C.log" 2>&1
  echo "DETECT $P/$K by $C: $(grep -c '^VIOLATION' "$D/detect-$C.log") violations, $(tail -1 "$D/detect-$C.log")" >> /tmp/seed$R/round$R.log
done
