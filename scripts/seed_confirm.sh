#!/bin/bash
# seed_confirm.sh <round> <prop> <k> : independent confirmation of one seeded change (scripts/confirm_seed.sh), appended to the round log
R=$1; P=$2; K=$3; ROOT=$(cd "$(dirname "$0")/.." && pwd); D=/tmp/seed$R/$P/seed_out/$K
SANV=0; grep -qi "SAN=1" "$D/notes.md" 2>/dev/null && SANV=1
SAN=$SANV "$ROOT/scripts/confirm_seed.sh" "$D" >> /tmp/seed$R/round$R.log 2>&1
