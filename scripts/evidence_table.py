#!/usr/bin/env python3
"""print a markdown table of the evidence files (one line per property) for DESIGN.md section 10"""
import json, glob, os
rows = []
for f in sorted(glob.glob(os.path.join(os.path.dirname(os.path.dirname(os.path.abspath(__file__))), 'evidence', 'C*.json'))):
    e = json.load(open(f)); c = e['coverage']
    rows.append((e['property_id'], e['tier'], e['level'], c.get('states', ''), c.get('transitions', ''), c.get('evaluations', ''), c.get('distinct_nontrivial', ''),
                 c.get('exhaustive'), e['wall_s'], len(c.get('known_findings_hit', [])), c.get('bound', '')))
print('| id | tier | level | states | transitions | evaluations | distinct | exhaustive | wall s | known findings | bound |')
print('|----|------|-------|--------|-------------|-------------|----------|------------|--------|----------------|-------|')
for r in rows:
    print('| ' + ' | '.join(str(x) for x in r) + ' |')
