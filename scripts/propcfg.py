"""Per-property configuration of the dispatcher: parts (harness binaries), flavours, budgets, evidence mapping."""

PROPS = {}
NOT_APPLICABLE = {}   # property id -> reason (only for properties that are deliberately not claimed)

PROPS["C10"] = dict(
    level="exploration",
    budget_s=dict(quick=60, thorough=120),
    parts=[dict(name="gate", bin="C10", flavour="plain", shards=4)],
    manifest=dict(
        engine="E3", design_ref="5 / C10",
        technique="exhaustive enumeration of version triples x open modes x Force on real files; ordering laws on all pairs/triples",
        text="The whole configuration space the statement quantifies over is small and is enumerated completely: every stored "
             "version triple of a cube around the library version plus integer extremes, in all three open modes with Force off "
             "and on, against the statement's gate formula; FormatVersion order laws on all ordered pairs and all cube triples. "
             "Exhaustive within that cube, hence 'exploration' with exhaustive:true.",
        note="Trusted: HDF5 attribute I/O used to plant the version triple; the formula is expressed relative to the version a "
             "freshly created file reports, not hard-coded."),
    evidence=dict(
        keys=dict(evaluations=("sum", [("count", "opens"), ("count", "pair_laws"), ("count", "triple_laws")]),
                  distinct_nontrivial=("distinct", "outcomes")),
        rule="every version triple of the cube [Lx-1..Lx+2]x[Ly-2..Ly+2]x[Lz-1..Lz+3] around the library version L plus "
             "INT_MIN/-1/INT_MAX extremes is written into the header of a valid file (HDF5 C API) and opened in "
             "{ReadOnly,ReadWrite,Overwrite} x Force{off,on}; ordering laws on all ordered pairs and on all triples with a "
             "in the cube. distinct_nontrivial = distinct (version class relative to L, mode, force, outcome) tuples and "
             "distinct comparison outcomes.",
        bound=dict(quick="whole space", thorough="whole space"),
        assumptions=["HDF5 1.10 attribute I/O is correct", "the base file is produced by the library under test"],
    ),
)
